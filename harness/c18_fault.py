"""C18, round 5: ENGINE FAULTS at a particular point of a history.

The property says "an event write issued more than about ten seconds after the previous flush
is itself made durable before it returns".  "The previous flush" is a flush that HAPPENED.  An
operation of the engine can raise - COMMIT with sqlite3.OperationalError 'database is locked'
while another connection holds a lock, an execute, an executemany part-way -, the storage call
propagates the exception, the caller catches it and carries on with the same store.  Neither
harness/c06_lib.py nor harness/c18_lib.py ever makes the engine raise, so nothing of what the
code leaves behind on that path (which assignments of commit() ran before the engine call) was
observed.  This module adds

  * a delegating wrapper of the store's connection (`FaultyConnection`, cursors included) whose
    commit() / write execute() / executemany() raises ONCE at a chosen call index; a step

        (dt_us, tick_us, ("fault", kind, nth, (call, args...)[, times]))

    runs `call` with the fault armed: kind "commit" - the nth conn.commit() the call makes
    raises (nothing is flushed, the transaction stays open); "execute" - its nth write statement
    raises before it reaches the engine (nothing is written); "executemany" - the bulk statement
    raises after nth rows (they stay in the open transaction).  The caller (the harness) catches
    the exception and goes on; with `times` > 1 the engine goes on raising for that many consecutive
    calls of the kind (a lock held for the whole call: a call that tries again meets it again).
    Storage layer and Datastore / Bucket layer, fake clock, re-opening and the second store as in
    c18_lib.
  * a recorder that keeps a commit step that RAISED (with the engine's answer per attempt) and
    the position of a statement that raised, so that the run can be compared with the extracted
    model of Model/CommitFault.v (driver cases 6 / 7): counter, last_commit, committed prefix after
    every step, which steps raised, which steps of the call still ran.
  * the property statement relative to the last SUCCESSFUL flush as the second connection saw it
    (`fault_violations`; nothing of it reads the store's attributes): F = the latest instant at
    which the second connection saw nothing pending; a successful event write issued more than
    10 s after F leaves nothing pending (signature C18:old-write-not-flushed, by statement trace
    and by table content); after a call that returned normally and takes a commit decision every
    write still pending was issued at most 10 s after F (C18:pending-write-too-old) - the writes
    issued since the last such call belong to calls that raised (their caller was told) and are
    exempt until the next one returns, exactly as Props/C18fault.v: C18f_age_bound says.
  * a REAL lock (`real_lock_run`, no wrapper): the file in rollback-journal mode (what a store gets
    where WAL is not available), a second connection inside a read transaction, so that the
    store's COMMIT raises 'database is locked' by itself (busy_timeout 20 ms)."""
import json
import os
import shutil
import sqlite3

from . import common
from . import c06_lib as lib
from . import c18_lib as lib18
from .c06_lib import S
from .c06_gen import MS, _create, _ins

FAULT = "fault"
KINDS = ("commit", "execute", "executemany")
OFFSETS = (1 * S, 5 * S, 9_900_000, 10_000_001)          # after the failed operation
SIG_OLD = lib18.SIG_OLD
SIG_PENDING = "C18:pending-write-too-old"
DECISION_CALLS = lib.EVENT_WRITE_CALLS + lib.BUCKET_CALLS + lib.READ_CALLS


def _err():
    return sqlite3.OperationalError("database is locked")


def _is_write_sql(sql):
    try:
        return sql.lstrip().split(None, 1)[0].upper() in lib.WRITE_KW
    except Exception:
        return False


# ---------------------------------------------------------------------------
# the engine that can raise


class Control:
    """Counts the engine calls of the call in progress and raises once at the armed one."""

    def __init__(self):
        self.rec = None
        self.armed = None
        self.reset()

    def reset(self):
        self.n = {"commit": 0, "execute": 0, "executemany": 0}
        self.fired = None

    def arm(self, kind, nth, times=1):
        self.reset()
        self.armed = (kind, nth, times)

    def disarm(self):
        self.armed = None
        return self.fired

    def hit(self, kind):
        """-> the armed fault strikes at this engine call"""
        i = self.n[kind]
        self.n[kind] += 1
        if self.armed and self.armed[0] == kind:
            if self.fired is None and (kind == "executemany" or self.armed[1] == i):
                self.fired = {"kind": kind, "index": i, "times": 1}
                return True
            # a lock that is still held: the engine goes on raising for `times` consecutive calls of the kind
            if self.fired is not None and kind != "executemany" and i < self.armed[1] + self.armed[2]:
                self.fired["times"] += 1
                return True
        return False


class FaultyCursor:
    def __init__(self, real, ctl):
        self.__dict__["_real"] = real
        self.__dict__["_ctl"] = ctl

    def execute(self, sql, *a):
        ctl = self._ctl
        if _is_write_sql(sql) and ctl.hit("execute"):
            if ctl.rec is not None:
                ctl.rec.on_statement_fault("execute")
            raise _err()
        return self._real.execute(sql, *a)

    def __iter__(self):
        return iter(self._real)

    def __getattr__(self, name):
        return getattr(self._real, name)

    def __setattr__(self, name, v):
        setattr(self._real, name, v)


class FaultyConnection:
    """Delegates to the store's real sqlite3 connection."""

    def __init__(self, real, ctl):
        self.__dict__["_real"] = real
        self.__dict__["_ctl"] = ctl

    def commit(self):
        ctl = self._ctl
        if ctl.hit("commit"):
            if ctl.rec is not None:
                ctl.rec.on_commit_fault()
            raise _err()                      # nothing flushed, the transaction stays open
        return self._real.commit()

    def execute(self, sql, *a):
        ctl = self._ctl
        if _is_write_sql(sql) and ctl.hit("execute"):
            if ctl.rec is not None:
                ctl.rec.on_statement_fault("execute")
            raise _err()                      # the statement never reaches the engine
        return self._real.execute(sql, *a)

    def executemany(self, sql, rows):
        ctl = self._ctl
        if _is_write_sql(sql) and ctl.hit("executemany"):
            rows = list(rows)
            done = min(ctl.armed[1], max(len(rows) - 1, 0))
            ctl.fired["done"] = done
            if done:
                self._real.executemany(sql, rows[:done])    # these stay in the open transaction
            if ctl.rec is not None:
                ctl.rec.on_statement_fault("executemany")
            raise _err()
        return self._real.executemany(sql, rows)

    def cursor(self, *a, **k):
        return FaultyCursor(self._real.cursor(*a, **k), self._ctl)

    def __getattr__(self, name):
        return getattr(self._real, name)

    def __setattr__(self, name, v):
        setattr(self._real, name, v)


# ---------------------------------------------------------------------------
# recorder: commit steps that raise are steps


class RecorderF(lib18.Recorder18):
    def __init__(self, storage, path, clock):
        super().__init__(storage, path, clock)
        self.finfo = {}          # micro index -> {"raised": bool, "eng": [ok1, ok2, ok3]}
        self.markers = []        # (micro index the statement would have had, kind, t, index of the call)
        self.eng = [True, True, True]

    def on_commit_fault(self):
        self.eng[2 if (self.in_cc and self.test_done) else 0] = False

    def on_statement_fault(self, kind):
        self.markers.append((len(self.micro), kind, self.clock.now, len(self.calls)))

    def on_commit(self, thunk):
        if self.in_cc or self.in_commit:
            return super().on_commit(thunk)
        entry = self.clock.now
        self.slots = {}
        self.eng = [True, True, True]
        self.in_commit = True
        raised = None
        try:
            r = thunk()
        except Exception as ex:
            raised, r = ex, None
        finally:
            self.in_commit = False
        r1 = self.slots.get("r1", entry)
        self.finfo[len(self.micro)] = {"raised": raised is not None, "eng": list(self.eng)}
        self.micro.append(("C", None, (r1, r1, r1)))
        self.observe("after-commit")
        if raised is not None:
            raise raised
        return r

    def on_cc(self, k, thunk):
        entry = self.clock.now
        self.slots = {}
        self.eng = [True, True, True]
        self.in_cc, self.test_done = True, False
        raised = None
        try:
            r = thunk()
        except Exception as ex:
            raised, r = ex, None
        finally:
            self.in_cc = False
            self.in_commit = False
        r1 = self.slots.get("r1", entry)
        r2 = self.slots.get("r2", max(r1, entry))
        r3 = self.slots.get("r3", r2)
        self.finfo[len(self.micro)] = {"raised": raised is not None, "eng": list(self.eng)}
        self.micro.append(("K", k, (r1, r2, r3)))
        self.observe("after-cc")
        if raised is not None:
            raise raised
        return r


class RunnerF(lib18.Runner18):
    recorder_class = RecorderF

    def __init__(self, session, lazy):
        self.ctl = Control()
        super().__init__(session, lazy)
        self.ctl.rec = self.rec

    def wrap_connection(self):
        self.st.conn = FaultyConnection(self.st.conn, self.ctl)


class FaultSession(lib18.Session):
    runner_class = RunnerF
    faults = True

    def step(self, dt, tick, spec):
        spec = tuple(tuple(x) if isinstance(x, list) else x for x in spec)
        if spec[0] != FAULT:
            return super().step(dt, tick, spec)
        kind, nth, inner = spec[1], spec[2], tuple(tuple(x) if isinstance(x, list) else x for x in spec[3])
        times = spec[4] if len(spec) > 4 else 1
        rec_spec = [FAULT, kind, nth, list(inner)] + ([times] if times != 1 else [])
        if kind not in KINDS or inner[0] in (lib18.REOPEN, lib18.COMPANION, FAULT):
            raise ValueError("fault step " + repr(spec))
        r = self.cur
        n_calls = len(r.rec.calls)
        was_cached = inner[1] in r.cached if len(inner) > 1 else False
        r.ctl.arm(kind, nth, times)
        try:
            super().step(dt, tick, inner)
        finally:
            fired = r.ctl.disarm()
        self.steps[-1] = [dt, tick, rec_spec]
        r.steps[-1] = [dt, tick, rec_spec]
        if len(r.rec.calls) > n_calls:
            c = r.rec.calls[-1]
            c["fault"] = {"kind": kind, "nth": nth, "times": times, "fired": fired}
            if fired and inner[0] == "create_bucket" and not was_cached:
                r.cached.discard(inner[1])      # Datastore.create_bucket raised before self[bucket_id]


def run_fault_session(sq, Event, lazy, history, layer="storage"):
    s = FaultSession(sq, Event, lazy, layer)
    try:
        s.open()
        for dt, tick, spec in (history(s) if callable(history) else history):
            s.step(dt, tick, spec)
    finally:
        s.finish()
    return s


# ---------------------------------------------------------------------------
# the property statement, relative to the last flush that happened (black box)


def fault_violations(r):
    """-> list of (signature, description) for one store instance"""
    if not r.lazy:
        return []
    rec, out = r.rec, []
    sh, calls = rec.shadow, rec.calls
    for o in rec.obs:
        o["J"] = sh.matches(o["digest"], o["issued"])
    end_obs = {o["call"]: o for o in rec.obs if o["kind"] == "call-end"}
    F, oi = r.t0, 0
    checked = 0          # tokens issued before the end of the last deciding call that returned normally
    last_fault = None
    for ci, c in enumerate(calls):
        F_start = F
        while oi < len(rec.obs) and rec.obs[oi]["call"] <= ci:
            o = rec.obs[oi]
            oi += 1
            if o["J"] and o["issued"] in o["J"]:
                F = max(F, o["t"])
        o = end_obs.get(ci)
        fl = c.get("fault")
        if fl and fl.get("fired"):
            last_fault = (ci, c["t_start"], fl["fired"]["kind"])
        if o is None or not o["J"]:
            continue
        J = o["J"]
        name = c["spec"][0]
        returned = c["outcome"] is None
        wrote = c["end_token"] > c["first_token"]
        after = "" if last_fault is None else (f" ({(c['t_start'] - last_fault[1]) / S:.6f} s after the {last_fault[2]} of call "
                                               f"#{last_fault[0]} raised)")
        if name in lib.EVENT_WRITE_CALLS and wrote and returned and c["t_start"] - F_start > lib.MAX_AGE \
                and o["issued"] not in J:
            out.append((SIG_OLD, f"call #{ci} {c['spec']} issued {(c['t_start'] - F_start) / S:.6f} s after the last instant at "
                                 f"which nothing was pending{after} RETURNED NORMALLY with {o['issued'] - max(J)} writes "
                                 f"uncommitted (the last flush that happened is older than 10 s)"))
        if returned and name in DECISION_CALLS and not (name == "get_events" and c["spec"][2] == 0):
            checked = o["issued"]
        for w in range(max(J), min(checked, o["issued"])):
            if rec.issue_time[w] - F > lib.MAX_AGE:
                out.append((SIG_PENDING, f"after call #{ci} {c['spec']}{after}: write {w}, issued {(rec.issue_time[w] - F) / S:.6f} s "
                                         f"after the last instant at which nothing was pending and before a later call "
                                         f"that returned normally, is still uncommitted"))
                break
    return out


def session_violations(s):
    out = []
    for r in s.segments:
        v = list(fault_violations(r))
        have = {sig for sig, _ in v}
        v += [x for x in lib18.effect_violations(r) if x[0] not in have]
        for sig, desc in v:
            where = f"store instance #{r.index}" + (" (opened on the existing file)" if r.existing else "")
            if s.layer == "api":
                where += " opened and driven through Datastore/Bucket"
            out.append((sig, f"{where}, opened at t={r.t0 / S:.6f} s, engine faults injected: {desc}"))
    return out


def replay_obj(s, extra=None):
    case = {"lazy": s.lazy, "layer": s.layer, "faults": True, "steps": s.steps}
    o = {"history": case, "rerun": lib18.REPLAY_CMD % (common.REPO, common.VERIF, json.dumps(case))}
    if extra:
        o.update(extra)
    return o


def shrink_fault_session(sq, Event, lazy, steps, signature, layer):
    def still(cand):
        try:
            s = run_fault_session(sq, Event, lazy, cand, layer)
        except Exception:
            return False
        return any(sig == signature for sig, _ in session_violations(s))
    if len(steps) > 400:
        return steps
    return common.shrink_list(steps, still, max_steps=150)


# ---------------------------------------------------------------------------
# correspondence with Model/CommitFault.v (driver cases 6 and 7)


def wire_fault_trace(lazy, t0, rec):
    """-> (case text, after): after[i] = number of model steps that precede the state reached
    when i micro-steps were recorded"""
    by_pos = {}
    for pos, kind, t, _ in rec.markers:
        by_pos.setdefault(pos, []).append((kind, t))
    tr, after = [], [0]
    for i, (k, a, c) in enumerate(rec.micro):
        for kind, t in by_pos.get(i, []):
            tr.append([[1] if kind == "execute" else [2, []], [t, t, t], [True, True, True]])
        m = {"E": [0, a], "R": [2], "C": [3], "K": [4, a]}[k]
        eng = rec.finfo.get(i, {}).get("eng", [True, True, True])
        tr.append([[0, m], list(c), [bool(x) for x in eng]])
        after.append(len(tr))
    for kind, t in by_pos.get(len(rec.micro), []):
        tr.append([[1] if kind == "execute" else [2, []], [t, t, t], [True, True, True]])
    return common.sx([6, lazy, t0, tr]), after


def fault_position(rec, ci, c):
    """-> (kind 0 = commit | 1 = statement, number of flattened micro-steps of the call completed
    before the fault) or None when no engine call of the call raised"""
    a, b = c["first_micro"], c["end_micro"]
    for pos, kind, t, call in rec.markers:
        if call == ci:
            return 1, pos - a
    for i in range(a, b):
        fi = rec.finfo.get(i)
        if fi and (fi["raised"] or not all(fi["eng"])):
            return 0, i - a
    return None


def shape_of_fault_script(script):
    out = []
    for m in script:
        if m[0] == 0:
            out += lib.shape_of_model_script([m[1]])
        elif m[0] == 2:
            out += ["E"] * len(m[1])
    return out


def compare_fault_model(r, model_out, after, script_outs):
    """-> list of disagreement descriptions for one store instance"""
    rec, bad = r.rec, []
    states, fin_c, fin_p = model_out
    states = [[0, 0, 0, r.t0, r.t0, 0]] + states
    if rec.anomalies:
        bad.append("recorder anomalies: " + "; ".join(rec.anomalies[:3]))
    if not r.own_ok:
        bad.append("the store's own connection does not see the effect of all issued writes (shadow replay differs)")
    for ci, (c, (kind, so)) in enumerate(zip(rec.calls, script_outs)):
        got = lib.shape_of_observed(rec.micro[c["first_micro"]:c["end_micro"]])
        pre = []
        api = c.get("api")
        if kind == "fault":
            if api is not None and api[0] == "bucket" and not api[1]:
                pre = ["R"]
            if so == [-1]:
                bad.append(f"{c['spec']}: the engine raised after {fault_position(rec, ci, c)[1]} steps of the call, where the "
                           f"model's script has no such operation (implementation ran {got})")
                continue
            want = pre + shape_of_fault_script(so)
            if not c["outcome"]:
                bad.append(f"{c['spec']}: an engine operation raised ({c.get('fault')}) and the call returned normally")
        else:
            want = lib.shape_of_model_script(so)
            if bool(c["outcome"]) != bool(c.get("raises")):
                bad.append(f"{c['spec']}: exception {c['outcome']} (expected to raise: {c.get('raises')})")
        if want != got:
            bad.append(f"script of {c['spec']} (expect={c.get('expect')}, fault={c.get('fault')}): model {want} implementation {got}")
    for i in range(len(rec.micro)):
        fi = rec.finfo.get(i)
        if fi is not None:
            mr = bool(states[after[i + 1]][5])
            if mr != fi["raised"]:
                bad.append(f"micro-step {i} ({rec.micro[i][0]}{rec.micro[i][1] or ''}, engine answers {fi['eng']}): model "
                           f"raises {mr}, implementation raised {fi['raised']}")
    for o in rec.obs:
        clen, plen, n, last, last_ok, _ = states[after[o["i"]]]
        if clen >= len(rec.shadow.digests) or rec.shadow.digests[clen] != o["digest"]:
            bad.append(f"{o['kind']} after {o['i']} micro-steps: model has {clen} writes committed, the second "
                       f"connection sees the effect of {o['J'] if 'J' in o else '?'}")
        if clen + plen != o["issued"]:
            bad.append(f"{o['kind']} after {o['i']} micro-steps: model committed+pending = {clen + plen}, issued {o['issued']}")
        if n != o["n"]:
            bad.append(f"{o['kind']} after {o['i']} micro-steps: num_uncommitted_statements model {n} implementation {o['n']}")
        if last != o["last"]:
            bad.append(f"{o['kind']} after {o['i']} micro-steps: last_commit model {last} implementation {o['last']} "
                       f"(last flush that happened: {last_ok})")
        if len(bad) > 6:
            break
    if fin_c + fin_p != list(range(len(rec.issue_time))):
        bad.append("final committed ++ pending is not the issue-ordered token list")
    return bad


def model_case_f(rec, ci, c):
    """-> (kind, wire case) for one recorded call"""
    pos = fault_position(rec, ci, c)
    if pos is None or (pos[0] == 1 and c.get("expect") == "rejected"):
        # no engine call raised / the statement the engine would have rejected anyway was the one that raised
        return "plain", lib18.model_case(c)
    kind, p = pos
    api = c.get("api")
    if api is not None and api[0] == "bucket" and not api[1]:
        p -= 1                                  # the bucket listing of ds[b]
    return "fault", common.sx([7, lib.model_op(c), kind, max(p, -1)])


# ---------------------------------------------------------------------------
# histories


def _fault(dt, kind, nth, call, tick=0, times=1):
    return (dt, tick, (FAULT, kind, nth, tuple(call)) + ((times,) if times != 1 else ()))


def scout(sq, Event, lazy, history):
    """Runs a history without faults -> (concrete steps, per step the number of conn.commit()
    calls, of write statements, the rows of its executemany or None, buckets alive after it)"""
    s = FaultSession(sq, Event, lazy, "storage")
    info = []
    try:
        s.open()
        for dt, tick, spec in (history(s) if callable(history) else history):
            r = s.cur
            r.ctl.reset()
            s.step(dt, tick, spec)
            if spec[0] in (lib18.REOPEN, lib18.COMPANION):
                info.append(None)
            else:
                c = s.cur.rec.calls[-1]
                rows = None
                if spec[0] == "insert_many":
                    rows = spec[3]
                info.append({"commits": r.ctl.n["commit"], "writes": r.ctl.n["execute"], "rows": rows,
                             "buckets": list(s.cur.bucket_ids()), "raised": c["outcome"] is not None})
    finally:
        s.finish()
    return s.steps, info


def followups(bucket, k):
    """event writes at +OFFSETS[k], then at the later offsets, counted from the failed operation"""
    kinds = (("insert_one", bucket), ("replace_last", bucket), ("insert_many", bucket, (), 2), ("insert_one", bucket))
    out, at = [], 0
    for j in range(k, len(OFFSETS)):
        out.append((OFFSETS[j] - at, 0, kinds[(k + j) % len(kinds)]))
        at = OFFSETS[j]
    return out


def derived(steps, info, i, kind, nth, k, tail=5):
    """the history `steps` with the engine raising in step i, follow-up writes, then a few more
    steps of the original"""
    dt, tick, spec = steps[i]
    bs = info[i]["buckets"]
    if not bs:
        return None
    b = spec[1] if len(spec) > 1 and spec[1] in bs else bs[0]
    return [tuple(x) for x in steps[:i]] + [_fault(dt, kind, nth, spec, tick)] + followups(b, k) + \
           [tuple(x) for x in steps[i + 1:i + 1 + tail]]


def base_histories():
    """the age corpus of C06/C18 that the fault positions are taken from"""
    from . import c06_gen as gen
    from . import c18_gen as gen18
    keep = []
    for name, lazy, h in gen.corpus():
        if name.startswith(("age-", "trickle-", "idle-", "ticking-clock-", "eager", "bucket-ops", "reads",
                            "partial-bulk-failure", "insert_many-upserts-on-49")):
            keep.append((name, lazy, h))
    for name, lazy, h in gen18.corpus():
        if name.startswith(("long-trickle-", "long-idle", "reopen-insert_many-", "reopen-then-burst")) \
                or name in ("long-age-insert_one-86400000000", "long-age-replace-11000000"):
            keep.append((name, lazy, h))
    for name, lazy, h in gen18.api_corpus():
        if name.startswith("datastore-level") or name in ("wrapped-insert_many-10000001", "second-store-alive-delete"):
            keep.append((name, lazy, h))
    return keep


def corpus(sq, Event, quick):
    """-> list of (name, lazy, concrete steps): a COMMIT that raises at EVERY commit position of
    the age corpus (every conn.commit() any call of it makes), each followed by event writes
    +1 s / +5 s / +9.9 s / +10.000001 s after the failed operation (quick: the first follow-up
    rotates over the four offsets with the position; thorough: all four starts), and a raising
    statement at the write statements of the calls that issue several"""
    out = []

    def add(name, lazy, steps):
        if steps:
            out.append((name, lazy, steps))

    # the seed class, written out: flush; +12 s a write whose age COMMIT raises; +d the next write
    for kind in ("insert_one", "replace_last", "insert_many", "delete", "replace"):
        for d in OFFSETS:
            def h(r, kind=kind, d=d):
                yield _create("b")
                yield (MS, 0, ("insert_many", "b", (), 3))
                yield (MS, 0, ("get_eventcount", "b"))                  # the last flush that happens: T
                ids = r.event_ids("b")
                yield (1 * S, 0, ("insert_one", "b"))                   # young, buffered (nothing was pending before it: F = T + 1 s)
                yield _fault(11 * S, "commit", 0, ("insert_one", "b"))  # T + 12 s: old, its COMMIT raises
                spec = {"insert_one": ("insert_one", "b"), "delete": ("delete", "b", ids[0]),
                        "replace": ("replace", "b", ids[1]), "replace_last": ("replace_last", "b"),
                        "insert_many": ("insert_many", "b", (ids[2],), 2)}[kind]
                yield (d, 0, spec)                                      # returns normally: everything durable
                yield (4 * S, 0, ("insert_one", "b"))
                yield _fault(7 * S, "commit", 0, ("replace_last", "b"))
                yield _fault(MS, "commit", 0, ("insert_one", "b"))      # twice in a row
                yield (d, 0, spec if kind != "delete" else ("delete", "b", ids[1]))
                yield (1 * S, 0, ("insert_one", "b"))
                # the lock is held for the whole call: every COMMIT the call attempts raises
                yield _fault(11 * S, "commit", 0, ("insert_one", "b"), times=(3, 1000)[OFFSETS.index(d) % 2])
                yield (d, 0, ("replace_last", "b"))
            add(f"fault-then-{kind}-{d}", True, h)

    # the count branch: the 51st statement's COMMIT raises (young), later the age COMMIT too
    def h_count(r):
        yield _create("b")
        yield from _ins("b", 50, dt=MS)
        yield _fault(MS, "commit", 0, ("insert_one", "b"))
        yield (S, 0, ("insert_one", "b"))                               # counter still > 50: flushed
        yield from _ins("b", 49, dt=100 * MS)
        yield _fault(5_200_000, "commit", 0, ("insert_many", "b", (1, 2), 3))   # count COMMIT raises, 10.1 s after the flush
        yield (5 * S, 0, ("replace_last", "b"))
        yield from _ins("b", 50, dt=10 * MS)
        yield _fault(12 * S, "commit", 1, ("insert_one", "b"))          # count commit fine, no second attempt: nothing fires
        yield (12 * S, 6 * S, ("insert_one", "b"))
    add("fault-count-branch", True, h_count)

    # bucket operations and reads whose COMMIT raises, statements that raise
    def h_bucket(r):
        yield _create("a")
        yield from _ins("a", 3)
        yield _fault(11 * S, "commit", 0, ("create_bucket", "b"))      # the bucket row stays in the open transaction
        yield (S, 0, ("insert_one", "b"))
        yield _fault(11 * S, "commit", 0, ("get_eventcount", "a"))
        yield (S, 0, ("insert_one", "a"))
        yield _fault(11 * S, "commit", 0, ("update_bucket", "a", 1))
        yield (9_900_000, 0, ("replace_last", "a"))
        yield _fault(11 * S, "execute", 1, ("delete_bucket", "b"))     # its second DELETE raises: the first stays pending
        yield (2 * S, 0, ("insert_one", "a"))
        yield _fault(11 * S, "execute", 0, ("insert_one", "a"))        # nothing written, no commit decision
        yield (S, 0, ("buckets",))
        yield (S, 0, ("insert_one", "a"))
        yield _fault(11 * S, "commit", 0, ("delete_bucket", "b"))
        yield (5 * S, 0, ("insert_one", "a"))
    add("fault-bucket-ops-and-reads", True, h_bucket)

    def h_bulk(r):
        yield _create("b")
        yield (MS, 0, ("insert_many", "b", (), 6))
        yield (MS, 0, ("get_eventcount", "b"))
        ids = r.event_ids("b")
        yield (3 * S, 0, ("insert_one", "b"))
        yield _fault(8 * S, "execute", 1, ("insert_many", "b", tuple(ids[:3]), 2))    # second UPDATE raises: finally clause flushes
        yield (3 * S, 0, ("insert_one", "b"))
        yield _fault(8 * S, "executemany", 2, ("insert_many", "b", tuple(ids[:2]), 4))  # bulk INSERT raises on its third row
        yield (3 * S, 0, ("insert_one", "b"))
        yield _fault(8 * S, "executemany", 0, ("insert_many", "b", (), 3))
        yield (3 * S, 0, ("insert_one", "b"))
        yield _fault(8 * S, "commit", 0, ("insert_many", "b", tuple(ids[:2]), 4))       # the finally clause's COMMIT raises
        yield (3 * S, 0, ("insert_many", "b", tuple(ids[2:4]), 1))
        yield _fault(11 * S, "execute", 0, ("insert_many", "b", tuple(ids[:2]), 1))
        yield _fault(MS, "commit", 0, ("replace", "b", ids[0]))
        yield (9 * S, 0, ("delete", "b", ids[1]))
    add("fault-in-bulk-writes", True, h_bulk)

    def h_eager(r):
        yield _create("b")
        yield from _ins("b", 2)
        yield _fault(MS, "commit", 0, ("insert_one", "b"))
        yield (20 * S, 0, ("insert_one", "b"))
        yield _fault(MS, "commit", 0, ("insert_many", "b", (1,), 2))
        yield (MS, 0, ("delete", "b", 1))
    add("fault-eager", False, h_eager)

    def h_reopen(r):
        yield _create("b")
        yield from _ins("b", 3)
        yield (MS, 0, ("get_eventcount", "b"))
        yield (MS, 0, ("reopen", "flush", 0))
        yield _fault(12 * S, "commit", 0, ("insert_one", "b"))          # first write of the new instance: old, COMMIT raises
        yield (3 * S, 0, ("replace_last", "b"))
        yield (4 * S, 0, ("insert_one", "b"))
        yield (S, 0, ("reopen", "crash", 5 * S))
        yield (4 * S, 0, ("insert_one", "b"))
        yield _fault(7 * S, "commit", 0, ("insert_many", "b", (1, 2), 2))
        yield (9_900_000, 0, ("insert_one", "b"))
    add("fault-after-reopen", True, h_reopen)

    # every commit position of the age corpus
    pos = 0
    for name, lazy, h in base_histories():
        try:
            steps, info = scout(sq, Event, lazy, h)
        except Exception:
            continue
        for i, inf in enumerate(info):
            if inf is None or inf["raised"]:
                continue
            for j in range(inf["commits"]):
                starts = range(len(OFFSETS)) if not quick else [pos % len(OFFSETS)]
                for k in starts:
                    add(f"fault-at:{name}:step{i}:commit{j}:+{OFFSETS[k]}", lazy, derived(steps, info, i, "commit", j, k))
                pos += 1
            # statements that raise (quick: every third position)
            if inf["writes"] >= 2 or (inf["rows"] and inf["writes"] >= 1):
                for j in range(inf["writes"]):
                    if not quick or pos % 3 == 0:
                        add(f"fault-at:{name}:step{i}:statement{j}", lazy, derived(steps, info, i, "execute", j, pos % len(OFFSETS)))
                    pos += 1
            if inf["rows"]:
                for done in sorted({0, inf["rows"] // 2}):
                    if not quick or pos % 3 == 0:
                        add(f"fault-at:{name}:step{i}:row{done}", lazy, derived(steps, info, i, "executemany", done, pos % len(OFFSETS)))
                    pos += 1
    return out


def random_faults(rng, base):
    """wraps a history generator: the engine raises in about one call of twelve, most often a
    COMMIT; a write follows most faults within 1 s .. 10.000001 s"""
    def h(r):
        for dt, tick, spec in base(r):
            if spec[0] in (lib18.REOPEN, lib18.COMPANION) or rng.random() > 0.085:
                yield (dt, tick, spec)
                continue
            x = rng.random()
            times = 1
            if x < 0.7:
                kind, nth = "commit", rng.choice([0, 0, 0, 0, 1])
                times = rng.choice([1, 1, 1, 2, 3, 1000])
            elif x < 0.85:
                kind, nth = "execute", rng.choice([0, 1, 1, 2])
            else:
                kind, nth = "executemany", rng.choice([0, 1, 3])
            yield _fault(dt, kind, nth, spec, tick, times)
            have = r.bucket_ids()
            if have and rng.random() < 0.75:
                b = spec[1] if len(spec) > 1 and spec[1] in have else rng.choice(have)
                yield (rng.choice(OFFSETS + (MS, 3 * S)), 0,
                       rng.choice([("insert_one", b), ("replace_last", b), ("insert_many", b, (), 2), ("insert_one", b)]))
    return h


# ---------------------------------------------------------------------------
# the stream


def run_faults(ck, sq, Event, have_driver):
    import time
    from . import c06_gen as gen
    from . import c18_gen as gen18
    quick = ck.tier == "quick"
    t_begin = time.time()
    hist = [(n, lz, h) for n, lz, h in corpus(sq, Event, quick)]
    n_corpus = len(hist)
    for i in range(40 if quick else 1200):
        profile = ["trickle", "mixed", "trickle", "burst"][i % 4]
        if i % 3 == 2:
            base = gen18.random_session(ck.rng, ["reopen", "longidle"][i % 2])
        else:
            base = gen.random_history(ck.rng, profile)
        hist.append((f"random-faults-{i}", ck.rng.random() > 0.05, random_faults(ck.rng, base)))
    # storage layer: everything; Datastore / Bucket layer: the written-out histories, the random ones and, in the
    # quick tier, every third derived position (all of them in the thorough tier)
    runs = []
    for idx, (n, lz, h) in enumerate(hist):
        runs.append((n, lz, h, "storage"))
        if not quick or not n.startswith("fault-at:") or idx % 3 == 0:
            runs.append((n + "@api", lz, h, "api"))
    seen = ck.__dict__.setdefault("_reported_signatures", set())
    pending, wire = [], []
    budget = 300 if quick else 7200
    for name, lazy, h, layer in runs:
        if time.time() - t_begin > budget:
            ck.disagreement("harness", f"the fault histories take more than {budget} s of real time (stopped before {name})",
                            {"history": name})
            break
        try:
            s = run_fault_session(sq, Event, lazy, h, layer)
        except Exception as ex:
            ck.disagreement("harness", f"fault history {name} ({layer} layer) could not be run: {type(ex).__name__}: {ex}",
                            {"history": name, "layer": layer})
            continue
        s.name = name
        for sig, desc in session_violations(s):
            key = (sig, layer, "faults")
            if key in seen:
                ck.count("further-failing-histories:" + sig)
                continue
            seen.add(key)
            steps = shrink_fault_session(sq, Event, lazy, s.steps, sig, layer)
            ss = run_fault_session(sq, Event, lazy, steps, layer)
            vv = [d for g, d in session_violations(ss) if g == sig]
            ck.failing_input(sig, f"{name}: {vv[0] if vv else desc}", replay_obj(ss, {"found_in": name}))
        fired = 0
        for r in s.segments:
            r.name = f"{name}[instance {r.index}]"
            case, after = wire_fault_trace(lazy, r.t0, r.rec)
            i_trace = len(wire)
            wire.append(case)
            i_scripts = []
            for ci, c in enumerate(r.rec.calls):
                kind, w = model_case_f(r.rec, ci, c)
                i_scripts.append((kind, len(wire)))
                wire.append(w)
                fl = c.get("fault")
                if fl:
                    ck.count("fault-armed:" + fl["kind"])
                    if fl["fired"]:
                        fired += 1
                        ck.count(f"fault-fired:{layer}:" + fl["kind"])
                        ck.count("fault-fired-in:" + c["spec"][0])
                        if c["outcome"] is None:
                            ck.count("fault-fired-and-the-call-returned-normally")
            pending.append((s, r, i_trace, after, i_scripts))
            ck.count("fault-stream:store-instances")
            ck.count("fault-stream:micro-steps", len(r.rec.micro))
            ck.count("fault-stream:crash-points-observed", len(r.rec.obs))
            for fi in r.rec.finfo.values():
                if fi["raised"]:
                    ck.count("fault-stream:commit-steps-that-raised")
        ck.count("fault-stream:histories")
        ck.count("fault-stream:histories:" + layer)
        if fired:
            ck.count("fault-stream:histories-in-which-the-engine-raised")
        ck.evaluations += 1
    ck.coverage["fault_stream"] = {"written_out_and_derived_histories": n_corpus, "runs": len(runs),
                                   "seconds": round(time.time() - t_begin, 1)}
    if have_driver and pending:
        out = common.run_driver("C18", wire)
        for s, r, i_trace, after, i_scripts in pending:
            if out[i_trace] == [-999] or any(out[i] == [-999] for _, i in i_scripts):
                ck.disagreement("commit-fault-model", f"{r.name}: the driver could not decode the case", replay_obj(s))
                continue
            bad = compare_fault_model(r, out[i_trace], after, [(k, out[i]) for k, i in i_scripts])
            if r.t0_store != r.t0:
                bad.insert(0, f"after opening: last_commit model {r.t0} implementation {r.t0_store}")
            for b in bad[:3]:
                ck.disagreement("commit-fault-model", f"{r.name} ({s.layer} layer): {b}",
                                replay_obj(s, {"disagreement": b, "instance": r.index}))
        # one case per history (the sessions differ in their steps)
        done = set()
        for s, r, *_ in pending:
            if id(s) in done:
                continue
            done.add(id(s))
            raised = sum(1 for rr in s.segments for fi in rr.rec.finfo.values() if fi["raised"])
            ck.note_case([s.lazy, s.layer, "faults", [(dt, tick, json.dumps(sp)) for dt, tick, sp in s.steps]],
                         nontrivial=raised > 0)
    for layer in lib18.LAYERS:
        try:
            v, info = real_lock_run(sq, Event, layer)
        except Exception as ex:
            ck.disagreement("harness", f"real-lock run ({layer} layer) could not be run: {type(ex).__name__}: {ex}", {"layer": layer})
            continue
        ck.evaluations += 1
        ck.count("real-lock-runs")
        ck.coverage.setdefault("real_lock_run", {})[layer] = info
        for sig, desc in v[:1]:
            case = {"real_lock": {"layer": layer}}
            ck.failing_input(sig, desc, {"real_lock": {"layer": layer},
                                         "rerun": lib18.REPLAY_CMD % (common.REPO, common.VERIF, json.dumps(case))})


# ---------------------------------------------------------------------------
# a real lock: the store's COMMIT raises by itself


def real_lock_run(sq, Event, layer):
    """Fake clock, real engine fault.  The file is switched to rollback-journal mode right after
    opening (the mode a store has where WAL is not available); a second connection sits inside a
    read transaction, so the store's COMMIT cannot get the exclusive lock and raises
    sqlite3.OperationalError('database is locked') after busy_timeout = 20 ms, leaving the
    transaction open.  -> (violations, info)"""
    from aw_datastore import Datastore
    d = lib.scratch_dir()
    clock = lib.Clock()
    real = lib.install_fake_datetime(sq, clock)
    out, info = [], {}
    try:
        path = os.path.join(d, "lock.db")
        if layer == "api":
            ds = Datastore(sq.SqliteStorage, testing=True, filepath=path, enable_lazy_commit=True)
            st = ds.storage_strategy
            create = lambda: ds.create_bucket("b", "t", "c", "h", created=lib.T0)
            ins = lambda n: ds["b"].insert(lib._ev(Event, n))
            rep = lambda n: ds["b"].replace_last(lib._ev(Event, n))
            flush = lambda: ds["b"].get_eventcount()
        else:
            st = sq.SqliteStorage(testing=True, filepath=path, enable_lazy_commit=True)
            create = lambda: st.create_bucket("b", "t", "c", "h", lib.T0.isoformat(), None, None)
            ins = lambda n: st.insert_one("b", lib._ev(Event, n))
            rep = lambda n: st.replace_last("b", lib._ev(Event, n))
            flush = lambda: st.get_eventcount("b")
        mode = st.conn.execute("PRAGMA journal_mode=DELETE").fetchall()
        st.conn.execute("PRAGMA busy_timeout = 20")
        info["journal_mode"] = mode[0][0] if mode else None
        create()
        ins(1)
        flush()                                              # the last flush that happens: T
        reader = sqlite3.connect(path, timeout=0.02, isolation_level=None)

        def labels_durable():
            """labels a crash now would keep"""
            c = sqlite3.connect(path, timeout=0.02, isolation_level=None)
            try:
                return {json.loads(r[0])["n"] for r in c.execute("SELECT datastr FROM events")}
            finally:
                c.close()

        for round_, (gap, second) in enumerate(((3 * S, ins), (9_900_000, rep), (S, ins))):
            clock.now += 1 * S
            ins(10 * round_ + 2)                             # young
            reader.execute("BEGIN")
            reader.execute("SELECT count(*) FROM events").fetchall()     # a shared lock, held
            clock.now += 11 * S                              # 12 s after the last flush
            raised = None
            try:
                ins(10 * round_ + 3)
            except sqlite3.OperationalError as ex:
                raised = str(ex)
            reader.execute("COMMIT")                         # the lock goes away
            info.setdefault("commit_raised", []).append(raised)
            if raised is None:
                continue                                     # the engine did not raise: nothing to judge
            clock.now += gap
            second(10 * round_ + 4)                          # returns normally, > 10 s after the last flush that happened
            try:
                got = labels_durable()
            except sqlite3.OperationalError:
                # the store still holds its lock: its transaction is open, a crash loses all of it
                st.conn.close()
                got = labels_durable()
                info["store_closed_to_observe"] = True
            want = {10 * round_ + 2, 10 * round_ + 3} if second is rep else {10 * round_ + 2, 10 * round_ + 3, 10 * round_ + 4}
            if second is rep:
                want = {10 * round_ + 2, 10 * round_ + 4}    # replace_last rewrote the newest row
            missing = sorted(want - got)
            if missing:
                out.append((SIG_OLD, f"{layer} layer, real lock (a reader's shared lock made the store's COMMIT raise 'database is "
                                     f"locked' 12 s after the last flush): the next event write, {gap / S:.6f} s later, returned "
                                     f"normally and the rows labelled {missing} are not durable"))
                break
            flush()
        try:
            reader.close()
            st.conn.close()
        except Exception:
            pass
    finally:
        sq.datetime = real
        shutil.rmtree(d, ignore_errors=True)
    return out, info
