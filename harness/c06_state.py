"""C06, state-level stream: the commit model composed with the store model
(coq/Model/CrashStore.v, theorems in coq/Props/C06State.v) against the real SqliteStorage.

The histories of the C06 check are run again on a fresh file-backed store under the fake
clock with the recorder of harness/c06_lib.py; here every observation (before every write
statement, after every commit()/conditional_commit(), after every call = every crash point
between two micro-steps) keeps the second connection's FULL table dump - buckets rows,
events rows (id, bucketrow, starttime, endtime, datastr), sqlite_sequence - and that dump
must equal the extracted model's [durable] tables after the same number of micro-steps.
The model is given the calls with their arguments and, per call, the clock readings the
implementation made at each of its micro-steps; it derives the script of every call from
its own [live] tables (so a call that the engine rejects is rejected by the model or the
step counts differ).  Also compared: num_uncommitted_statements and last_commit at every
observation, whether the call raised (and the exception class), and at the end of the
history the store's own connection's dump against the model's [live] tables."""
import json
import sqlite3
from datetime import timedelta, timezone, datetime

from . import common
from .common import sx, opt
from . import c06_lib as lib

EPOCH = datetime(1970, 1, 1, tzinfo=timezone.utc)
T0_US = (lib.T0 - EPOCH) // lib.US
STR_LABEL = {"": 0, "t": 1, "c": 2, "h": 3, lib.T0.isoformat(): 4}
ERR_NAME = {5: "ValueError", 9: "IntegrityError", 10: "OverflowError"}


# ---------------------------------------------------------------------------
# labels (model cells are integers)


class Names:
    def __init__(self):
        self.ids = {}

    def bucket(self, s):
        return self.ids.setdefault(s, len(self.ids) + 1)


def data_label(datastr):
    d = json.loads(datastr)
    if d == {}:
        return 0
    if list(d) == ["n"]:
        return d["n"]
    if list(d) == ["v"]:
        return 10_000_000 + d["v"]
    raise ValueError("unexpected datastr " + datastr)


def full_dump(conn, names):
    """The three tables as the model prints them (Model/CrashStoreDriver.v, tables_s)."""
    bk = [[r[0], names.bucket(r[1]),
           [STR_LABEL[r[3]], STR_LABEL[r[4]], STR_LABEL[r[5]], STR_LABEL[r[6]],
            opt(None if r[2] is None else STR_LABEL[r[2]]), data_label(r[7])]]
          for r in conn.execute("SELECT rowid, id, name, type, client, hostname, created, datastr "
                                "FROM buckets ORDER BY rowid")]
    ev = [[r[0], r[1], r[2], r[3], data_label(r[4])]
          for r in conn.execute("SELECT id, bucketrow, starttime, endtime, datastr FROM events ORDER BY id")]
    seq = dict(conn.execute("SELECT name, seq FROM sqlite_sequence").fetchall())
    return [bk, ev, seq.get("buckets", 0), seq.get("events", 0)]


# ---------------------------------------------------------------------------
# the recorder, keeping full dumps


class StateRecorder(lib.Recorder):
    names = None

    def __init__(self, *a):
        super().__init__(*a)
        # the shadow database is kept (the history generators ask it which ids exist) but its
        # per-statement digests are the business of the main stream, not of this one
        self.shadow.dumper = lambda db: 0

    def observe(self, kind):
        dv = self.c2.execute("PRAGMA data_version").fetchone()[0]
        if dv != getattr(self, "_dv", None):       # some commit became visible since the last dump
            self._full = full_dump(self.c2, self.names)
            self._dv = dv
            self.n_dumps = getattr(self, "n_dumps", 0) + 1
        self.obs.append({"i": len(self.micro), "kind": kind, "full": self._full,
                         "n": self.st.num_uncommitted_statements, "last": lib.fake_us(self.st.last_commit),
                         "issued": len(self.issue_time), "call": len(self.calls), "t": self.clock.now})

    def close(self):
        self.st.conn.set_trace_callback(None)
        self.own_full = full_dump(self.st.conn, self.names)
        return super().close()


class StateRunner(lib.Runner):
    def __init__(self, sq, Event, lazy=True):
        names = Names()

        class Rec(StateRecorder):
            pass
        Rec.names = names
        orig = lib.Recorder
        lib.Recorder = Rec                       # Runner.__init__ builds lib.Recorder(...)
        try:
            super().__init__(sq, Event, lazy)
        finally:
            lib.Recorder = orig
        self.names = names
        self.counter_at = []

    def call(self, dt, tick, spec):
        self.counter_at.append(self.counter)
        return super().call(dt, tick, spec)


def run_history(sq, Event, lazy, history):
    r = StateRunner(sq, Event, lazy)
    r.steps = []
    try:
        for dt, tick, spec in (history(r) if callable(history) else history):
            spec = tuple(tuple(x) if isinstance(x, list) else x for x in spec)
            r.steps.append([dt, tick, list(spec)])
            r.call(dt, tick, spec)
    finally:
        r.own_ok = r.finish()
    return r


# ---------------------------------------------------------------------------
# the model's calls


def ev_wire(i, eid=None):
    """harness/c06_lib.py _ev(Event, i, eid) as the model's event (id? ts dur data)"""
    return [opt(eid), T0_US + (i % 100000) * lib.S, lib.S, i]


def model_call(names, spec, counter):
    """-> wire cop of Model/CrashStoreDriver.v; `counter` = Runner.counter before the call"""
    name = spec[0]
    b = names.bucket(spec[1]) if len(spec) > 1 else 0
    nxt = counter + 1
    if name == "create_bucket":
        return [0, [0, b, [1, 2, 3, 4, [], 0]]]
    if name == "update_bucket":
        da = [] if spec[2] is None else [10_000_000 + spec[2]]
        return [0, [1, b, [], [], [], [], da]]
    if name == "delete_bucket":
        return [0, [2, b]]
    if name == "insert_one":
        return [0, [5, b, ev_wire(nxt)]]
    if name in ("insert_many", "insert_many_bad"):
        evs = [ev_wire(nxt + k, eid=i) for k, i in enumerate(spec[2])]
        evs += [ev_wire(nxt + len(spec[2]) + k) for k in range(spec[3])]
        if name == "insert_many":
            return [0, [6, b, evs]]
        return [1, b, evs, spec[3]]              # the row after the spec[3] good ones overflows
    if name == "insert_many_badup":              # the id-carrying event number spec[3] overflows: the model's call lists the others
        evs = [ev_wire(nxt + j, eid=i) for j, i in enumerate(spec[2]) if j != spec[3]]
        evs += [ev_wire(nxt + len(spec[2]) + j) for j in range(spec[4])]
        return [2, b, evs, spec[3]]
    if name == "replace":
        return [0, [7, b, spec[2], ev_wire(nxt)]]
    if name == "replace_last":
        return [0, [8, b, ev_wire(nxt)]]
    if name == "delete":
        return [0, [9, b, spec[2]]]
    if name == "get_event":
        return [0, [10, b, spec[2]]]
    if name == "get_events":
        return [0, [11, b, spec[2], [], []]]
    if name == "get_eventcount":
        return [0, [12, b, [], []]]
    if name == "buckets":
        return [0, [3]]
    if name == "get_metadata":
        return [0, [4, b]]
    raise RuntimeError(name)


def wire_case(r):
    calls = []
    for c, counter in zip(r.rec.calls, r.counter_at):
        clks = [list(k) for _, _, k in r.rec.micro[c["first_micro"]:c["end_micro"]]]
        calls.append([model_call(r.names, c["spec"], counter), clks])
    return sx([r.lazy, r.t0, calls])


# ---------------------------------------------------------------------------
# comparison


def describe_tables(model, impl):
    for name, a, b in (("buckets", model[0], impl[0]), ("events", model[1], impl[1])):
        if a != b:
            if len(a) != len(b):
                return f"{name}: model has {len(a)} rows, the second connection reads {len(b)}"
            k = next(i for i, (x, y) in enumerate(zip(a, b)) if x != y)
            return f"{name} row {k}: model {a[k]}, second connection {b[k]}"
    return f"sqlite_sequence: model {model[2:]}, second connection {impl[2:]}"


def compare(r, out):
    """-> list of disagreement descriptions (model vs implementation)"""
    rec = r.rec
    bad = []
    answers, live_fin = out
    if rec.anomalies:
        bad.append("recorder anomalies: " + "; ".join(rec.anomalies[:3]))
    # one entry per global micro-step: (n, last, durable tables)
    states = [(0, r.t0, [[], [], 0, 0])]
    for ci, (c, a) in enumerate(zip(rec.calls, answers)):
        got = lib.shape_of_observed(rec.micro[c["first_micro"]:c["end_micro"]])
        want = [["E", None, "R", "C"][m[0]] if m[0] != 4 else f"K{m[1]}" for m in a[1]]
        if a[0] == 0:
            bad.append(f"call #{ci} {c['spec']}: model script {want}, implementation {got}")
            return bad
        if want != got:
            bad.append(f"call #{ci} {c['spec']}: model script {want}, implementation {got}")
        for n, last, d in a[2]:
            states.append((n, last, d[0] if d else states[-1][2]))
        res = a[3]
        raised = c["outcome"]
        if res[0] == 0 and raised is not None:
            bad.append(f"call #{ci} {c['spec']}: raised {raised}, the model's call returns")
        elif res[0] == 1 and raised != ERR_NAME.get(res[1]):
            bad.append(f"call #{ci} {c['spec']}: outcome {raised}, the model's call raises {ERR_NAME.get(res[1], res[1])}")
    if len(answers) != len(rec.calls):
        bad.append(f"model answered {len(answers)} calls of {len(rec.calls)}")
        return bad
    last_ok = (None, None)
    for o in rec.obs:
        if o["i"] >= len(states):
            bad.append(f"{o['kind']} after {o['i']} micro-steps: beyond the model's run")
            break
        n, last, dur = states[o["i"]]
        where = f"{o['kind']} after {o['i']} micro-steps (call #{o['call']})"
        if (id(dur), id(o["full"])) != last_ok:
            if dur != o["full"]:
                bad.append(f"{where}: a reopen would not find the model's durable tables - " + describe_tables(dur, o["full"]))
            else:
                last_ok = (id(dur), id(o["full"]))
        if n != o["n"]:
            bad.append(f"{where}: num_uncommitted_statements model {n} implementation {o['n']}")
        if last != o["last"]:
            bad.append(f"{where}: last_commit model {last} implementation {o['last']}")
        if len(bad) > 6:
            break
    if live_fin != rec.own_full:
        bad.append("end of history: the store's own connection does not read the model's live tables - "
                   + describe_tables(live_fin, rec.own_full))
    return bad


# ---------------------------------------------------------------------------
# entry point (called from harness/c06.py)


def run(ck, sq, Event, histories, replay_obj, quick):
    """histories: (name, lazy, concrete steps) - what the main stream of the C06 check
    executed (its random histories are generators drawing from ck.rng; here they are re-run
    from the concrete steps, so both streams see the same calls)."""
    # the model and its theorems first (so that the stream runs even when a bridge below is broken)
    common.coq_make(["Props/C06State.vo", "Model/CrashStoreDriver.vo"], ck.log)
    ck.prove(props_file="Props/C06State.v",
             extra_targets=["Bridge/BridgeCrashStore.v", "Bridge/BridgeCrashStoreLive.v", "Model/CrashStoreDriver.v"],
             gen_kernels=["SqliteStorage"])        # translate/k_sqlstore.py: statements and parameters of every method
    ok2, out = common.build_driver("C06State", ck.log, "ExC06State")
    if not ok2:
        ck.broken.append("state model no longer extracts/compiles: " + out[-300:])
        return
    # an insert_many whose upsert loop raises (insert_many_badup) is Model/CrashStore.v's UpsertOverflow
    ck.count("state:histories-with-a-failing-upsert", sum(1 for h in histories if any(st[2][0] == "insert_many_badup" for st in h[2])))
    limit = len(histories) if quick else 170 + 400       # thorough: the corpus and the first 400 random histories
    if len(histories) > limit:
        ck.count("state:histories-not-replayed-in-this-stream", len(histories) - limit)
        histories = histories[:limit]
    BATCH = 40                                           # bounds the size of the driver's answer held in memory
    for at in range(0, len(histories), BATCH):
        runs, wire = [], []
        for name, lazy, h in histories[at:at + BATCH]:
            try:
                r = run_history(sq, Event, lazy, h)
            except Exception as ex:
                ck.disagreement("state-model", f"history {name} could not be run: {type(ex).__name__}: {ex}", {"history": name})
                continue
            r.name = name
            runs.append(r)
            wire.append(wire_case(r))
            ck.count("state:histories")
            ck.count("state:crash-points-compared", len(r.rec.obs))
            ck.count("state:distinct-durable-dumps", getattr(r.rec, "n_dumps", 0))
            ck.count("state:calls-that-raised", sum(1 for c in r.rec.calls if c["outcome"]))
        if not runs:
            continue
        outs = common.run_driver("C06State", wire)
        for r, o in zip(runs, outs):
            ck.evaluations += 1
            if o == [-999] or o == [-998]:
                ck.disagreement("state-model", f"{r.name}: the driver could not decode the case", replay_obj(r))
                continue
            bad = compare(r, o)
            if bad:
                ck.count("state:histories-disagreeing")
                if ck.dist["state:histories-disagreeing"] <= 4:      # leave room for the other streams' reports
                    ck.disagreement("state-model", f"{r.name}: {bad[0]}", replay_obj(r, {
                        "disagreements": bad[:3],
                        "rerun_state": f"PYTHONPATH={common.REPO}:{common.VERIF} /venv/bin/python -m harness.c06_state "
                                       f"'{json.dumps({'lazy': r.lazy, 'steps': r.steps})}'"}))
    ck.assumptions.append(
        "state stream (Model/CrashStore.v): every crash point observed (before every write statement, after every "
        "commit step, after every call) of " +
        ("the histories of this run" if quick else "the corpus and the first 400 random histories of this run") +
        " is compared as a FULL table dump of a second connection (buckets rows, events rows, sqlite_sequence) with "
        "the [durable] tables of the extracted model after the same number of micro-steps; bucket ids, strings and "
        "datastr cells are compared through labels (datastr {\"n\": i} = i); no sampling of crash points")


# ---------------------------------------------------------------------------
# real crashes (thorough tier): SIGKILL / exit without shutdown of a child process, then a
# reopen; the reopened tables must be the model's tables after some prefix of the statements,
# within the bounds of the property


def do_call(st, Event, spec, counter):
    """One call with the arguments harness/c06_lib.py Runner.call would build (same events)."""
    name = spec[0]
    nxt = counter + 1
    if name == "create_bucket":
        st.create_bucket(spec[1], "t", "c", "h", lib.T0.isoformat(), None, None)
    elif name == "update_bucket":
        st.update_bucket(spec[1], data={"v": spec[2]})
    elif name == "delete_bucket":
        st.delete_bucket(spec[1])
    elif name == "insert_one":
        return st.insert_one(spec[1], lib._ev(Event, nxt)).id
    elif name == "insert_many":
        evs = [lib._ev(Event, nxt + k, eid=i) for k, i in enumerate(spec[2])]
        evs += [lib._ev(Event, nxt + len(spec[2]) + k) for k in range(spec[3])]
        st.insert_many(spec[1], evs)
    elif name == "replace":
        st.replace(spec[1], spec[2], lib._ev(Event, nxt))
    elif name == "replace_last":
        st.replace_last(spec[1], lib._ev(Event, nxt))
    elif name == "delete":
        st.delete(spec[1], spec[2])
    elif name == "get_eventcount":
        st.get_eventcount(spec[1])
    else:
        raise RuntimeError(name)


def events_used(spec):
    name = spec[0]
    if name in ("insert_one", "replace", "replace_last"):
        return 1
    if name == "insert_many":
        return len(spec[2]) + spec[3]
    return 0


def child(d, seed):
    """Drives a lazily-committing file-backed SqliteStorage with the real clock; logs every call
    (before it runs), every write statement (before it runs) and every return."""
    import os
    import random
    import sys
    import time
    common.setup_impl_env()
    from aw_core.models import Event
    from aw_datastore.storages import SqliteStorage
    log = os.open(os.path.join(d, "log"), os.O_WRONLY | os.O_CREAT | os.O_APPEND)

    def out(*rec):
        os.write(log, (json.dumps(rec) + "\n").encode())

    def cb(sql):
        if sql.lstrip().split(None, 1)[0].upper() in lib.WRITE_KW:
            out("S")
    st = SqliteStorage(testing=True, filepath=os.path.join(d, "k.db"))
    st.conn.set_trace_callback(cb)
    rng = random.Random(seed)
    counter = 0
    ids, extra = [], 0
    first = True
    stop = os.path.join(d, "stop")
    while True:
        if os.path.exists(stop):
            sys.exit(0)                 # exit without shutdown
        x = rng.random()
        if first:
            specs = [("create_bucket", "a")]
        elif x < 0.55:
            specs = [("insert_one", "a")]
        elif x < 0.68 and ids:
            specs = [("delete", "a", ids.pop(rng.randrange(len(ids))))]
        elif x < 0.83 and ids:
            specs = [("replace", "a", rng.choice(ids))]
        elif x < 0.86 and ids:
            specs = [("replace_last", "a")]
        elif x < 0.92:
            ups = tuple(rng.sample(ids, min(len(ids), rng.choice([0, 1, 2]))))
            specs = [("insert_many", "a", ups, rng.choice([1, 5, 20, 60]))]
        elif x < 0.94:
            specs = [("update_bucket", "a", counter)]
        elif x < 0.96:
            extra += 1
            specs = [("create_bucket", f"x{extra}"), ("insert_many", f"x{extra}", (), 3)]
        elif x < 0.98 and extra:
            specs = [("delete_bucket", f"x{extra}")]
            extra -= 1
        elif x < 0.99:
            specs = [("get_eventcount", "a")]
        else:
            time.sleep(0.002)
            continue
        for spec in specs:
            out("C", spec, counter)
            ok = True
            try:
                r = do_call(st, Event, spec, counter)
            except Exception:
                ok = False
            if spec[0] == "insert_one" and ok:
                ids.append(r)
            counter += events_used(spec)
            out("R", ok)
            if first:
                out("READY")
                first = False
        time.sleep(0.001)               # paces the run: the model's replace_last is quadratic in the table size


ATOMIC_CALLS = lib.BUCKET_CALLS + lib.SINGLE_EVENT_CALLS


def kill_run(seed, delay):
    """-> dict(violations=[(signature, description)], disagreements=[...], statements, lost)"""
    import os
    import shutil
    import signal
    import subprocess
    import sys
    import time
    d = lib.scratch_dir()
    res = {"violations": [], "disagreements": [], "statements": 0, "lost": 0, "delay": delay}
    try:
        p = subprocess.Popen([sys.executable, "-m", "harness.c06_state", "child", d, str(seed)],
                             cwd=common.VERIF, env=dict(os.environ), stdout=subprocess.DEVNULL, stderr=subprocess.PIPE)
        logp = os.path.join(d, "log")
        t0 = time.time()
        while time.time() - t0 < 60:
            if os.path.exists(logp) and b'"READY"' in open(logp, "rb").read():
                break
            if p.poll() is not None:
                break
            time.sleep(0.01)
        if p.poll() is not None:
            res["disagreements"].append("child exited early: " + p.stderr.read().decode()[-300:])
            return res
        time.sleep(abs(delay))
        if delay < 0:
            open(os.path.join(d, "stop"), "w").close()
            try:
                p.wait(timeout=60)
            except subprocess.TimeoutExpired:
                os.kill(p.pid, signal.SIGKILL)
                p.wait()
        else:
            os.kill(p.pid, signal.SIGKILL)
            p.wait()
        recs = []
        for ln in open(logp, "rb").read().split(b"\n"):
            try:
                recs.append(json.loads(ln))
            except ValueError:
                pass                      # the line being written when the child died
        # calls: [spec, counter, statements logged, returned?]
        calls = []
        for r in recs:
            if r[0] == "C":
                calls.append([tuple(tuple(x) if isinstance(x, list) else x for x in r[1]), r[2], 0, None])
            elif r[0] == "S":
                calls[-1][2] += 1
            elif r[0] == "R":
                calls[-1][3] = r[1]
        logged = sum(c[2] for c in calls)
        res["statements"] = logged
        names = Names()
        cops = [model_call(names, c[0], c[1]) for c in calls]
        conn = sqlite3.connect(os.path.join(d, "k.db"), isolation_level=None)
        got = full_dump(conn, names)
        conn.close()
        skip = max(0, logged - 700)     # the durable prefix cannot end further back than 50 + one call
        sizes, digests = common.run_driver("C06State", [sx([2, cops, skip])])[0]
        for ci, (c, n) in enumerate(zip(calls, sizes)):
            if c[3] is not None and c[2] != n:
                res["disagreements"].append(f"call #{ci} {c[0]}: {c[2]} write statements logged, the model's script has {n}")
                return res
        mine = [len(got[0]), len(got[1]), got[2], got[3], sum(e[4] for e in got[1]) % 1000000007, sum(e[2] for e in got[1]) % 1000000007]
        cand = [skip + k for k, dg in enumerate(digests) if dg == mine and skip + k <= logged]
        tables = common.run_driver("C06State", [sx([3, cops, cand])])[0] if cand else []
        J = [j for j, t in zip(cand, tables) if t == got]
        if not J:
            res["disagreements"].append(f"after the crash the reopened tables are not the model's tables after any prefix of the "
                                        f"{logged} statements logged (candidates by digest: {cand[:8]})")
            return res
        # the bounds of the property, on the best matching prefix
        done = 0                # statements of completed calls
        must = 0                # statements up to the last returned bucket operation
        at = 0
        ranges = []
        for c in calls:
            a, at = at, at + c[2]
            if c[3] is not None:
                done = at
                if c[0][0] in lib.BUCKET_CALLS and c[3]:
                    must = at
            if c[0][0] in ATOMIC_CALLS and c[2] >= 2:
                ranges.append((a, a + c[2], c[0]))

        def fine(j):
            return done - j <= lib.THRESHOLD and j >= must and all(j <= a or j >= b for a, b, _ in ranges)
        good = [j for j in J if fine(j)]
        j = max(good or J)
        res["lost"] = max(0, done - j)
        if not good:
            if done - j > lib.THRESHOLD:
                res["violations"].append(("C06:unbounded-loss", f"after the crash the reopened tables are those after {j} of the "
                                          f"{done} statements of completed calls ({done - j} > 50 lost)"))
            if j < must:
                res["violations"].append(("C06:bucket-op-not-durable", f"after the crash only {j} of the {must} statements up to "
                                          f"the last returned bucket operation are in the reopened tables"))
            for a, b, spec in ranges:
                if a < j < b:
                    res["violations"].append(("C06:operation-split", f"after the crash the reopened tables end inside {spec} "
                                              f"(statements {a}..{b - 1}, {j} applied)"))
        return res
    finally:
        shutil.rmtree(d, ignore_errors=True)


def run_sigkill(ck, n_runs, seed):
    """thorough tier: n_runs real crashes of a child process against the state model"""
    for i in range(n_runs):
        delay = ck.rng.uniform(0.15, 1.0) * (-1 if i % 5 == 4 else 1)   # every fifth: plain exit, no shutdown
        res = kill_run(seed * 1000 + i, delay)
        ck.evaluations += 1
        ck.count("state:sigkill" if delay > 0 else "state:exit-without-shutdown")
        ck.count("state:sigkill:statements-logged", res["statements"])
        ck.count("state:sigkill:lost-statements", res["lost"])
        rerun = (f"PYTHONPATH={common.REPO}:{common.VERIF} /venv/bin/python -m harness.c06_state kill "
                 f"{seed * 1000 + i} {res['delay']}")
        for sig, desc in res["violations"]:
            ck.failing_input(sig, "state stream, real crash: " + desc, {"seed": seed * 1000 + i, "kill_after_s": res["delay"], "rerun": rerun})
        for dsc in res["disagreements"][:1]:
            ck.disagreement("state-model:sigkill", dsc, {"seed": seed * 1000 + i, "kill_after_s": res["delay"], "rerun": rerun})


def main():
    """Replay one concrete history against the state model:
    python -m harness.c06_state '{"lazy": true, "steps": [[dt_us, tick_us, [call, args...]], ...]}'
    (needs build/C06State/driver, i.e. a previous ./run.sh quick C06 or ./setup.sh)"""
    import sys
    if sys.argv[1] == "child":
        return child(sys.argv[2], int(sys.argv[3]))
    if sys.argv[1] == "kill":
        res = kill_run(int(sys.argv[2]), float(sys.argv[3]))
        print(json.dumps(res, indent=1))
        return 1 if res["violations"] or res["disagreements"] else 0
    arg = sys.argv[1]
    case = json.load(open(arg)) if not arg.lstrip().startswith("{") else json.loads(arg)
    while "history" in case or "replay" in case:
        case = case.get("history") or case["replay"]
    common.setup_impl_env()
    import aw_datastore.storages.sqlite as sq
    from aw_core.models import Event
    r = run_history(sq, Event, case["lazy"], case["steps"])
    out = common.run_driver("C06State", [wire_case(r)])[0]
    bad = ["the driver could not decode the case"] if out in ([-999], [-998]) else compare(r, out)
    print(f"{len(r.steps)} calls, {len(r.rec.micro)} micro-steps, {len(r.rec.obs)} crash points compared with the model's durable tables")
    for b in bad:
        print("DIFFERS", b)
    if not bad:
        print("state model: agrees at every crash point")
    return 1 if bad else 0


if __name__ == "__main__":
    import sys
    sys.exit(main())
