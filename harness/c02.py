"""C02 — every back end behaves like one per-bucket event list under any history.
Correspondence of Model/{Mem,Sqlite,Peewee}Store.v with the real storages on generated
histories (full dump after every op, exact ids), and the property statement evaluated on the
implementation: an independent reference list model, 'replace_last rewrote exactly the event
the preceding limit-1 read returned', 'ids never name two live events', and the three back
ends fed the same history hold the same contents."""
import os
import sys
import tempfile

from . import common
from . import store_hist as sh
from . import tieb_stores
from .common import Check

RULE = ("deterministic boundary corpus (every tie pattern of start/end instants of two events on a 0..2 s "
        "grid, second bucket holding the same instants, limit-1 read + replace_last, delete-newest + insert, "
        "bulk upsert, bucket delete + re-create; bulk calls with lists of 0, 1, 2, 3 elements in every mix of "
        "upserts and plain inserts; every read before and after every kind of write, twice in a row; the caller changing "
        "in place - data dict, timestamp, duration, id - the object it passed to each kind of write / got from each kind "
        "of read), each on BOTH layers (calls on the storage object; calls through the public "
        "Datastore / Bucket API), then seeded random well-formed histories of 1-40 ops over 1-3 "
        "buckets with timestamps from a pool of 4-6 values, alternating between the two layers, the event handed "
        "to replace / replace_last carrying a live id of its own in half of the calls, a quarter of the writes followed "
        "straight by a read of that bucket (count / by id / limit 1 / metadata), one history in five passing "
        "Event objects a second time and changing held objects in place between calls; every history is run on memory, sqlite (temp file) "
        "and peewee (temp file); non-trivial = a run in which a replace/replace_last/delete/upsert succeeded on "
        "a bucket holding two or more events.  Round 5: data labels >= 100 = concrete edge values (text with a lone high / lone low "
        "surrogate, astral, NUL, U+2028 as values and keys; dict / list / str / int subclasses as containers and scalars at every depth) "
        "as bucket data and event data through every kind of write (deterministic corpus per value, 15 % of the random events), the caller "
        "changing held data in place at every depth; one bulk insert of 230 events; histories with an UNREAD tail (acknowledged single "
        "inserts, bulk inserts, replaces, calls that are rejected / fail inside the engine and that the caller survives, one dump at the end) "
        "judged by a reference list with ids")


# ---------------------------------------------------------------------------
# the property statement as a predicate on one step of the implementation
# (views: [] | [[meta, [[ [id], ts, dur, data ] ...]]], events sorted by id)


def contents(view):
    return None if view == [] else {w[0][0]: tuple(w[1:]) for w in view[0][1]}


def meta_of(view):
    return None if view == [] else view[0][0]


def precondition(op, before):
    """The quantifier's side condition, decided on the reference state (= dump before the op)."""
    code = op[0]
    if code == 3:
        return True
    c = before.get(op[1])
    if code == 0:
        return c is None
    if c is None:
        return False
    if code == 1:
        vals = [sh.unopt(v) for v in op[2:7]]
        return any(v is not None for v in vals) and all(v != 0 for v in vals if v is not None)
    if code == 5:
        return op[2][0] == []
    if code == 6:
        return all(e[0] == [] or e[0][0] in c for e in op[2])
    if code == 7:
        return op[2] in c
    if code == 8:
        return len(c) > 0
    if code in (11, 12):
        return op[-1] == [] and op[-2] == []
    return True


def step_oracle(op, res, before_views, after_views, univ, prev):
    """None when the step is what the reference list model allows, else a description.
    prev = (previous op, its result) for the limit-1 clause."""
    code = op[0]
    for b, v in zip(univ, after_views):
        if v != [] and len({w[0][0] for w in v[0][1]}) != len(v[0][1]):
            return f"an id names two live events of bucket {b}: {v[0][1]}"
    before = {b: contents(v) for b, v in zip(univ, before_views)}
    after = {b: contents(v) for b, v in zip(univ, after_views)}
    mb = {b: meta_of(v) for b, v in zip(univ, before_views)}
    ma = {b: meta_of(v) for b, v in zip(univ, after_views)}
    if code == 13:
        # the caller changed an Event object of its own (one it passed to / got from the store): that is no
        # operation of the history, the reference list model does not move
        for b in univ:
            if before[b] != after[b] or mb[b] != ma[b]:
                return (f"no operation was issued, the caller only changed .{sh.TOUCH_FIELDS[op[1]]} of an Event object it "
                        f"had passed to / got from the store, and bucket {b} changed: {before[b]} -> {after[b]}")
        return None
    if not precondition(op, before):
        return "skip"
    if res[0] != 0:
        return f"a well-formed {sh.OPNAME[code]} was rejected with {sh.ERRNAME.get(res[1], res[1])}"
    out = res[1]
    if code != 3:
        b = op[1]
        for bb in univ:
            if bb != b and (before[bb] != after[bb] or mb[bb] != ma[bb]):
                return f"{sh.OPNAME[code]} on bucket {b} changed bucket {bb}"
        old, new = before[b], after[b]
    if code == 0:
        given = op[2]
        got = ma[b]
        if new != {} or got is None:
            return f"created bucket is not empty / not listed: {after_views[univ.index(b)]}"
        if got[:4] != given[:4] or got[5] != given[5] or (sh.unopt(given[4]) not in (None, 0) and got[4] != given[4]):
            return f"created bucket lists {got}, given {given}"
    elif code == 1:
        exp = list(mb[b])
        for k, idx in zip(op[2:7], (0, 1, 2, 4, 5)):
            if k != []:
                exp[idx] = k if idx == 4 else k[0]
        if ma[b] != exp or new != old:
            return f"update_bucket: expected meta {exp}, got {ma[b]} (events {'changed' if new != old else 'kept'})"
    elif code == 2:
        if new is not None or ma[b] is not None:
            return "delete_bucket left the bucket"
    elif code == 3:
        exp = {b: mb[b] for b in univ if mb[b] is not None}
        if before != after or mb != ma:
            return "buckets() changed the store"
        if out[0] != 6 or {b: m for b, m in out[1]} != exp or len(out[1]) != len(exp):
            return f"buckets() listed {out}, expected {exp}"
    elif code == 4:
        if out != [5, b, mb[b]] or new != old or ma[b] != mb[b]:
            return f"get_metadata returned {out}, expected {mb[b]}"
    elif code == 5:
        _, t, d, x = op[2]
        if out[0] != 1 or out[1] == [] or out[1][0][0] == []:
            return f"insert_one returned {out}"
        i = out[1][0][0][0]
        if i in old:
            return f"insert_one re-used the live id {i}"
        if tuple(out[1][0][1:]) != (t, d, x):
            return f"insert_one returned {out[1][0]} for {(t, d, x)}"
        exp = dict(old)
        exp[i] = (t, d, x)
        if new != exp:
            return f"after insert_one: {new}, expected {exp}"
    elif code == 6:
        exp = dict(old)
        news = []
        for e in op[2]:
            if e[0] == []:
                news.append(tuple(e[1:]))
            else:
                exp[e[0][0]] = tuple(e[1:])
        fresh = {i: v for i, v in new.items() if i not in old}
        kept = {i: v for i, v in new.items() if i in old}
        if kept != exp:
            return f"after bulk upsert the old ids hold {kept}, expected {exp}"
        if sorted(fresh.values()) != sorted(news):
            return f"bulk insert added {sorted(fresh.values())}, expected {sorted(news)}"
    elif code == 7:
        exp = dict(old)
        exp[op[2]] = tuple(op[3][1:])
        if new != exp:
            return f"after replace({op[2]}): {new}, expected {exp}"
    elif code == 8:
        newest = max(v[0] for v in old.values())
        cand = [i for i, v in old.items() if v[0] == newest]
        val = tuple(op[2][1:])
        if prev is not None and prev[0][:3] == [11, b, 1] and prev[0][3:] == [[], []] and prev[1][0] == 0:
            read = prev[1][1][1]
            if len(read) != 1 or read[0][0] == [] or read[0][0][0] not in cand:
                return f"limit-1 read returned {read}, the newest events are {cand}"
            i = read[0][0][0]
            exp = dict(old)
            exp[i] = val
            if new != exp:
                hit = [k for k in new if new[k] != old.get(k)]
                return (f"replace_last did not rewrite exactly the event the preceding limit-1 read returned "
                        f"(id {i}): changed ids {hit}")
        else:
            ok = False
            for i in cand:
                exp = dict(old)
                exp[i] = val
                ok = ok or new == exp
            if not ok:
                return f"replace_last: {new} is not {old} with one newest event rewritten"
    elif code == 9:
        i = op[2]
        exp = {k: v for k, v in old.items() if k != i}
        if new != exp:
            return f"after delete({i}): {new}, expected {exp}"
        if out != [4, 1 if i in old else 0]:
            return f"delete({i}) returned {out}, id was {'live' if i in old else 'not live'}"
    elif code == 10:
        i = op[2]
        exp = [1, [[[i]] + list(old[i])] if i in old else []]
        if out != exp or new != old:
            return f"get_event({i}) returned {out}, expected {exp}"
    elif code == 11:
        limit = op[2]
        if new != old or out[0] != 2:
            return "get_events changed the bucket"
        got = out[1]
        if limit == 0:
            return None if got == [] else f"get_events(limit=0) returned {got}"
        tss = [w[1] for w in got]
        if tss != sorted(tss, reverse=True):
            return f"get_events is not sorted newest first: {got}"
        ids = [w[0][0] for w in got]
        if len(set(ids)) != len(ids) or any(i not in old or old[i] != tuple(w[1:]) for i, w in zip(ids, got)):
            return f"get_events returned events that are not the bucket's: {got}"
        want = len(old) if limit < 0 else min(limit, len(old))
        if len(got) != want:
            return f"get_events(limit={limit}) returned {len(got)} of {len(old)} events"
        omitted = [v[0] for i, v in old.items() if i not in ids]
        if omitted and tss and max(omitted) > min(tss):
            return f"get_events(limit={limit}) omitted a newer event than one it returned"
    elif code == 12:
        if out != [3, len(old)] or new != old:
            return f"get_eventcount returned {out}, bucket holds {len(old)}"
    return None


def ambiguous_replace_last(op, before_views, univ):
    if op[0] != 8 or op[1] not in univ:
        return False
    c = contents(before_views[univ.index(op[1])])
    if not c:
        return False
    newest = max(v[0] for v in c.values())
    return sum(1 for v in c.values() if v[0] == newest) > 1


def first_model_diff(prop, be, univ, run):
    mo = sh.run_model_batch(prop, [(be, univ, run["ops"])])[0]
    if mo is None:
        return 0, "driver could not decode the case", None
    for j, (ms, is_) in enumerate(zip(mo, run["steps"])):
        if ms != is_:
            return j, ms, is_
    return None


def unread_tail_stream(ck, have_driver):
    """Histories whose tail is NOT read back op by op (round 5).  A read commits on sqlite, so in the streams above nothing
    is ever pending when a call fails.  Here: set-up with dumps, then single inserts (the id is handed back: the insert is
    ACKNOWLEDGED), bulk inserts and replaces interleaved with calls that are rejected or fail inside the engine and that
    the caller survives (a bulk insert / insert / replace_last addressed to a bucket that does not exist - sqlite:
    IntegrityError out of the INSERT -, replace / delete of dead ids), one dump at the end.  Reference list model with
    ids: every acknowledged id names its event, replaced events hold the new payload, the remaining events are exactly
    the bulk-inserted payloads, no id was handed out twice, nothing else changed."""
    n_quiet = 250 if ck.tier == "quick" else 12000
    qhists = sh.quiet_histories(ck.rng, n_quiet)
    qresults = sh.run_impl_batch(qhists)
    for (sym, univ, qf), r in zip(qhists, qresults):
        for be in sh.BACKENDS:
            run = r[be]
            qa = run["quiet_at"]
            ck.note_case([be, "unread-tail", run["ops"]], nontrivial=True)
            ck.count(f"{be}:unread-tail-histories")
            if qa == 0:
                continue
            start = run["steps"][qa - 1][1:]
            byid = {b: (None if v == [] else {w[0][0]: tuple(w[1:]) for w in v[0][1]}) for b, v in zip(univ, start)}
            meta0 = {b: (None if v == [] else v[0][0]) for b, v in zip(univ, start)}
            anon = {b: [] for b in univ}
            survived, bad = [], None
            for op, step in zip(run["ops"][qa:], run["steps"][qa:]):
                res, code = step[0], op[0]
                b = None if code == 3 else op[1]
                ck.count(f"{be}:unread:{sh.OPNAME[code]}:" + ("ok" if res[0] == 0 else sh.ERRNAME.get(res[1], "err")))
                live = byid.get(b)
                if res[0] != 0:
                    survived.append(f"{sh.describe(op)} -> {sh.ERRNAME.get(res[1], res[1])}")
                    if live is not None and (code == 5 and op[2][0] == [] or code == 6 and all(e[0] == [] for e in op[2])
                                             or code == 7 and op[2] in live):
                        bad = f"a well-formed {sh.OPNAME[code]} was rejected with {sh.ERRNAME.get(res[1], res[1])}"
                        break
                    continue
                if live is None:
                    continue
                if code == 5 and op[2][0] == []:
                    out = res[1]
                    i = out[1][0][0][0] if out[0] == 1 and out[1] and out[1][0][0] else None
                    if i is None:
                        bad = f"insert_one returned {out}"
                        break
                    if i in live:
                        bad = (f"insert handed out id {i}, which names a live event of bucket {b} (an earlier insert of the unread "
                               f"tail was acknowledged with it, or it was live before); calls the caller survived in between: {survived[-3:]}")
                        break
                    live[i] = tuple(op[2][1:])
                elif code == 6:
                    anon[b].extend(tuple(e[1:]) for e in op[2] if e[0] == [])
                elif code == 7 and op[2] in live:
                    live[op[2]] = tuple(op[3][1:])
            if bad is None:
                for b, v in zip(univ, run["final"]):
                    got = None if v == [] else {w[0][0]: tuple(w[1:]) for w in v[0][1]}
                    gm = None if v == [] else v[0][0]
                    exp = byid[b]
                    if (got is None) != (exp is None) or gm != meta0[b]:
                        bad = f"bucket {b}: existence / metadata changed in the unread tail ({meta0[b]} -> {gm})"
                        break
                    if exp is None:
                        continue
                    if v != [] and len(got) != len(v[0][1]):
                        bad = f"an id names two live events of bucket {b}: {v[0][1]}"
                        break
                    lost = sorted(i for i in exp if i not in got)
                    if lost:
                        bad = (f"bucket {b}: the events with ids {lost[:5]} are gone - their inserts had returned these ids (or they were "
                               f"listed before the unread tail) and nothing deleted them; calls the caller survived in between: {survived[:4]}")
                        break
                    wrong = sorted(i for i in exp if got[i] != exp[i])
                    if wrong:
                        bad = f"bucket {b}: event {wrong[0]} holds {got[wrong[0]]}, the reference list holds {exp[wrong[0]]}"
                        break
                    rest = sorted(p for i, p in got.items() if i not in exp)
                    if rest != sorted(anon[b]):
                        bad = f"bucket {b}: besides the events known by id it holds {rest[:6]}, the bulk inserts of the unread tail added {sorted(anon[b])[:6]}"
                        break
            if bad:
                ck.failing_input(f"C02:{be}:unread-tail:{bad.split(':')[0][:50]}",
                                 f"{be}: after {len(run['ops']) - qa} ops that were not read back: {bad}",
                                 {"backend": be, "history": [sh.describe(o) for o in run["ops"]], "wire_ops": run["ops"],
                                  "universe": univ, "unread_from_op": qa, "results": [st[0] for st in run["steps"]],
                                  "final": run["final"],
                                  "how": "harness.store_hist.run_history(backend, ops, universe, tmpdir, 0, quiet_from=unread_from_op): no "
                                         "read between the ops from unread_from_op on, one dump at the end; SqliteStorage with the default "
                                         "enable_lazy_commit=True"})
    if have_driver:
        flat = [(be, h[1], r[be]["ops"], r[be]["layer"]) for h, r in zip(qhists, qresults) for be in sh.BACKENDS]
        model = sh.run_model_batch("C02", flat)
        k = 0
        for h, r in zip(qhists, qresults):
            for be in sh.BACKENDS:
                d = sh.first_difference(model[k], r[be])
                k += 1
                if d is not None:
                    j, ms, is_ = d
                    ck.disagreement(be, f"op {j} {sh.describe(r[be]['ops'][j]) if j >= 0 else ''}: model and {be} differ (history with an unread tail)",
                                    {"backend": be, "history": [sh.describe(o) for o in r[be]["ops"][:j + 1]],
                                     "wire_ops": r[be]["ops"][:j + 1], "universe": h[1], "unread_from_op": r[be]["quiet_at"],
                                     "model": ms, "impl": is_})


def main(argv=None):
    ck = Check("C02", argv)
    common.setup_impl_env()
    ck.run_witnesses(["w05", "w06", "w09"])
    # the histories also run through Datastore / Bucket: theorems of that layer (Props/C02ds.v) and its tie B
    ck.prove(extra_targets=["Props/C02ds.v"] + tieb_stores.STORES_DS[0], gen_kernels=tieb_stores.STORES_DS[1])   # ties A + B
    have_driver = ck.driver("ExC02ds")     # ExC02 + the Datastore / Bucket layer (case tag 30)

    # every history is a 4-tuple (symbolic ops, universe, None, layer): the deterministic corpora run on BOTH
    # layers (storage object; public API = Datastore / Bucket), the random histories alternate
    n_random = 900 if ck.tier == "quick" else 45000
    hists = [(sym, univ, None, layer) for layer in sh.LAYERS
             for sym, univ in sh.boundary_histories() + sh.bulk_boundary_histories() + sh.read_write_read_histories()
             + sh.touch_histories() + sh.edge_data_histories()]
    for i in range(n_random):
        # reuse: Event objects passed a second time, and changed in place by the caller between calls
        sym, univ = sh.gen_history(ck.rng, malformed=False, reuse=0.3 if i % 5 == 4 else 0.0)
        hists.append((sym, univ, None, sh.LAYERS[i % 2]))
    results = sh.run_impl_batch(hists)

    # --- property oracle on the implementation
    for hi, ((sym, univ, _q, layer), r) in enumerate(zip(hists, results)):
        ck.count(f"layer:{layer}")
        for be in sh.BACKENDS:
            run = r[be]
            before = [[] for _ in univ]
            prev = None
            interesting = False
            for j, (op, step) in enumerate(zip(run["ops"], run["steps"])):
                res, after = step[0], step[1:]
                verdict = step_oracle(op, res, before, after, univ, prev)
                ck.count(f"{be}:{sh.OPNAME[op[0]]}:" + ("outside-quantifier" if verdict == "skip" else
                                                         "ok" if res[0] == 0 else sh.ERRNAME.get(res[1], "err")))
                if verdict not in (None, "skip"):
                    via = "" if layer == "storage" else " (through Datastore/Bucket)"
                    rich = sh.rich_values(run["ops"][j:j + 1])
                    if rich:
                        verdict += f"; op {sh.describe(op)} with data label(s) " + ", ".join(f"{k} = {v}" for k, v in rich.items())[:400]
                    ck.failing_input(f"C02:{be}:{sh.OPNAME[op[0]]}:{verdict.split(':')[0][:60]}", f"{be}{via}: {verdict}",
                                     {"backend": be, "layer": layer,
                                      "history": [sh.describe(o) for o in run["ops"][:j + 1]],
                                      "wire_ops": run["ops"][:j + 1], "universe": univ,
                                      "object_reuse": run["objs"][:j + 1] if any(run["objs"][:j + 1]) else None,
                                      "before": before, "after": after, "result": res,
                                      "data_of_label": sh.rich_values(run["ops"][j:j + 1]),
                                      "how": "harness.store_hist.replay_run(backend, wire_ops, universe, layer, "
                                             "object_reuse): the ops in order on a fresh back end; layer 'datastore' = "
                                             "every call through aw_datastore.Datastore / Bucket (Bucket.insert(Event) for "
                                             "insert, Bucket.insert(list) for insert_many, ...); object_reuse[j] names the "
                                             "earlier Event object passed again as op j's argument"})
                    break
                if op[0] == 6:
                    ck.count(f"{layer}:bulk-call:{min(len(op[2]), 4)}{'+' if len(op[2]) > 4 else ''}-element-list:"
                             f"{sum(1 for e in op[2] if e[0])}-with-id")
                if op[0] in (7, 8):
                    ck.count(f"{sh.OPNAME[op[0]]}:event-argument-" + ("carries-an-id" if op[-1][0] else "without-id"))
                if run["objs"][j]:
                    ck.count("event-object-passed-again")
                if op[0] in (6, 7, 8, 9) and res[0] == 0 and op[1] in univ:
                    c = contents(before[univ.index(op[1])])
                    if c is not None and len(c) >= 2:
                        interesting = True
                    if c:
                        tss = [v[0] for v in c.values()]
                        if len(set(tss)) < len(tss):
                            ck.count("write-on-bucket-with-tied-timestamps")
                prev = (op, res)
                before = after
            ck.note_case([be, layer, run["ops"]], nontrivial=interesting)
            ck.count("history-length-%02d-%02d" % (len(run["ops"]) // 10 * 10, len(run["ops"]) // 10 * 10 + 9))
        # interchangeability: same history, same contents up to the order-preserving id renaming
        runs = [r[be] for be in sh.BACKENDS]
        if len({len(x["ops"]) for x in runs}) == 1:
            before = [[[] for _ in univ] for _ in runs]
            for j in range(len(runs[0]["ops"])):
                if any(ambiguous_replace_last(x["ops"][j], bf, univ) for x, bf in zip(runs, before)):
                    ck.count("interchangeability-compared-until-ambiguous-replace_last")
                    break
                if any(x["objs"][j] for x in runs):
                    # an Event object passed a second time carries whatever id ITS back end wrote into it
                    # (sqlite/peewee set event.id, memory copies): the histories no longer correspond
                    ck.count("interchangeability-compared-until-an-event-object-is-passed-again")
                    break
                shapes = []
                for x in runs:
                    shapes.append([None if v == [] else [tuple(w[1:]) for w in v[0][1]] for v in x["steps"][j][1:]])
                if not (shapes[0] == shapes[1] == shapes[2]):
                    ck.failing_input("C02:backends-not-interchangeable",
                                     f"after op {j} ({sh.describe(runs[0]['ops'][j])}) the back ends hold different contents",
                                     {"symbolic_history": sym[:j + 1], "universe": univ, "layer": layer,
                                      "wire_ops_by_backend": {be: x["ops"][:j + 1] for be, x in zip(sh.BACKENDS, runs)},
                                      "contents_by_backend": dict(zip(sh.BACKENDS, shapes)),
                                      "how": "harness.store_hist.replay_run(backend, wire_ops, universe, layer) per back end"})
                    break
                before = [x["steps"][j][1:] for x in runs]
        else:
            ck.count("interchangeability-not-compared(handles resolved differently)")
        if len(ck.samples) < 4 and len(r["sqlite"]["ops"]) >= 8:
            ck.sample({"backend": "sqlite", "layer": layer, "history": [sh.describe(o) for o in r["sqlite"]["ops"][:12]],
                       "final_dump": r["sqlite"]["steps"][-1][1:]})

    # --- correspondence with the models
    if have_driver:
        flat = [(be, univ, r[be]["ops"], layer) for (sym, univ, _q, layer), r in zip(hists, results)
                for be in sh.BACKENDS]
        model = sh.run_model_batch("C02", flat)
        k = 0
        for (sym, univ, _q, layer), r in zip(hists, results):
            for be in sh.BACKENDS:
                mo = model[k]
                k += 1
                steps = r[be]["steps"]
                if mo is None or len(mo) != len(steps):
                    ck.disagreement(be, "driver could not decode the history", {"ops": r[be]["ops"]})
                    continue
                for j, (ms, is_) in enumerate(zip(mo, steps)):
                    if ms != is_:
                        ck.disagreement(be, f"op {j} {sh.describe(r[be]['ops'][j])}: model and {be} differ"
                                            + ("" if layer == "storage" else " (through Datastore/Bucket)"),
                                        {"backend": be, "layer": layer,
                                         "history": [sh.describe(o) for o in r[be]["ops"][:j + 1]],
                                         "wire_ops": r[be]["ops"][:j + 1], "universe": univ,
                                         "object_reuse": r[be]["objs"][:j + 1], "model": ms, "impl": is_})
                        break
    # --- histories with an unread tail: acknowledged writes, calls that fail and that the caller survives, one dump at the end
    unread_tail_stream(ck, have_driver)

    ck.assumptions += [
        "data labels >= 100 stand for concrete edge values (harness/store_hist.py RICH: lone surrogates, astral code points, NUL, "
        "U+2028, OrderedDict / defaultdict / list / str / int subclasses at every depth); a value that is read back != or with another "
        "JSON text gets the negative label, which no model produces",
        "strings/data enter the models as labels (0 = the falsy value of its kind); the time codec is the identity "
        "in these models (C01 proves the codecs)",
        "SQLite returns rows of equal timestamp in ascending rowid order for peewee's ORDER BY timestamp DESC "
        "(modelled as a stable sort of the table scan; compared on every run)",
        "dumps are taken through the API of the layer the history runs on (get_metadata + get_events(-1), resp. "
        "Bucket.metadata + Bucket.get(-1)) and compared sorted by id",
        "layer 'datastore': per-bucket calls go through the Bucket object create_bucket handed back (a Bucket built "
        "from the bare id for a bucket this client did not create); model = Model/Datastore.v under "
        "Model/DatastoreApi.v api_call",
    ]
    return ck.finish(RULE)


if __name__ == "__main__":
    sys.exit(main())
