"""Round 5 helper of the transform checks (c08, c09, c10, c15, c16, c19): INPUT TYPES at the edge of what the API
accepts, NUMERIC EXTREMES, FAULTS.

The models are exact (integers, opaque labels, functional lists).  A check that hands every call a `list` of
Events whose data are plain dicts of small JSON values, with durations of seconds around one instant in 2020, on a
healthy interpreter, cannot see

  * a second pass over the argument (a one-shot iterable is empty the second time), `isinstance(x, list)` fast
    paths, `len()` / indexing where iteration was enough                                   -> CONTAINERS
  * EAFP rewrites (`try: d[k] except KeyError`) on a dict that supplies defaults, `type(d) is dict` fast paths,
    values that are subclasses of str / int                                                -> DATA TYPES
  * float routes (total_seconds(), timestamp(), JSON) that are exact only below 2**53 us / near the present,
    datetime arithmetic where timedelta arithmetic was enough, timedelta field mix-ups
    (`.seconds` for `.total_seconds()`)                                                    -> EXTREMES
  * broad `except` clauses that turn a failing copy into a normal-looking result             -> FAULTS

This module is generic (it never looks at the code under test); the per-property parts are harness/cXX_edge.py.

CONTAINERS.  `SUPPORT` says for every list parameter of every transform which container kinds the UNCHANGED tree
(/repo as of round 5) handles exactly like a list - established by experiment (tools: `python -m harness.txedge
probe`), see `OBSERVATIONS` for what it does on the others.  For a supported kind the expectation is: the result
equals the list case (the property oracle and the model judge it like any other call) and the caller's objects -
the events, their data, and the container itself when it can be read twice - are untouched.  Unsupported kinds are
run too, but only COUNTED (`container-left-out:<function>/<kind>: <what happened>`), never judged.
"""
import collections
import copy
import importlib
import json
import sys
from datetime import datetime, timedelta, timezone

from .evutil import dt, dt_zoned, us_of_dt, us_of_td

US = timedelta(microseconds=1)

# --------------------------------------------------------------------------- containers


class EventList(list):
    """a list subclass (what an ORM / a paging helper hands out)"""


ONE_SHOT = ("generator", "iter", "reversed", "map", "filter")
REITERABLE = ("list", "tuple", "deque", "listsub")
ALL_KINDS = REITERABLE + ONE_SHOT


def wrap(kind, objs):
    """the events `objs` (a list the harness keeps) handed over as a container of `kind`; "list" = a NEW list"""
    objs = list(objs)
    if kind == "list":
        return objs
    if kind == "tuple":
        return tuple(objs)
    if kind == "deque":
        return collections.deque(objs)
    if kind == "listsub":
        return EventList(objs)
    if kind == "generator":
        return (o for o in objs)
    if kind == "iter":
        return iter(objs)
    if kind == "reversed":
        return reversed(objs[::-1])
    if kind == "map":
        return map(lambda o: o, objs)
    if kind == "filter":
        return filter(lambda o: True, objs)
    raise ValueError(kind)


class Handed:
    """One argument as handed over: remembers what the container held, so that `touched()` can tell afterwards
    whether the callee changed the caller's container (re-iterable kinds; a one-shot iterable is consumed by
    design)."""

    def __init__(self, kind, objs):
        self.kind = kind
        self.ids = [id(o) for o in objs]
        self.arg = wrap(kind, objs)

    def touched(self):
        if self.kind in ONE_SHOT:
            return None
        now = [id(o) for o in self.arg]
        if now != self.ids:
            if sorted(now) == sorted(self.ids):
                return f"the caller's {self.kind} was reordered in place"
            return f"the caller's {self.kind} holds other elements after the call ({len(self.ids)} before, {len(now)} after)"
        return None


A = ALL_KINDS
# parameter-wise support of the unchanged tree; two-list functions whose parameters are not independent (`a + b`)
# list the supported PAIRS instead
SUPPORT = {
    "heartbeat_reduce": [("list", "listsub")],
    "flood": [("list", "tuple", "deque", "listsub", "iter", "reversed", "map", "filter")],
    "union_no_overlap": [("list", "tuple", "listsub"), ("list", "listsub")],
    "filter_period_intersect": [A, A],
    "period_union": {"pairs": [("list", "list"), ("list", "listsub"), ("listsub", "list"), ("listsub", "listsub"),
                               ("tuple", "tuple"), ("deque", "deque")]},
    "merge_events_by_keys": [A],               # with at least one key (with none the ARGUMENT is returned)
    "chunk_events_by_key": [("list", "tuple", "deque", "listsub")],
    "sort_by_timestamp": [A],
    "sort_by_duration": [A],
    "limit_events": [("list", "tuple", "listsub")],            # a tuple comes back as a tuple
    "sum_durations": [A],
    "concat": {"pairs": [("list", "list"), ("list", "listsub"), ("listsub", "list"), ("listsub", "listsub"),
                         ("tuple", "tuple"), ("deque", "deque")]},      # the result has the type of events1
    "filter_keyvals": [A],
    "categorize": [A],
    "tag": [A],
    "split_url_events": [("list", "tuple", "deque", "listsub")],        # returns its argument
    "simplify_string": [("list", "tuple", "deque", "listsub")],         # the copy has the argument's type
}

OBSERVATIONS = {
    "heartbeat_reduce": "pops the head of its argument: tuple / generator / iterators raise AttributeError, a deque TypeError "
                        "(deque.pop takes no index)",
    "flood": "deepcopy(events) first: a generator raises TypeError (cannot pickle); iter(list) / reversed / map / filter objects "
             "are copied (their __reduce__) and the COPY is consumed - the caller's iterator is left unread",
    "union_no_overlap": "len() and indexing: generators / iterators raise TypeError; a deque raises TypeError at the tail slices "
                        "(`events1[e1_i:]`); a tuple as events2 raises TypeError (item assignment) as soon as a list-two event "
                        "continues after a list-one event, and works otherwise",
    "period_union": "`events1 + events2`: mixed container types, generators and iterators raise TypeError; two tuples / two deques work",
    "merge_events_by_keys": "with an empty key list the argument itself is returned, whatever it is (a consumed generator stays unread)",
    "chunk_events_by_key": "reads `events[-1]`: generators / iterators raise TypeError from the second event on",
    "limit_events": "slices: a deque, generators and iterators raise TypeError; a tuple comes back as a tuple",
    "concat": "`events1 + events2`: as period_union; the result has the type of the arguments",
    "split_url_events": "returns its ARGUMENT after one pass: for a generator / iterator the caller gets the exhausted iterator "
                        "back (the events were annotated in place, but the returned value yields nothing)",
    "simplify_string": "deepcopy(events), one pass, returns the copy: a generator raises TypeError; for iter(list) / reversed / "
                       "map the exhausted COPY is returned (yields nothing) and the caller's iterator is left unread",
}


def supported(fname, kinds):
    s = SUPPORT[fname]
    if isinstance(s, dict):
        return tuple(kinds) in s["pairs"]
    return all(k in ok for k, ok in zip(kinds, s))


def container_plans(fname, rng=None, extra=0):
    """the kind tuples to run for `fname`: every supported kind on each parameter alone (the others lists), plus the
    supported same-kind combinations"""
    s = SUPPORT[fname]
    if isinstance(s, dict):
        return [p for p in s["pairs"] if p != ("list", "list")]
    n = len(s)
    plans = []
    for i, ok in enumerate(s):
        for k in ok:
            if k != "list":
                plans.append(tuple(k if j == i else "list" for j in range(n)))
    if n == 2:
        for k in s[0]:
            if k != "list" and k in s[1] and (k, k) not in plans:
                plans.append((k, k))
    return plans


def left_out_plans(fname):
    s = SUPPORT[fname]
    if isinstance(s, dict):
        return [(a, b) for a in ("tuple", "generator") for b in ("list", "generator") if (a, b) not in s["pairs"]]
    n = len(s)
    return [tuple(k if j == i else "list" for j in range(n)) for i, ok in enumerate(s) for k in ALL_KINDS if k not in ok]


# --------------------------------------------------------------------------- data dict TYPES


class Str(str):
    """a str subclass as a data value (enum-like / markup-safe strings)"""
    __slots__ = ()


class Int(int):
    """an int subclass as a data value (IntEnum-like)"""
    __slots__ = ()


class Defaulting(dict):
    """a dict subclass that supplies a default for a missing key WITHOUT storing it (plain __missing__)"""

    def __missing__(self, key):
        return ""


DICT_KINDS = ("defaultdict(str)", "defaultdict(list)", "Counter", "OrderedDict", "__missing__", "values:Str/Int")


def exotic(data, kind):
    """`data` (a plain dict) as a dict of another TYPE with the same items - the plain-dict reading is `data`"""
    if kind == "defaultdict(str)":
        return collections.defaultdict(str, data)
    if kind == "defaultdict(list)":
        return collections.defaultdict(list, data)
    if kind == "defaultdict(int)":
        return collections.defaultdict(int, data)
    if kind == "Counter":
        c = collections.Counter()
        dict.update(c, data)
        return c
    if kind == "OrderedDict":
        return collections.OrderedDict(data)
    if kind == "__missing__":
        return Defaulting(data)
    if kind == "values:Str/Int":
        return {k: (Str(v) if type(v) is str else Int(v) if type(v) is int else v) for k, v in data.items()}
    if kind == "plain":
        return dict(data)
    raise ValueError(kind)


def plain(v):
    """the plain reading of a value: dict subclasses -> dict, Str -> str, Int -> int (recursively)"""
    if isinstance(v, dict):
        return {plain(k): plain(x) for k, x in v.items()}
    if isinstance(v, list):
        return [plain(x) for x in v]
    if isinstance(v, tuple):
        return tuple(plain(x) for x in v)
    if type(v) in (Str, Fragile):
        return str(v)
    if type(v) is Int:
        return int(v)
    return v


def dict_kind(d):
    if type(d) is collections.defaultdict:
        return "defaultdict(%s)" % getattr(d.default_factory, "__name__", d.default_factory)
    return type(d).__name__


# --------------------------------------------------------------------------- snapshots that see ADDED keys and types


def same_typed(a, b):
    """== and the same types all the way down, dict key ORDER included (an added and removed key changes it)"""
    todo = [(a, b)]            # iterative: data nested hundreds deep must not exhaust the C stack here
    while todo:
        a, b = todo.pop()
        if type(a) is not type(b):
            return False
        if isinstance(a, dict):
            if list(a.keys()) != list(b.keys()):
                return False
            todo.extend((a[k], b[k]) for k in a)
        elif isinstance(a, (list, tuple)):
            if len(a) != len(b):
                return False
            todo.extend(zip(a, b))
        elif not (a == b):
            return False
    return True


def snap(objs):
    """what the caller can see of its events: identity, the four fields, the data dict's identity, type, keys (in order)
    and typed values"""
    return [(id(o), o.id, o.timestamp, o.duration, id(o.data), copy.deepcopy(o.data), sorted(dict.keys(o), key=str)) for o in objs]


def changed(objs, before, what="input event"):
    """-> None or a sentence that names the first difference (a key ADDED to an event's data is one)"""
    if len(objs) != len(before):
        return f"the {what} list has {len(objs)} elements, had {len(before)}"
    for k, (o, (i, oid, t, d, di, data, fields)) in enumerate(zip(objs, before)):
        if id(o) != i:
            return f"{what} {k} is another object"
        if o.id != oid or o.timestamp != t or o.duration != d:
            return (f"{what} {k} changed: (id, ts_us, dur_us) = ({o.id}, {us_of_dt(o.timestamp)}, {us_of_td(o.duration)}), "
                    f"was ({oid}, {us_of_dt(t)}, {us_of_td(d)})")
        if sorted(dict.keys(o), key=str) != fields:
            return f"{what} {k} has fields {sorted(dict.keys(o), key=str)}, had {fields}"
        now = o.data
        if id(now) != di:
            return f"{what} {k}: its data dict was replaced by another object"
        if type(now) is not type(data):
            return f"{what} {k}: its data is now a {type(now).__name__}, was a {type(data).__name__}"
        added = [key for key in now if key not in data]
        gone = [key for key in data if key not in now]
        if added or gone:
            return (f"{what} {k}: key(s) {added} ADDED to its data" if added else f"{what} {k}: key(s) {gone} removed from its data") + \
                f" (a {dict_kind(now)}): now {show(now)}, was {show(data)}"
        if not same_typed(now, data):
            return f"{what} {k}: data changed: now {show(now)}, was {show(data)}"
    return None


# --------------------------------------------------------------------------- numeric extremes

TWO53 = 2 ** 53                                   # us; above it a float no longer resolves every microsecond (285 years)
TD_MAX_US = timedelta.max // US                   # 86 399 999 999 999 999 999
DT_MIN_US = us_of_dt(datetime.min.replace(tzinfo=timezone.utc))
DT_MAX_US = us_of_dt(datetime.max.replace(tzinfo=timezone.utc))
DT_MAX_MS = DT_MAX_US // 1000 * 1000              # the last instant of the millisecond grid
DAY = 86_400_000_000

# durations (us) at and around the places where a float route / a field mix-up goes wrong
EXTREME_DURS = [TWO53 - 1, TWO53, TWO53 + 1, TWO53 + 1001, 2 * TWO53 + 1, 3 * TWO53 + 3, 150_000 * DAY + 1,
                200_000 * DAY + 1, 40_000 * DAY + 1, 999_999 * DAY + 999_999, DAY - 1, DAY, DAY + 1, 400 * DAY]
# the same on the millisecond grid (for the properties whose domain is the ms grid): still beyond 2**53 us
EXTREME_DURS_MS = [(TWO53 // 1000 + k) * 1000 for k in (0, 1, 2, 7)] + [150_000 * DAY + 1000, 3 * TWO53 // 1000 * 1000 + 3000,
                                                                        DAY - 1000, DAY, DAY + 1000, 400 * DAY]
PULSES_DAY = [86399, 86400, 86401, 86400.5, 2 * 86400, 400 * 86400]


# ocaml/main.ml reads and prints the wire's integers as native 63-bit ints: a case whose numbers (or whose sums) could
# leave that range is judged by the property oracle only, not sent to the extracted model
WIRE_MAX = 2 ** 59


def wire_ok(numbers):
    return all(abs(n) < WIRE_MAX for n in numbers)


def instant(y, mo=3, d=4, h=5, mi=6, s=7, ms=891):
    return us_of_dt(datetime(y, mo, d, h, mi, s, ms * 1000, tzinfo=timezone.utc))


# millisecond-aligned instants far from the present (a float epoch resolves microseconds only for years ~1700..2242)
FAR_YEARS = [1, 2, 1000, 1383, 1583, 1700, 1969, 2038, 2106, 2243, 2419, 3000, 5807, 9998, 9999]
FAR_INSTANTS = [instant(y) for y in FAR_YEARS] + [DT_MIN_US, DT_MIN_US + 86_400_000_000, DT_MAX_MS - 10 * DAY, DT_MAX_MS - 1000]


def in_range(t_us):
    return DT_MIN_US <= t_us <= DT_MAX_US


def aware(us):
    """the instant as an aware datetime: in one of evutil's zones where that is representable, UTC at the two ends
    of the datetime range"""
    if not (DT_MIN_US + 3 * DAY <= us <= DT_MAX_US - 3 * DAY):     # zone arithmetic (utcoffset / fromutc) would overflow
        return dt(us)
    try:
        return dt_zoned(us)
    except OverflowError:
        return dt(us)


def mk_event(Event, ts_us, dur_us, data, eid=None):
    return Event(id=eid, timestamp=aware(ts_us), duration=timedelta(microseconds=dur_us), data=data)


def build(Event, specs):
    return [mk_event(Event, t, d, copy.deepcopy(x), i) for (t, d, x, i) in specs]


# --------------------------------------------------------------------------- deep nesting and recursion limits

DEFAULT_LIMIT = 1000
HARNESS_LIMIT = 40_000


def nested(depth, shape="dict", leaf="x"):
    """JSON data nested `depth` deep ({"k": {"k": ... leaf}} / [[... leaf]] / alternating)"""
    v = leaf
    for j in range(depth):
        if shape == "dict" or (shape == "mixed" and j % 2):
            v = {"k": v}
        else:
            v = [v]
    return v


def depth_of(v, cap=100_000):
    n = 0
    while isinstance(v, (dict, list, tuple)) and v and n < cap:
        v = next(iter(v.values())) if isinstance(v, dict) else v[0]
        n += 1
    return n


class harness_limit:
    """the harness's own copies / comparisons of deeply nested data need room"""

    def __enter__(self):
        self.old = sys.getrecursionlimit()
        sys.setrecursionlimit(max(self.old, HARNESS_LIMIT))

    def __exit__(self, *a):
        sys.setrecursionlimit(self.old)


def under_default_limit(fn, *args, **kw):
    """call `fn` with the interpreter's DEFAULT recursion limit counted from here (the harness's own frames do not
    eat into it): -> ("ok", value) | ("raised", exception)"""
    old = sys.getrecursionlimit()
    f, here = sys._getframe(), 0
    while f is not None:
        here += 1
        f = f.f_back
    sys.setrecursionlimit(DEFAULT_LIMIT + here)
    try:
        return "ok", fn(*args, **kw)
    except BaseException as ex:  # noqa: BLE001   RecursionError, MemoryError included
        if isinstance(ex, (KeyboardInterrupt, SystemExit)):
            raise
        return "raised", ex
    finally:
        sys.setrecursionlimit(old)


# --------------------------------------------------------------------------- an injected one-off fault in copy.deepcopy


class Fragile(str):
    """A str data value whose deep copy is a countable step of an active DeepcopyFault (the copy module's own
    recursion does not go through the patchable name `copy.deepcopy`: its helpers bind it as a default argument, so
    only TOP-LEVEL deepcopy calls can be intercepted; a Fragile value inside an event's data gives the fault a
    place INSIDE a copy - 'the copy of the 3rd event's data fails').  Outside a DeepcopyFault it copies like a str
    subclass; it compares / hashes / prints as the string it is."""
    __slots__ = ()
    active = None

    def __deepcopy__(self, memo):
        if Fragile.active is not None:
            Fragile.active.tick("the copy of a data value")
        return Fragile(str(self))

    def __reduce__(self):
        return (Fragile, (str(self),))


class DeepcopyFault:
    """While active, the `nth` step (0-based) raises `exc` - once.  Steps, in the order they happen: every TOP-LEVEL
    invocation of copy.deepcopy (the name is patched in `copy` and wherever the loaded aw_* modules bound it with
    `from copy import deepcopy`) and every copy of a `Fragile` data value.  nth=None only counts (a dry run tells
    how many steps a call makes: `.calls`)."""

    def __init__(self, nth=None, exc=MemoryError):
        self.nth, self.exc = nth, exc
        self.calls = 0
        self.fired = False

    def tick(self, what):
        k = self.calls
        self.calls += 1
        if self.nth is not None and k == self.nth and not self.fired:
            self.fired = True
            raise self.exc("injected by the harness: %s, step %d" % (what, k))

    def __enter__(self):
        self.orig = orig = copy.deepcopy
        me = self
        self.outer, Fragile.active = Fragile.active, self

        def deepcopy(x, memo=None, _nil=[]):      # noqa: B006  (signature of copy.deepcopy)
            me.tick("a deepcopy call")
            return orig(x, memo, _nil)
        self.patched = []
        for name, mod in list(sys.modules.items()):
            if mod is None or not (name == "copy" or name.split(".")[0] in ("aw_transform", "aw_core", "aw_query", "aw_datastore")):
                continue
            for attr in ("deepcopy",):
                if getattr(mod, attr, None) is orig:
                    setattr(mod, attr, deepcopy)
                    self.patched.append((mod, attr))
        return self

    def __exit__(self, *a):
        Fragile.active = self.outer
        for mod, attr in self.patched:
            setattr(mod, attr, self.orig)


def fault_outcome(kind, value, expected, exc_classes, equal=None):
    """The rule for a call made under a fault (deep nesting, injected MemoryError): it RAISES one of `exc_classes`
    or RETURNS what the fault-free call returns (`expected`) - never another result.  -> None or a sentence."""
    if kind == "raised":
        if isinstance(value, tuple(exc_classes)):
            return None
        return f"raised {type(value).__name__} ({str(value)[:80]}), the fault was a {'/'.join(c.__name__ for c in exc_classes)}"
    if (equal or (lambda a, b: a == b))(value, expected):
        return None
    return f"returned {show(value)} where the fault-free call returns {show(expected)}"


# --------------------------------------------------------------------------- text / JSON forms that survive the edge values


def show(v, width=220):
    """a short typed text of a value (deep nests abbreviated)"""
    n = depth_of(v)
    if n > 40:
        return f"<{type(v).__name__} nested {n} deep>"
    if isinstance(v, dict) and type(v) is not dict:
        s = f"{dict_kind(v)}({dict(v)!r})"
    elif type(v) in (Str, Int, Fragile):
        s = f"{type(v).__name__}({int.__repr__(v) if type(v) is Int else str.__repr__(v)})"
    else:
        s = repr(v)
    return s if len(s) <= width else s[:width] + "..."


def enc(v):
    """JSON form of a data value that keeps its TYPES (decoded by `dec`)"""
    n = depth_of(v)
    if n > 40:
        x, shape = v, []
        while isinstance(x, (dict, list)) and x and len(shape) < 4:
            shape.append("dict" if isinstance(x, dict) else "list")
            x = next(iter(x.values())) if isinstance(x, dict) else x[0]
        leaf = v
        while isinstance(leaf, (dict, list)) and leaf:
            leaf = next(iter(leaf.values())) if isinstance(leaf, dict) else leaf[0]
        return {"__nested__": n, "shape": "dict" if set(shape) == {"dict"} else "list" if set(shape) == {"list"} else "mixed",
                "leaf": enc(leaf)}
    if isinstance(v, dict):
        items = [[enc(k), enc(x)] for k, x in v.items()]
        if type(v) is dict and all(type(k) is str for k in v):
            return {"__dict__": items} if any(k.startswith("__") for k in v) else {k: enc(x) for k, x in v.items()}
        return {"__type__": dict_kind(v), "items": items}
    if type(v) is list:
        return [enc(x) for x in v]
    if type(v) is tuple:
        return {"__tuple__": [enc(x) for x in v]}
    if type(v) is Str:
        return {"__Str__": str(v)}
    if type(v) is Fragile:
        return {"__Fragile__": str(v)}
    if type(v) is Int:
        return {"__Int__": int(v)}
    if v is None or type(v) in (str, int, float, bool):
        return v
    return {"__repr__": repr(v)}


def dec(j):
    if isinstance(j, list):
        return [dec(x) for x in j]
    if not isinstance(j, dict):
        return j
    if "__nested__" in j:
        return nested(j["__nested__"], j["shape"], dec(j["leaf"]))
    if "__Str__" in j:
        return Str(j["__Str__"])
    if "__Fragile__" in j:
        return Fragile(j["__Fragile__"])
    if "__Int__" in j:
        return Int(j["__Int__"])
    if "__tuple__" in j:
        return tuple(dec(x) for x in j["__tuple__"])
    if "__dict__" in j:
        return {dec(k): dec(x) for k, x in j["__dict__"]}
    if "__type__" in j:
        items = {dec(k): dec(x) for k, x in j["items"]}
        t = j["__type__"]
        kind = {"defaultdict(str)": "defaultdict(str)", "defaultdict(list)": "defaultdict(list)", "defaultdict(int)": "defaultdict(int)",
                "Counter": "Counter", "OrderedDict": "OrderedDict", "Defaulting": "__missing__"}.get(t)
        return exotic(items, kind) if kind else items
    return {k: dec(x) for k, x in j.items()}


def edge_replay(module, name, lists, scalars=(), kwargs=None, fault=None, limit=None, note=None, observed=None, unpack=False):
    """A replayable description of one call: `lists` = [(container kind, [(ts_us, dur_us, data, id), ...]), ...] in
    parameter order, then positional `scalars` / `kwargs`; `unpack`: the events of the (one) list are separate
    positional arguments.  Re-run with `python -m harness.txedge replay <file>`."""
    r = {"edge_call": {"module": module, "name": name,
                       "lists": [{"container": k, "events(ts_us,dur_us,data,id)": [[t, d, enc(x), i] for (t, d, x, i) in specs]}
                                 for k, specs in lists],
                       "scalars": [enc(s) for s in scalars], "kwargs": {k: enc(v) for k, v in (kwargs or {}).items()}},
         "rerun_hint": "cd /verif && VERIF_REPO=<repo> PYTHONPATH=<repo>:/verif /venv/bin/python -m harness.txedge replay <this file>   (prints what the call returns "
                       "or raises and what the caller's events look like afterwards)"}
    if fault:
        r["edge_call"]["fault"] = fault
    if unpack:
        r["edge_call"]["unpack"] = True
    if limit:
        r["edge_call"]["recursion_limit"] = limit
    if note:
        r["how_to_read"] = note
    if observed is not None:
        r["observed"] = observed
    return r


def _show_events(evs):
    out = []
    for e in evs:
        if hasattr(e, "timestamp"):
            out.append((e.id, us_of_dt(e.timestamp), us_of_td(e.duration), show(e.data, 400)))
        else:
            out.append(show(e))
    return out


def replay_main(path):
    from . import common
    common.setup_impl_env()
    from aw_core.models import Event
    obj = json.load(open(path))
    r = obj.get("replay", obj)
    c = r.get("edge_call")
    if not c:
        cands = [x["replay"] for x in obj.get("other_failing_inputs", []) if "edge_call" in x.get("replay", {})]
        if not cands:
            print("no edge_call in", path)
            return 2
        c = cands[0]["edge_call"]
    fn = getattr(importlib.import_module(c["module"]), c["name"])
    with harness_limit():
        objs = [build(Event, [(t, d, dec(x), i) for t, d, x, i in l["events(ts_us,dur_us,data,id)"]]) for l in c["lists"]]
        handed = [Handed(l["container"], o) for l, o in zip(c["lists"], objs)]
        scalars = [dec(s) for s in c.get("scalars", [])]
        kwargs = {k: dec(v) for k, v in c.get("kwargs", {}).items()}
        before = [_show_events(o) for o in objs]
        f = c.get("fault") or {}
        print(f"{c['module']}.{c['name']}({', '.join(l['container'] + ' of %d events' % len(o) for l, o in zip(c['lists'], objs))}"
              f"{''.join(', ' + show(s) for s in scalars)}{''.join(', %s=%s' % (k, show(v)) for k, v in kwargs.items())})"
              + (f"   with {f}" if f else ""))
        if c.get("unpack"):
            call = lambda: fn(*objs[0], *scalars, **kwargs)      # noqa: E731
        else:
            call = lambda: fn(*[h.arg for h in handed], *scalars, **kwargs)      # noqa: E731
        if f.get("deepcopy_raises"):
            import builtins
            with DeepcopyFault(f["nth"], getattr(builtins, f["deepcopy_raises"])):
                kind, val = under_default_limit(call)
        else:
            kind, val = under_default_limit(call)
        if kind == "raised":
            print("  raises", type(val).__name__, str(val)[:200])
        else:
            try:
                print("  ->", type(val).__name__, us_of_td(val) if isinstance(val, timedelta) else
                      _show_events([val] if hasattr(val, "timestamp") else list(val)))
            except TypeError:
                print("  ->", show(val))
        for k, (o, b) in enumerate(zip(objs, before)):
            now = _show_events(o)
            print(f"  argument {k} afterwards:", "unchanged" if now == b else now)
            if now != b:
                print(f"  argument {k} before:    ", b)
            if handed[k].touched():
                print("  ", handed[k].touched())
    return 0


# --------------------------------------------------------------------------- the experiment behind SUPPORT


def probe_main():
    """What the tree on PYTHONPATH does for every container kind on every list parameter (prints a table)."""
    from . import common
    common.setup_impl_env()
    from aw_core.models import Event
    from aw_transform.classify import Rule
    T0 = 1_600_000_000_000_000
    S = 1_000_000

    def A_():
        return build(Event, [(T0, 2 * S, {"app": "a", "title": "(1) x", "url": "http://www.a.b/c?d#e"}, 1), (T0 + 3 * S, S, {"app": "a", "title": "y"}, 2),
                             (T0 + 10 * S, 2 * S, {"app": "b", "title": "z"}, 3), (T0 + 5 * S, S, {"app": "b", "title": "* w"}, 4)])

    def B_():
        return build(Event, [(T0 + S, 3 * S, {"s": "n"}, 11), (T0 + 9 * S, 2 * S, {"s": "n"}, 12), (T0 + 4_500_000, S, {"s": "m"}, 13)])

    def srt(f):
        return lambda: sorted(f(), key=lambda e: e.timestamp)
    rules = [(["A"], Rule({"regex": "x"})), (["B", "C"], Rule({"regex": "z"}))]
    im = lambda n: importlib.import_module("aw_transform." + n)      # noqa: E731
    F = {"heartbeat_reduce": (lambda a: im("heartbeats").heartbeat_reduce(a, 2), [srt(A_)]),
         "flood": (lambda a: im("flood").flood(a, 5), [A_]),
         "union_no_overlap": (lambda a, b: im("union_no_overlap").union_no_overlap(a, b), [srt(A_), srt(B_)]),
         "filter_period_intersect": (lambda a, b: im("filter_period_intersect").filter_period_intersect(a, b), [A_, B_]),
         "period_union": (lambda a, b: im("filter_period_intersect").period_union(a, b), [A_, B_]),
         "merge_events_by_keys": (lambda a: im("merge_events_by_keys").merge_events_by_keys(a, ["app"]), [A_]),
         "chunk_events_by_key": (lambda a: im("chunk_events_by_key").chunk_events_by_key(a, "app", 5.0), [srt(A_)]),
         "sort_by_timestamp": (lambda a: im("sort_by").sort_by_timestamp(a), [A_]),
         "sort_by_duration": (lambda a: im("sort_by").sort_by_duration(a), [A_]),
         "limit_events": (lambda a: im("sort_by").limit_events(a, 2), [A_]),
         "sum_durations": (lambda a: im("sort_by").sum_durations(a), [A_]),
         "concat": (lambda a, b: im("sort_by").concat(a, b), [A_, B_]),
         "filter_keyvals": (lambda a: im("filter_keyvals").filter_keyvals(a, "app", ["a"]), [A_]),
         "categorize": (lambda a: im("classify").categorize(a, rules), [A_]),
         "tag": (lambda a: im("classify").tag(a, rules), [A_]),
         "split_url_events": (lambda a: im("split_url_events").split_url_events(a), [A_]),
         "simplify_string": (lambda a: im("simplify").simplify_string(a), [A_])}

    def view(r):
        if isinstance(r, timedelta):
            return ("timedelta", us_of_td(r))
        return (type(r).__name__, [(e.id, us_of_dt(e.timestamp), us_of_td(e.duration), repr(e.data)) for e in r])
    for name, (f, mks) in F.items():
        base = view(f(*[m() for m in mks]))
        plans = [tuple(k if j == i else "list" for j in range(len(mks))) for i in range(len(mks)) for k in ALL_KINDS if k != "list"]
        if len(mks) == 2:
            plans += [(k, k) for k in ALL_KINDS if k != "list"]
        for plan in plans:
            lists = [m() for m in mks]
            try:
                r = view(f(*[wrap(k, l) for k, l in zip(plan, lists)]))
                res = "same" if r == base else "same events, result is a " + r[0] if r[1] == base[1] else "DIFFERENT: " + str(r)[:120]
            except Exception as ex:  # noqa: BLE001
                res = f"raises {type(ex).__name__}: {str(ex)[:70]}"
            ok = supported(name, plan)
            print(f"{name:24s} {'/'.join(plan):22s} {'SUPPORT' if ok else 'left out'}  {res}")
    return 0


if __name__ == "__main__":
    if len(sys.argv) >= 3 and sys.argv[1] == "replay":
        sys.exit(replay_main(sys.argv[2]))
    if len(sys.argv) >= 2 and sys.argv[1] == "probe":
        sys.exit(probe_main())
    print(__doc__)
