"""C05 — bucket lifecycle (create, list, describe, update, delete) behaves as a keyed map.

Histories of Datastore / Bucket calls are run on the three real back ends THROUGH the real
`aw_datastore.Datastore` and `Bucket` classes; after every call the result (error class), the
`bucket_instances` cache (which Bucket object sits under which id), `ds.buckets()` and a dump
of every bucket of the universe are recorded.  Two things are then decided:

  * the property statement on the implementation's own outputs (`Oracle` below: an independent
    Python dict reference model of the keyed map, the error classes, "nothing changed" after a
    raising call, "events die with their bucket", cache coherence);
  * correspondence with Model/Datastore.v over Model/{Mem,Sqlite,Peewee}Store.v (extracted,
    build/C05/driver), step by step, exact.

Labels (the models see integers): strings STR[n] (0 = ""), data dicts DATA[n] (0 = {}),
creation instants CREATED(n) printed in the zone ZONES[n % len(ZONES)]."""
import multiprocessing
import os
import shutil
import sys
import tempfile
from datetime import datetime, timedelta, timezone

from . import common
from . import store_hist as sh
from . import tieb_stores
from .common import Check, sx
from .evutil import BASE, dt, us_of_dt

RULE = ("deterministic lifecycle corpus (every single-field and all-field update; name given / not given; "
        "empty / nested data; creation instants in five zones incl. a naive one; delete then re-create with "
        "events in between; reads and writes through handles obtained before the delete; every call on an id "
        "that does not exist; peewee key reuse after deleting the newest bucket; calls that bypass the Datastore) "
        "then seeded random histories of 1-45 calls over 1-3 buckets (unicode ids) mixing lifecycle calls with "
        "event writes; every history runs on memory, sqlite (temp file) and peewee (temp file) through "
        "Datastore/Bucket; non-trivial = a run in which a bucket holding events was deleted and the same id "
        "created again; (b) histories whose TAIL of 2-14 calls is not read back call by call (a dump reads through "
        "get_events, which commits on sqlite, so in (a) no event write is ever pending when a bucket-level call "
        "arrives): event writes through handles interleaved with failing (lookup / describe / update / delete of an "
        "id never created or merely absent) and succeeding (create, update, delete, lookup, describe, list) "
        "bucket-level calls, only the call's result and bucket_instances observed, one dump at the end, SqliteStorage "
        "in its default lazy-commit mode; deterministic (every bucket-level call x four patterns of pending writes) "
        "then seeded random; non-trivial there = a bucket-level call arrives after an unread event write; (c) scenarios "
        "of harness/store_sched.py judged by the property statement alone: every write statement / read / COMMIT of "
        "create_bucket, update_bucket, delete_bucket (peewee, sqlite; both layers) fails once - raised before the engine "
        "or refused by the engine's authorizer - and the caller carries on: repeats the call, re-creates the SAME id, "
        "creates ANOTHER id (peewee re-issues the key of the newest deleted row), writes, with and without an unread "
        "run-up; two storage / Datastore objects on one file used alternately; two threads with thread A suspended "
        "inside the 1st..3rd engine call of a bucket-level call while B runs whole calls")

SEC = 1_000_000
MISSING = 7
STR = ["", "aw-watcher-window_höst", "日本語/バケツ 2", "b3", "afk ☃ status",
       "currentwindow", "quote'\"%_;--", "never-created", "åäö näme", "\U0001d518niçode"]
DATA = [{},
        {"x": 1},
        {"nested": {"a": [1, 2, {"b": None}], "ü": "ß"}, "n": 1.5},
        {"k": {"deep": {"deeper": {"deepest": [True, 1.5, "s", []]}}}},
        {"list": [], "empty": {}, "s": "日本"}]
ZONES = [timezone.utc, timezone(timedelta(hours=2)), timezone(-timedelta(hours=5, minutes=30)),
         timezone(timedelta(hours=13, minutes=45)), None]
N_CREATED = 10

# op codes of the Datastore layer (ExC05.v); storage codes are store_hist.OPCODE
CREATE, UPDATE, DELBUCKET, BUCKETS, GETITEM, VIA, RAW = 20, 21, 22, 23, 24, 25, 26
HOP = {"metadata": 0, "get": 1, "get_by_id": 2, "count": 3, "insert": 4, "insert_many": 5, "delete": 6,
       "replace_last": 7, "replace": 8}
HOPNAME = {v: k for k, v in HOP.items()}
DSNAME = {CREATE: "create_bucket", UPDATE: "update_bucket", DELBUCKET: "delete_bucket", BUCKETS: "buckets",
          GETITEM: "getitem", VIA: "via", RAW: "raw"}


# ---------------------------------------------------------------------------
# labels


def s_of(n):
    return None if n is None else STR[n]


def n_of(s):
    """Label of a string the back end returned (-1: not a string any call supplied)."""
    return None if s is None else (STR.index(s) if s in STR else -1)


def data_of(n):
    return DATA[n]


def label_of_data(d):
    return DATA.index(d) if d in DATA else -1


def created_us(n):
    return BASE + n * SEC + (n % 3) * 137


def created_dt(n):
    z = ZONES[n % len(ZONES)]
    d = dt(created_us(n))
    return d.replace(tzinfo=None) if z is None else d.astimezone(z)


_CREATED_LABEL = {created_us(n): n for n in range(N_CREATED)}


def created_label(s):
    try:
        d = s if isinstance(s, datetime) else datetime.fromisoformat(str(s))
        if d.tzinfo is None:
            d = d.replace(tzinfo=timezone.utc)
        return _CREATED_LABEL.get(us_of_dt(d), -1)
    except (ValueError, TypeError):
        return -1


def meta_w(m):
    return [n_of(m["type"]), n_of(m["client"]), n_of(m["hostname"]), created_label(m["created"]),
            sh.opt(n_of(m["name"])), label_of_data(m["data"])]


# ---------------------------------------------------------------------------
# driving the real Datastore


def canon_out(r):
    """Return value of a Datastore / Bucket / storage method -> wire form of the model's `out`."""
    if r is None:
        return [0]
    if isinstance(r, bool):
        return [4, 1 if r else 0]
    if isinstance(r, list):
        return [2, [sh.ev_w(e) for e in r]]
    if isinstance(r, dict) and "timestamp" in r:
        return [1, [sh.ev_w(r)]]
    if isinstance(r, dict) and "id" in r and "created" in r:
        return [5, n_of(r["id"]), meta_w(r)]
    if isinstance(r, dict):
        return [6, [[n_of(k), meta_w(v)] for k, v in r.items()]]
    raise TypeError(f"unexpected return value {r!r}")


class Run:
    """One Datastore over one storage; remembers every Bucket object it has been handed."""

    def __init__(self, backend, tmpdir, n):
        from aw_datastore import Datastore
        self.backend, self.tmpdir, self.n = backend, tmpdir, n
        self.ds = Datastore(lambda testing, **kw: sh.open_storage(backend, tmpdir, n), testing=True)
        self.st = self.ds.storage_strategy
        self.objs = []            # Bucket objects in order of first sight = order of construction by the Datastore
        self.by_id = {}           # bucket label -> serials of the handles obtained for it, oldest first

    def close(self):
        sh.close_storage(self.backend, self.st, self.tmpdir, self.n)

    def serial(self, obj):
        for i, o in enumerate(self.objs):
            if o is obj:
                return i
        self.objs.append(obj)
        return len(self.objs) - 1

    def handle_out(self, obj):
        from aw_datastore.datastore import Bucket
        if not isinstance(obj, Bucket) or obj.ds is not self.ds:
            raise TypeError(f"not a Bucket of this datastore: {obj!r}")
        k = self.serial(obj)
        b = n_of(obj.bucket_id)
        if k not in self.by_id.setdefault(b, []):
            self.by_id[b].append(k)
        return [1, k, b]

    def pick_handle(self, sel, b):
        """-> (serial for the wire, Bucket object).  'new' = the handle obtained last for this id,
        'old' = the one obtained first (stale after a delete + re-create), 'made' = Bucket(ds, id)
        built by the caller (serial -1; the model ignores the serial)."""
        from aw_datastore.datastore import Bucket
        have = self.by_id.get(b, [])
        if sel == "made" or not have:
            return -1, Bucket(self.ds, s_of(b))
        k = have[-1] if sel == "new" else have[0]
        return k, self.objs[k]

    def call_storage(self, op):
        st = self.st
        code = op[0]
        if code == 0:
            _, b, (ty, cl, ho, cr, na, da) = op
            return st.create_bucket(s_of(b), s_of(ty), s_of(cl), s_of(ho), created_dt(cr).isoformat(),
                                    s_of(sh.unopt(na)), data_of(da) if da != 0 else None)
        if code == 1:
            _, b, ty, cl, ho, na, da = op
            da = sh.unopt(da)
            return st.update_bucket(s_of(b), s_of(sh.unopt(ty)), s_of(sh.unopt(cl)), s_of(sh.unopt(ho)),
                                    s_of(sh.unopt(na)), None if da is None else data_of(da))
        if code == 2:
            return st.delete_bucket(s_of(op[1]))
        if code == 3:
            return st.buckets()
        if code == 4:
            return st.get_metadata(s_of(op[1]))
        if code == 5:
            return st.insert_one(s_of(op[1]), sh.mk_ev(op[2]))
        if code == 11:
            return st.get_events(s_of(op[1]), op[2])
        raise RuntimeError("raw op not supported by the harness: %r" % (op,))

    def call_handle(self, bucket, hop):
        code = hop[0]
        if code == 0:
            return bucket.metadata()
        if code == 1:
            _, limit, s, e = hop
            s, e = sh.unopt(s), sh.unopt(e)
            return bucket.get(limit, None if s is None else dt(s), None if e is None else dt(e))
        if code == 2:
            return ("event", bucket.get_by_id(hop[1]))
        if code == 3:
            _, s, e = hop
            s, e = sh.unopt(s), sh.unopt(e)
            r = bucket.get_eventcount(None if s is None else dt(s), None if e is None else dt(e))
            return ("count", r)
        if code == 4:
            return bucket.insert(sh.mk_ev(hop[1]))
        if code == 5:
            return bucket.insert([sh.mk_ev(w) for w in hop[1]])
        if code == 6:
            return ("deleted", bucket.delete(hop[1]))
        if code == 7:
            return bucket.replace_last(sh.mk_ev(hop[1]))
        if code == 8:
            return bucket.replace(hop[1], sh.mk_ev(hop[2]))
        raise RuntimeError("bad hop")

    def apply(self, op, obj=None):
        """One concrete wire op -> [0, dsout] | [1, errcode]."""
        ds = self.ds
        code = op[0]
        try:
            if code == CREATE:
                _, b, (ty, cl, ho, cr, na, da) = op
                r = ds.create_bucket(s_of(b), s_of(ty), s_of(cl), s_of(ho), created_dt(cr),
                                     name=s_of(sh.unopt(na)), data=data_of(da) if da != 0 else None)
                return [0, self.handle_out(r)]
            if code == UPDATE:
                _, b, ty, cl, ho, na, da = op
                kw = {}
                for key, v in (("type_id", ty), ("client", cl), ("hostname", ho), ("name", na)):
                    if v != []:
                        kw[key] = s_of(v[0])
                if da != []:
                    kw["data"] = data_of(da[0])
                r = ds.update_bucket(s_of(b), **kw)
            elif code == DELBUCKET:
                r = ds.delete_bucket(s_of(op[1]))
            elif code == BUCKETS:
                r = ds.buckets()
            elif code == GETITEM:
                return [0, self.handle_out(ds[s_of(op[1])])]
            elif code == VIA:
                r = self.call_handle(obj, op[2])
                if isinstance(r, tuple):
                    if r[0] == "count":
                        r = [3, int(r[1])]
                    elif r[0] == "event":
                        r = [1, [] if r[1] is None else [sh.ev_w(r[1])]]
                    else:
                        r = [4, 1 if r[1] else 0]
                    return [0, [0, r]]
            elif code == RAW:
                r = self.call_storage(op[1])
            else:
                raise RuntimeError("bad op")
        except Exception as ex:  # noqa: BLE001 -- the error class is the observation
            if isinstance(ex, RuntimeError):
                raise
            return [1, sh.ERR.get(type(ex).__name__, 10)]
        return [0, [0, canon_out(r)]]

    def cache(self):
        return [[n_of(k), self.serial(o)] for k, o in self.ds.bucket_instances.items()]

    def listing(self):
        try:
            return [0, canon_out(self.st.buckets())]
        except Exception as ex:  # noqa: BLE001
            return [1, sh.ERR.get(type(ex).__name__, 10)]

    def nrows(self):
        """Event rows the back end holds, owned by a listed bucket or not (white box: the tables)."""
        if self.backend == "memory":
            return sum(len(v) for v in self.st.db.values())
        if self.backend == "sqlite":
            return self.st.conn.execute("SELECT count(*) FROM events").fetchone()[0]
        from aw_datastore.storages.peewee import EventModel
        return EventModel.select().count()

    def dump(self, univ):
        out = []
        for b in univ:
            try:
                m = self.st.get_metadata(s_of(b))
            except ValueError:
                out.append([])
                continue
            except Exception as ex:  # noqa: BLE001 -- reported by the oracle
                out.append(["raised", "get_metadata", type(ex).__name__])
                continue
            try:
                evs = sorted((sh.ev_w(e) for e in self.st.get_events(s_of(b), -1)), key=lambda w: (w[0], w[1:]))
            except Exception as ex:  # noqa: BLE001
                out.append(["raised", "get_events", type(ex).__name__])
                continue
            out.append([[meta_w(m), evs]])
        return out


def concretise(run, sop, univ, views, seen):
    """Symbolic op -> (wire op, Bucket object or None); None when an event handle has nothing to name."""
    name = sop[0]

    def ev(e, b):
        h, t, d, x = e
        if h is None:
            return [[], t, d, x]
        i = sh.resolve(h, b, univ, views, seen)
        return None if i is None else [[i], t, d, x]
    if name == "create":
        ty, cl, ho, cr, na, da = sop[2]
        return [CREATE, sop[1], [ty, cl, ho, cr, sh.opt(na), da]], None
    if name == "update":
        return [UPDATE, sop[1]] + [sh.opt(v) for v in sop[2:7]], None
    if name == "delete_bucket":
        return [DELBUCKET, sop[1]], None
    if name == "buckets":
        return [BUCKETS], None
    if name == "getitem":
        return [GETITEM, sop[1]], None
    if name == "raw":
        inner = sop[1]
        if inner[0] == "create":
            ty, cl, ho, cr, na, da = inner[2]
            return [RAW, [0, inner[1], [ty, cl, ho, cr, sh.opt(na), da]]], None
        if inner[0] == "insert":
            return [RAW, [5, inner[1], ev(inner[2], inner[1])]], None
        if inner[0] == "get":
            return [RAW, [11, inner[1], inner[2], [], []]], None
        return [RAW, [sh.OPCODE[inner[0]]] + list(inner[1:])], None
    if name == "via":
        _, sel, b, hname = sop[:4]
        args = sop[4:]
        k, obj = run.pick_handle(sel, b)
        code = HOP[hname]
        if hname == "metadata":
            hop = [code]
        elif hname == "get":
            hop = [code, args[0], sh.opt(args[1]), sh.opt(args[2])]
        elif hname == "count":
            hop = [code, sh.opt(args[0]), sh.opt(args[1])]
        elif hname in ("get_by_id", "delete"):
            i = sh.resolve(args[0], b, univ, views, seen)
            if i is None:
                return None, None
            hop = [code, i]
        elif hname in ("insert", "replace_last"):
            e = ev(args[0], b)
            if e is None:
                return None, None
            hop = [code, e]
        elif hname == "insert_many":
            es = [ev(e, b) for e in args[0]]
            hop = [code, [e for e in es if e is not None]]
        elif hname == "replace":
            i = sh.resolve(args[0], b, univ, views, seen)
            if i is None:
                return None, None
            hop = [code, i, ev(args[1], b)]
        else:
            raise ValueError(hname)
        return [VIA, [k, b], hop], obj
    raise ValueError(name)


def run_history(backend, sym_ops, univ, tmpdir, n, quiet_from=None):
    """Calls at index >= quiet_from (an index into sym_ops) are made WITHOUT the dump after them (the dump
    reads through get_events, which commits on sqlite): their step is [res, cache] only - the result and the
    pure-Python bucket_instances dict -, handles are resolved against the last dump taken, and "final" holds
    [listing, nrows, view...] taken once after the last call (harness/c05_quiet.py)."""
    run = Run(backend, tmpdir, n)
    try:
        views = run.dump(univ)
        seen = set()
        ops, steps = [], []
        quiet_at = None
        for idx, sop in enumerate(sym_ops):
            op, obj = concretise(run, sop, univ, views, seen)
            if op is None:
                continue
            if quiet_from is not None and idx >= quiet_from:
                if quiet_at is None:
                    quiet_at = len(ops)
                res = run.apply(op, obj)
                ops.append(op)
                steps.append([res, run.cache()])
                continue
            res = run.apply(op, obj)
            views = run.dump(univ)
            ops.append(op)
            steps.append([res, run.cache(), run.listing(), run.nrows()] + views)
            if any(v and v[0] == "raised" for v in views):
                break                     # the store can no longer be described: the oracle reports it
            for v in views:
                seen.update(sh.live_ids(v))
        out = {"ops": ops, "steps": steps}
        if quiet_from is not None:
            out["quiet_at"] = len(ops) if quiet_at is None else quiet_at
            out["final"] = [run.listing(), run.nrows()] + run.dump(univ)
        return out
    finally:
        run.close()


_WORK = {}


def _worker(args):
    lo, hi = args
    tmpdir = tempfile.mkdtemp(prefix="awc05-", dir=_WORK["tmp"])
    out = []
    try:
        for n in range(lo, hi):
            h = _WORK["hist"][n]
            sym, univ, qf = h[0], h[1], (h[2] if len(h) > 2 else None)
            out.append({be: run_history(be, sym, univ, tmpdir, n, qf) for be in sh.BACKENDS})
    finally:
        shutil.rmtree(tmpdir, ignore_errors=True)
    return lo, out


def run_impl_batch(histories, procs=None):
    """One {backend: run} per history.  Forked workers; each keeps one PeeweeStorage open at a time."""
    procs = procs or min(12, os.cpu_count() or 2)
    tmp = tempfile.mkdtemp(prefix="awc05-batch-")
    _WORK.update(hist=histories, tmp=tmp)
    n = len(histories)
    step = max(1, min(50, (n + procs * 4 - 1) // (procs * 4)))
    jobs = [(i, min(n, i + step)) for i in range(0, n, step)]
    results = [None] * n
    try:
        if procs == 1 or n <= 2:
            parts = [_worker(j) for j in jobs]
        else:
            ctx = multiprocessing.get_context("fork")
            with ctx.Pool(procs) as pool:
                parts = pool.map(_worker, jobs, chunksize=1)
        for lo, out in parts:
            results[lo:lo + len(out)] = out
    finally:
        shutil.rmtree(tmp, ignore_errors=True)
    return results


# ---------------------------------------------------------------------------
# the model side


def canon_model_step(step):
    res, cache, listing, nrows, views = step[0], step[1], step[2], step[3], step[4:]
    out = []
    for v in views:
        if v == []:
            out.append([])
        else:
            m, evs = v[0]
            out.append([[m, sorted(evs, key=lambda w: (w[0], w[1:]))]])
    return [res, cache, listing, nrows] + out


def run_model_batch(runs):
    cases = [sx([sh.BACKEND_CODE[be], univ, ops]) for be, univ, ops in runs]
    outs = common.run_driver("C05", cases)
    return [[canon_model_step(s) for s in o] if o != [-999] else None for o in outs]


# ---------------------------------------------------------------------------
# the property statement, decided on the implementation's own outputs


FIELDS = ("type", "client", "hostname", "created", "name", "data")


class Oracle:
    """Independent reference: a Python dict  bucket label -> {'given': metadata as supplied by the
    calls (name None = never given), 'events': the dump taken after the last event write}.  It is
    advanced from the CALLS alone (never from what the back end lists), and compared with what the
    back end lists after every call."""

    def __init__(self, univ):
        self.univ = univ
        self.ref = {}                 # insertion-ordered, like the keyed map
        self.unknown = set()          # ids whose reference was lost to a call outside the quantifier
        self.raw_delete = False       # a bucket was deleted behind the Datastore's back
        self.flags = set()

    @staticmethod
    def meta_agrees(given, got):
        ty, cl, ho, cr, na, da = given
        return (got[0] == ty and got[1] == cl and got[2] == ho and got[3] == cr and got[5] == da
                and (na in (None, 0) or got[4] == [na]))

    def lifecycle(self, op):
        """(kind, bucket, payload) of the storage-level lifecycle call behind a wire op, or None."""
        code = op[0]
        if code == RAW:
            inner = op[1]
            if inner[0] == 0:
                return "create", inner[1], inner[2]
            if inner[0] == 1:
                return "update", inner[1], inner[2:7]
            if inner[0] == 2:
                return "delete", inner[1], None
            return None
        if code == CREATE:
            return "create", op[1], op[2]
        if code == UPDATE:
            return "update", op[1], op[2:7]
        if code == DELBUCKET:
            return "delete", op[1], None
        return None

    def step(self, op, res, before, after):
        """before/after = [cache, listing, nrows, views...]; returns None, "skip" (call outside the
        property's quantifier: reference resynchronised) or a description of the violation."""
        univ = self.univ
        cache0, listing0, views0 = before[0], before[1], before[3:]
        cache1, listing1, views1 = after[0], after[1], after[3:]
        for b, v in zip(univ, views1):
            if v and v[0] == "raised":
                return f"after the call, storage.{v[1]} of bucket {b} raises {v[2]}"
        if set(x[0] for x in (listing1[1][1] if listing1[0] == 0 else [])) <= set(univ):
            held = sum(len(v[0][1]) for v in views1 if v != [])
            if after[2] != held:
                return (f"the back end holds {after[2]} event rows, the listed buckets own {held}: "
                        "rows of a deleted bucket were left behind")
        code = op[0]
        ok = res[0] == 0
        err = None if ok else sh.ERRNAME.get(res[1], "other")
        exists0 = {b: v != [] for b, v in zip(univ, views0)}
        unchanged = (listing0 == listing1 and views0 == views1)
        life = self.lifecycle(op)
        verdict = None

        if listing1[0] != 0 or listing1[1][0] != 6:
            return f"buckets() failed after the call: {listing1}"
        listed1 = listing1[1][1]

        if life is not None:
            kind, b, payload = life
            via_ds = code != RAW
            if kind == "create":
                if exists0.get(b, False):
                    # creating an id that already exists: outside the quantifier
                    self.resync(b, views1, listed1)
                    return "skip"
                given = [payload[0], payload[1], payload[2], payload[3], sh.unopt(payload[4]), payload[5]]
                if not ok:
                    return f"create_bucket of an absent id raised {err}"
                if via_ds and (res[1][0] != 1 or res[1][2] != b):
                    return f"create_bucket returned {res[1]}, not a handle for bucket {b}"
                self.ref[b] = {"given": given, "events": []}
                self.unknown.discard(b)
                v = views1[univ.index(b)]
                if v == []:
                    return "created bucket cannot be described"
                if v[0][1] != []:
                    self.flags.add("leftover")
                    return f"created bucket {b} is not empty: {v[0][1]}"
                if not self.meta_agrees(given, v[0][0]):
                    return f"created bucket describes itself as {v[0][0]}, given {given}"
                if listed1[:-1] != listing0[1][1] or listed1[-1][0] != b:
                    return f"listing after create is not the old listing plus the new id: {listed1}"
                verdict = self.frame(b, views0, views1)
            elif kind == "update":
                vals = [sh.unopt(v) for v in payload]
                if not exists0.get(b, False):
                    if ok or err != "ValueError":
                        return f"update_bucket of a missing id: {'returned' if ok else 'raised ' + err}, expected ValueError"
                    if not unchanged or cache0 != cache1:
                        return "update_bucket of a missing id changed something"
                    return None
                if any(v == 0 for v in vals if v is not None):
                    self.resync(b, views1, listed1)
                    return "skip"                       # falsy values: outside the quantifier
                if not ok and not (self.backend_all_none_raises(vals, err)):
                    return f"update_bucket of an existing bucket raised {err}"
                if b in self.ref:
                    g = self.ref[b]["given"]
                    for idx, v in zip((0, 1, 2, 4, 5), vals):
                        if v is not None:
                            g[idx] = v
                m0 = views0[univ.index(b)][0][0]
                exp = list(m0)
                for idx, v in zip((0, 1, 2, 4, 5), vals):
                    if v is not None:
                        exp[idx] = [v] if idx == 4 else v
                v1 = views1[univ.index(b)]
                if v1 == [] or v1[0][0] != exp:
                    return f"update_bucket({vals}): metadata {m0} became {v1[0][0] if v1 else None}, expected {exp}"
                if v1[0][1] != views0[univ.index(b)][0][1]:
                    return "update_bucket changed the bucket's events"
                if [x[0] for x in listed1] != [x[0] for x in listing0[1][1]]:
                    return "update_bucket changed the set or order of listed ids"
                verdict = self.frame(b, views0, views1)
            else:
                if not exists0.get(b, False):
                    if ok or err != "ValueError":
                        return f"delete_bucket of a missing id: {'returned' if ok else 'raised ' + err}, expected ValueError"
                    if not unchanged:
                        return "delete_bucket of a missing id changed something"
                    if [c for c in cache0 if c[0] != b] != cache1:
                        return "delete_bucket of a missing id changed the cache of other ids"
                    return None
                if not ok:
                    return f"delete_bucket of an existing bucket raised {err}"
                if views1[univ.index(b)] != []:
                    return "deleted bucket can still be described"
                if listed1 != [x for x in listing0[1][1] if x[0] != b]:
                    return f"listing after delete is not the old listing minus the id: {listed1}"
                if views0[univ.index(b)][0][1]:
                    self.flags.add("deleted-with-events:%d" % b)
                self.ref.pop(b, None)
                self.unknown.discard(b)
                if not via_ds:
                    self.raw_delete = True
                elif any(c[0] == b for c in cache1):
                    return "delete_bucket left the handle in bucket_instances"
                verdict = self.frame(b, views0, views1)
        elif code == BUCKETS or (code == RAW and op[1][0] == 3):
            if not ok or res[1] != [0, listing0[1]]:
                return f"buckets() returned {res}, the storage lists {listing0[1]}"
            if not unchanged or cache0 != cache1:
                return "buckets() changed something"
        elif code == GETITEM:
            b = op[1]
            cached = [c for c in cache0 if c[0] == b]
            if not exists0.get(b, False) and not (cached and self.raw_delete):
                if ok or err != "KeyError":
                    return f"lookup of a missing id: {'returned ' + str(res[1]) if ok else 'raised ' + err}, expected KeyError"
                if not unchanged or cache0 != cache1:
                    return "lookup of a missing id changed something"
            elif exists0.get(b, False):
                if not ok or res[1][0] != 1 or res[1][2] != b:
                    return f"lookup of an existing id gave {res}"
                if cached and res[1][1] != cached[0][1]:
                    return "lookup did not return the cached handle"
                if not unchanged:
                    return "lookup changed the store"
        elif code == VIA or code == RAW:
            if code == VIA:
                b, hcode = op[1][1], op[2][0]
            else:
                b, hcode = op[1][1], {4: 0, 5: 4, 11: 1}[op[1][0]]
            if hcode == 0:
                if not exists0.get(b, False):
                    if ok or err != "ValueError":
                        return f"metadata() of a missing id: {'returned' if ok else 'raised ' + err}, expected ValueError"
                    if not unchanged or cache0 != cache1:
                        return "metadata() of a missing id changed something"
                else:
                    if not ok or res[1] != [0, [5, b, views0[univ.index(b)][0][0]]]:
                        return f"metadata() returned {res}, the bucket is {views0[univ.index(b)][0][0]}"
                    if not unchanged:
                        return "metadata() changed something"
            else:
                # event reads / writes: C02/C03/C04 own what happens to the events; the keyed map
                # (ids, order, metadata) must not move
                if listing0 != listing1:
                    return f"{HOPNAME[hcode]} through a handle changed the listing"
                if not exists0.get(b, False) and views0 != views1:
                    return f"{HOPNAME[hcode]} on a missing bucket changed a bucket"
                if cache0 != cache1:
                    return f"{HOPNAME[hcode]} through a handle changed bucket_instances"
                if hcode == 1 and exists0.get(b, False) and op[0] == VIA and op[2][2:] == [[], []] and op[2][1] < 0:
                    got = res[1][1][1] if ok else None
                    want = views0[univ.index(b)][0][1]
                    if got is None or sorted(got, key=lambda w: (w[0], w[1:])) != want:
                        return f"get() through a handle returned {got}, the bucket holds {want}"
                if b in self.ref and exists0.get(b, False):
                    self.ref[b]["events"] = views1[univ.index(b)][0][1]
        if verdict is not None:
            return verdict
        return self.compare(listed1, views1, cache1)

    def backend_all_none_raises(self, vals, err):
        # update_bucket() without any field: sqlite raises ValueError (zip(*[])); nothing changes
        return all(v is None for v in vals) and err == "ValueError"

    def frame(self, b, views0, views1):
        for bb, v0, v1 in zip(self.univ, views0, views1):
            if bb != b and v0 != v1:
                return f"a lifecycle call on bucket {b} changed bucket {bb}"
        return None

    def resync(self, b, views1, listed1):
        self.unknown.add(b)
        v = views1[self.univ.index(b)]
        if v == []:
            self.ref.pop(b, None)
        else:
            m = v[0][0]
            self.ref[b] = {"given": [m[0], m[1], m[2], m[3], sh.unopt(m[4]), m[5]], "events": v[0][1]}

    def compare(self, listed1, views1, cache1):
        """What the back end lists = the reference keyed map."""
        ids = [x[0] for x in listed1]
        if len(set(ids)) != len(ids):
            return f"an id is listed twice: {ids}"
        if ids != list(self.ref):
            return f"listed ids {ids}, the keyed map holds {list(self.ref)}"
        for (b, m) in listed1:
            r = self.ref[b]
            if not self.meta_agrees(r["given"], m):
                return f"bucket {b} is listed as {m}, the keyed map holds {r['given']}"
            v = views1[self.univ.index(b)]
            if v == [] or v[0][0] != m:
                return f"bucket {b}: get_metadata {v} and buckets() {m} differ"
            if v[0][1] != r["events"]:
                return f"bucket {b} holds {v[0][1]}, expected {r['events']} (events since its creation)"
        for b, v in zip(self.univ, views1):
            if v != [] and b not in ids:
                return f"bucket {b} can be described but is not listed"
        if not self.raw_delete:
            for b, _ in cache1:
                if b not in ids:
                    return f"bucket_instances holds a handle for {b}, which does not exist"
        return None


# ---------------------------------------------------------------------------
# generators (symbolic histories; event ids are resolved against the back end while it runs)


def E(t, d=SEC, x=1, h=None):
    return [h, BASE + t * SEC, d, x]


def lifecycle_corpus():
    out = []
    univ = [1, 2, 3, MISSING]
    k = 0
    for na in (None, 8, 1):
        for da in (0, 1, 2, 3, 4):
            for cr in range(5):
                k += 1
                if (k + cr) % 3 and not (na == 8 and da == 2):
                    continue
                m = [4, 5, 6, cr, na, da]
                m2 = [5, 4, 9, (cr + 3) % N_CREATED, 9 if na is None else None, (da + 1) % 5]
                ops = [["getitem", 1], ["create", 1, m], ["via", "new", 1, "metadata"], ["buckets"],
                       ["via", "new", 1, "get", -1, None, None],
                       ["via", "new", 1, "insert", E(0)], ["via", "new", 1, "insert_many", [E(1, x=2), E(2, 0, 3)]],
                       ["create", 2, m2], ["via", "new", 2, "insert", E(0, x=4)]]
                for i in range(5):
                    vals = [None] * 5
                    vals[i] = [8, 9, 5, 6, 3][i]
                    ops += [["update", 1] + vals, ["via", "made", 1, "metadata"]]
                ops += [["update", 1, 6, 6, 6, 4, 4], ["buckets"], ["update", 1, None, None, None, None, None],
                        ["getitem", 1], ["via", "old", 1, "get", -1, None, None],
                        ["delete_bucket", 1], ["getitem", 1], ["via", "old", 1, "metadata"],
                        ["via", "old", 1, "get", -1, None, None], ["via", "old", 1, "insert", E(5, x=5)],
                        ["via", "old", 1, "count", None, None], ["update", 1, 4, None, None, None, None],
                        ["delete_bucket", 1], ["buckets"],
                        ["create", 1, m2], ["via", "old", 1, "get", -1, None, None], ["via", "new", 1, "get", -1, None, None],
                        ["via", "old", 1, "count", None, None], ["via", "old", 1, "insert", E(3, x=1)],
                        ["via", "new", 1, "get", -1, None, None], ["via", "old", 1, "metadata"], ["getitem", 1],
                        ["via", "new", 2, "get", -1, None, None], ["buckets"]]
                out.append((ops, univ))
    # every call on an id that does not exist, with and without other buckets around
    m = [1, 2, 3, 0, None, 0]
    for pre in ([], [["create", 1, m], ["via", "new", 1, "insert", E(0)], ["create", 2, m], ["delete_bucket", 2]]):
        for b in (MISSING, 2):
            calls = [["getitem", b], ["via", "made", b, "metadata"], ["update", b, 4, None, None, None, None],
                     ["update", b, None, None, None, None, None], ["update", b, 4, 5, 6, 8, 1], ["delete_bucket", b],
                     ["via", "made", b, "get", -1, None, None], ["via", "made", b, "get", 0, None, None],
                     ["via", "made", b, "insert", E(0)], ["via", "made", b, "insert_many", [E(0), E(1)]],
                     ["via", "made", b, "count", None, None], ["via", "made", b, "replace_last", E(1)],
                     ["via", "made", b, "get_by_id", ["dead", 0]], ["via", "made", b, "delete", ["dead", 0]],
                     ["via", "made", b, "replace", ["foreign", 0], E(1)], ["buckets"]]
            for i in range(len(calls)):
                out.append((pre + calls[i:i + 2] + [["buckets"]], univ))
    # key / rowid reuse: delete the newest bucket while it holds events, create ANOTHER id, then the old one
    for first, second in ((2, 3), (2, 2), (3, 2)):
        ops = [["create", 1, m], ["create", first, m], ["via", "new", first, "insert_many", [E(0), E(1, x=2), E(2, x=3)]],
               ["via", "new", 1, "insert", E(0, x=4)], ["delete_bucket", first], ["create", second, [4, 5, 6, 1, 8, 2]],
               ["via", "new", second, "get", -1, None, None], ["via", "old", first, "get", -1, None, None],
               ["via", "new", second, "insert", E(4, x=5)], ["via", "new", second, "get", -1, None, None],
               ["create", first if first != second else 3, m], ["via", "new", first, "get", -1, None, None],
               ["delete_bucket", 1], ["create", 1, m], ["via", "old", 1, "get", -1, None, None], ["buckets"]]
        out.append((ops, univ))
    # delete every bucket (tables empty: peewee keys restart at 1), create again
    out.append(([["create", 1, m], ["create", 2, m], ["via", "new", 1, "insert", E(0)], ["via", "new", 2, "insert", E(1)],
                 ["delete_bucket", 2], ["delete_bucket", 1], ["buckets"], ["create", 2, m],
                 ["via", "new", 2, "get", -1, None, None], ["create", 1, m], ["via", "old", 1, "get", -1, None, None],
                 ["via", "new", 1, "count", None, None], ["buckets"]], univ))
    # windowed reads through a handle (Bucket.get rounds the window outwards to whole milliseconds)
    q = 250_400
    out.append(([["create", 1, m], ["via", "new", 1, "insert_many", [E(0), E(2), E(4, 0)]],
                 ["via", "new", 1, "get", -1, BASE + SEC + q, None], ["via", "new", 1, "get", -1, None, BASE + 3 * SEC + q],
                 ["via", "new", 1, "get", 2, BASE + q, BASE + 4 * SEC + q], ["via", "new", 1, "count", BASE + q, None]], univ))
    return out


def raw_corpus():
    """Calls that go to ds.storage_strategy behind the Datastore's back: the cache is then only a
    name table (C05_cache_stale_after_raw_delete)."""
    m = [1, 2, 3, 0, None, 0]
    univ = [1, 2, MISSING]
    return [
        ([["create", 1, m], ["getitem", 1], ["raw", ["delete_bucket", 1]], ["getitem", 1], ["via", "new", 1, "metadata"],
          ["via", "new", 1, "get", -1, None, None], ["delete_bucket", 1], ["getitem", 1]], univ),
        ([["raw", ["create", 1, m]], ["getitem", 1], ["via", "new", 1, "insert", E(0)], ["raw", ["get", 1, -1]],
          ["raw", ["delete_bucket", 1]], ["raw", ["create", 1, m]], ["getitem", 1], ["via", "new", 1, "get", -1, None, None],
          ["raw", ["buckets"]], ["raw", ["metadata", 1]], ["raw", ["metadata", 2]]], univ),
    ]


def rnd_meta(rng):
    return [rng.randrange(1, 10), rng.randrange(1, 10), rng.randrange(1, 10), rng.randrange(0, N_CREATED),
            rng.choice([None, None, rng.randrange(1, 10)]), rng.choice([0, 0, 1, 2, 3, 4])]


def gen_history(rng, max_ops=45):
    nb = rng.choice([1, 2, 2, 3, 3])
    buckets = list(range(1, nb + 1))
    univ = buckets + [MISSING]
    pool = sorted(rng.sample(range(0, 9), 5))
    n_ops = rng.randrange(1, max_ops + 1)
    ops = []
    exists = set()
    ever = set()
    count = {b: 0 for b in univ}
    while len(ops) < n_ops:
        r = rng.random()
        stray = rng.random() < 0.12          # address any id, existing or not
        b = rng.choice(univ) if stray or not exists else rng.choice(sorted(exists))
        sel = rng.choice(["new", "new", "old", "old", "made"])
        if not exists and not stray or r < 0.10:
            cand = [x for x in buckets if x not in exists]
            if cand:
                b = rng.choice(cand)
                ops.append(["create", b, rnd_meta(rng)])
                exists.add(b)
                ever.add(b)
                count[b] = 0
                if rng.random() < 0.5:
                    ops.append(["via", rng.choice(["new", "old"]), b, "get", -1, None, None])
            continue
        if r < 0.115:
            # outside the property's quantifier (kept for the correspondence run): create an id that
            # exists, update with falsy values
            if rng.random() < 0.5 and b != MISSING:
                ops.append(["create", b, rnd_meta(rng)])
                exists.add(b)
                count[b] = 0
            else:
                ops.append(["update", b] + [rng.choice([None, 0, rng.randrange(1, 10)]) for _ in range(4)] + [rng.choice([None, 0, 1])])
        elif r < 0.20:
            ops.append(["delete_bucket", b])
            exists.discard(b)
            count[b] = 0
        elif r < 0.32:
            vals = [rng.choice([None, None, rng.randrange(1, 10)]) for _ in range(4)] + [rng.choice([None, None, 1, 2, 3, 4])]
            ops.append(["update", b] + vals)
        elif r < 0.38:
            ops.append(["getitem", b])
        elif r < 0.44:
            ops.append(["via", sel, b, "metadata"])
        elif r < 0.48:
            ops.append(["buckets"])
        elif r < 0.64:
            ops.append(["via", sel, b, "insert", sh.rnd_ev(rng, pool)])
            count[b] += 1
        elif r < 0.72:
            evs = [sh.rnd_ev(rng, pool, ["live", rng.randrange(0, 4)] if (count[b] and rng.random() < 0.3) else None)
                   for _ in range(rng.choice([0, 1, 2, 3]))]
            ops.append(["via", sel, b, "insert_many", evs])
            count[b] += len(evs)
        elif r < 0.77:
            if count[b]:
                ops.append(["via", sel, b, "replace", ["live", rng.randrange(0, 4)], sh.rnd_ev(rng, pool)])
        elif r < 0.82:
            if count[b]:
                ops.append(["via", sel, b, "replace_last", sh.rnd_ev(rng, pool)])
        elif r < 0.87:
            ops.append(["via", sel, b, "delete", [rng.choice(["live", "live", "dead"]), rng.randrange(0, 4)]])
        elif r < 0.90:
            ops.append(["via", sel, b, "get_by_id", [rng.choice(["live", "live", "gone"]), rng.randrange(0, 4)]])
        elif r < 0.97:
            ops.append(["via", sel, b, "get", rng.choice([-1, -1, -1, 1, 2, 0]), None, None])
        else:
            ops.append(["via", sel, b, "count", None, None])
    return ops, univ


def describe(op):
    code = op[0]
    if code == VIA:
        return f"Bucket#{op[1][0]}({op[1][1]}).{HOPNAME[op[2][0]]}{op[2][1:]}"
    if code == RAW:
        return "storage." + sh.describe(op[1])
    return f"ds.{DSNAME[code]}{op[1:]}"


# ---------------------------------------------------------------------------


def main(argv=None):
    ck = Check("C05", argv)
    common.setup_impl_env()
    ck.prove(extra_targets=tieb_stores.STORES_DS[0], gen_kernels=tieb_stores.STORES_DS[1])   # ties A + B
    have_driver = ck.driver("ExC05")

    n_random = 700 if ck.tier == "quick" else 35000
    corpus = lifecycle_corpus()
    raws = raw_corpus()
    hists = corpus + raws + [gen_history(ck.rng) for _ in range(n_random)]
    ck.count("histories:lifecycle-corpus", len(corpus))
    ck.count("histories:bypassing-the-datastore", len(raws))
    ck.count("histories:random", n_random)
    # second stream: histories whose tail is not read back call by call (harness/c05_quiet.py)
    from . import c05_quiet as cq
    qcorpus = cq.quiet_corpus()
    qhists = qcorpus + [cq.gen_quiet(ck.rng) for _ in range(300 if ck.tier == "quick" else 15000)]
    ck.count("histories:unread-tail-corpus", len(qcorpus))
    ck.count("histories:unread-tail-random", len(qhists) - len(qcorpus))
    # (the scenario stream forks workers: it runs BEFORE the big batch, while this process is still small - in the
    #  thorough tier the batch results take ~10 GB, and forked children of such a parent were killed for memory)
    # --- (c) round 6: an engine call that fails once inside a bucket-level call and a caller that carries on (re-creates,
    #     creates another id, repeats the call); two Datastores on one file; two threads (harness/store_sched.py)
    try:
        from . import store_sched as ss
        quick = ck.tier == "quick"
        big = 10 ** 9
        scns = (ss.pick(ck.rng, ss.fault_scenarios(), 60 if quick else big, must=lambda s: s.get("bucket_level"))
                + ss.object_scenarios(ck.rng, quick)
                + ss.pick(ck.rng, ss.thread_scenarios(backends=("peewee",)), 40 if quick else big,
                          must=lambda s: s["steps"][-2]["a"]["op"][0] in ("create", "update", "delete_bucket")))
        ss.check(ck, "C05", ss.C05_KINDS, scns, "scenario")
    except Exception as ex:  # noqa: BLE001 -- reported, never hidden
        ck.disagreement("scenarios", f"the fault / two-object / two-thread scenarios could not run: {type(ex).__name__}: {ex}",
                        {"kind": "scenario-stream"})

    all_results = run_impl_batch(hists + qhists)
    results, qresults = all_results[:len(hists)], all_results[len(hists):]

    # --- the property statement on the implementation
    for (sym, univ), r in zip(hists, results):
        for be in sh.BACKENDS:
            run = r[be]
            orc = Oracle(univ)
            before = [[], [0, [6, []]], 0] + [[] for _ in univ]
            recreated = False
            for j, (op, step) in enumerate(zip(run["ops"], run["steps"])):
                res, after = step[0], step[1:]
                verdict = orc.step(op, res, before, after)
                name = DSNAME[op[0]] if op[0] not in (VIA, RAW) else (
                    "Bucket." + HOPNAME[op[2][0]] if op[0] == VIA else "storage." + sh.OPNAME[op[1][0]])
                ck.count(f"{be}:{name}:" + ("outside-quantifier" if verdict == "skip" else
                                            "ok" if res[0] == 0 else sh.ERRNAME.get(res[1], "err")))
                if verdict not in (None, "skip"):
                    ck.failing_input(f"C05:{be}:{name}:{verdict.split(':')[0][:60]}", f"{be}: {verdict}",
                                     {"backend": be, "history": [describe(o) for o in run["ops"][:j + 1]],
                                      "wire_ops": run["ops"][:j + 1], "universe": univ,
                                      "strings": STR, "data": DATA,
                                      "before": before, "after": after, "result": res,
                                      "how": "harness.c05.Run(backend, tmpdir, 0).apply(op) for each wire op, in order "
                                             "(labels: harness.c05.STR / DATA / created_dt)"})
                    break
                if op[0] == CREATE and res[0] == 0 and ("deleted-with-events:%d" % op[1]) in orc.flags:
                    recreated = True
                before = after
            ck.note_case([be, run["ops"]], nontrivial=recreated)
            if recreated:
                ck.count(f"{be}:histories-with-delete-of-a-non-empty-bucket-then-re-create")
            ck.count("history-length-%02d-%02d" % (len(run["ops"]) // 10 * 10, len(run["ops"]) // 10 * 10 + 9))
        if len(ck.samples) < 4 and len(r["peewee"]["ops"]) >= 10:
            ck.sample({"backend": "peewee", "history": [describe(o) for o in r["peewee"]["ops"][:14]],
                       "final": r["peewee"]["steps"][-1]})

    # --- the property statement on the histories with an unread tail
    for (sym, univ, qf), r in zip(qhists, qresults):
        for be in sh.BACKENDS:
            run = r[be]
            qa = run["quiet_at"]
            tail = run["ops"][qa:]
            for op, step in zip(tail, run["steps"][qa:]):
                name = DSNAME[op[0]] if op[0] != VIA else "Bucket." + HOPNAME[op[2][0]]
                ck.count(f"{be}:unread:{name}:" + ("ok" if step[0][0] == 0 else sh.ERRNAME.get(step[0][1], "err")))
            writes = [i for i, o in enumerate(tail) if cq.is_event_write(o)]
            pend = bool(writes) and any(cq.is_bucket_level(o) for o in tail[writes[0] + 1:])
            ck.note_case([be, "unread-tail", run["ops"]], nontrivial=pend)
            ck.count(f"{be}:unread-tail-length-{len(tail):02d}")
            if pend:
                ck.count(f"{be}:unread-tails-with-a-bucket-level-call-after-a-pending-event-write")
            verdict = cq.judge(run, univ)
            if verdict is None:
                continue
            j, text = verdict
            msym, mqf, mrun = sym, qf, run
            small = cq.minimise(be, sym, univ, qf) if len(ck.violations) < 3 else None   # (a failing tree only)
            if small is not None:
                msym, mqf, mrun, (j, text) = small
            mqa = mrun["quiet_at"]
            ck.failing_input(f"C05:{be}:unread-tail:{cq.tag(text)[:60]}", f"{be}: {text}",
                             {"backend": be, "history": [describe(o) for o in mrun["ops"]],
                              "wire_ops": mrun["ops"], "universe": univ, "unread_from_call": mqa, "blamed_call": j,
                              "results_of_the_unread_calls": [s[0] for s in mrun["steps"][mqa:]],
                              "final_listing_nrows_views": mrun["final"], "strings": STR, "data": DATA,
                              "how": "harness.c05.Run(backend, tmpdir, 0).apply(op) for each wire op, in order; after each "
                                     "call before unread_from_call dump every bucket (Run.dump), from there on no read "
                                     "at all, one Run.dump at the end (= harness.c05.run_history(..., quiet_from)); "
                                     "SqliteStorage with the default enable_lazy_commit=True"})

    # --- correspondence with the model
    if have_driver:
        allh = [(h[1], r) for h, r in zip(hists + qhists, all_results)]
        flat = [(be, univ, r[be]["ops"]) for univ, r in allh for be in sh.BACKENDS]
        model = run_model_batch(flat)
        k = 0
        for univ, r in allh:
            for be in sh.BACKENDS:
                mo = model[k]
                k += 1
                steps = r[be]["steps"]
                if mo is None or len(mo) != len(steps):
                    ck.disagreement(be, "driver could not decode the history", {"ops": r[be]["ops"]})
                    continue
                if "final" in r[be] and steps and mo[-1][2:] != r[be]["final"] \
                        and all(ms[:len(is_)] == is_ for ms, is_ in zip(mo, steps)):
                    ck.disagreement(be, f"after {len(steps) - r[be]['quiet_at']} calls that were not read back: the model's "
                                        f"final listing / row count / buckets and {be}'s differ",
                                    {"backend": be, "history": [describe(o) for o in r[be]["ops"]],
                                     "wire_ops": r[be]["ops"], "universe": univ, "unread_from_call": r[be]["quiet_at"],
                                     "model": mo[-1][2:], "impl": r[be]["final"]})
                    continue
                for j, (ms, is_) in enumerate(zip(mo, steps)):
                    if len(is_) == 2:
                        ms = ms[:2]                  # a call that was not read back: result and cache only
                    if ms != is_:
                        ck.disagreement(be, f"call {j} {describe(r[be]['ops'][j])}: model and {be} differ",
                                        {"backend": be, "history": [describe(o) for o in r[be]["ops"][:j + 1]],
                                         "wire_ops": r[be]["ops"][:j + 1], "universe": univ, "model": ms, "impl": is_})
                        break
    ck.assumptions += [
        "strings / data dicts / creation instants enter the models as labels (0 = the falsy value of its kind); "
        "creation instants are compared as instants (the harness parses what the back end returns)",
        "a Bucket object is identified with (serial, bucket_id); serial = order of construction by the Datastore, "
        "observed through object identity in ds.bucket_instances",
        "dumps are taken through the storage API (get_metadata + get_events(-1)) and compared sorted by id; "
        "ds.buckets() is compared in dict order",
        "event reads/writes through handles are compared with the models exactly, but their meaning is C02/C03/C04's; "
        "here they only must not move the keyed map",
        "unread tails: the reference of harness/c05_quiet.py is advanced from the calls alone (events by the id the "
        "insert returned / id-less multiset for bulk inserts); the models carry no transaction state (the code has no "
        "rollback), so a discarded pending write shows as a difference of the final dump",
    ]
    return ck.finish(RULE)


if __name__ == "__main__":
    sys.exit(main())
