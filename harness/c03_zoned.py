"""C03: a window is a pair of INSTANTS - the zone in which the caller writes them must not matter.

For a small fixed bucket on each back end, every window is asked twice through Datastore/Bucket: once with its edges
as aware datetimes in a zone with offset changes (tz database zones and harness/evutil.SynthZone; both readings of a
repeated wall time, the hour after a gap, edges within 24 h after a spring-forward switch with a stored event of more
than 23 h) and once with the same instants in UTC.  `get` (unlimited and limit 2) and `get_eventcount` must agree
between the two; the UTC form is what the main streams of harness/c03.py compare with the model.

Signature `C03:window-end-in-fold` (fixed in /repo by 49e3288, witness w23): Bucket.get rounded the window end up with
`endtime.replace(microsecond=..) + timedelta(seconds=..)` on the caller's reading; datetime arithmetic returns
fold=0, so an end edge given with fold=1 in a zone whose utcoffset depends on fold was moved to the FIRST occurrence
of that wall time (one offset change earlier) and the events in between were missing from `get` (but not from
`get_eventcount`, which does not round).  Bucket.get now converts an aware edge to UTC before the arithmetic.  The
signature is kept as the name of that shape of difference; like every other difference it is a failing input."""
import multiprocessing
import os
import shutil
import tempfile
from datetime import datetime, timedelta, timezone

from .evutil import BASE, SynthZone, dt, us_of_dt, us_of_td

SEC = 1_000_000
MIN = 60 * SEC
HOUR = 3600 * SEC
FOLD_SIG = "C03:window-end-in-fold"


def _zones():
    zs = [("synth-fold", SynthZone(BASE + 5 * SEC, 120, 60, "fold")),
          ("synth-zero-fold", SynthZone(BASE + 4 * SEC, 60, 0, "zero-fold")),
          ("synth-gap", SynthZone(BASE + 3 * SEC, 60, 120, "gap")),
          ("synth-gap-west", SynthZone(BASE - 2 * SEC, -300, -240, "gap-west")),
          ("fixed+05:30", timezone(timedelta(hours=5, minutes=30))),
          ("fixed-08:00", timezone(timedelta(hours=-8))),
          # utcoffsets that are not whole milliseconds: the rounding is done on the UTC reading (49e3288), so the
          # whole read - forwarded edges, peewee's clip - is the same as for the instants written in UTC
          ("fixed+00:19:32.0005", timezone(timedelta(minutes=19, seconds=32, microseconds=500))),
          ("fixed-0.000037", timezone(timedelta(microseconds=-37)))]
    try:
        from zoneinfo import ZoneInfo
        zs += [("Europe/Berlin", ZoneInfo("Europe/Berlin")), ("America/St_Johns", ZoneInfo("America/St_Johns"))]
    except Exception:  # noqa: BLE001 -- no tz database: the synthetic zones carry the stream
        pass
    return zs


def _scenarios():
    """-> [(name, events [(ts_us, dur_us)], windows [(ws_us | None, we_us | None)])]"""
    out = []
    # around BASE: events every second, durations 400 ms, the synthetic transitions sit at BASE-2s .. BASE+5s
    ev = [(BASE + k * SEC, 400_000) for k in range(-6, 12)]
    ev.append((BASE - 23 * HOUR - 45 * MIN, 23 * HOUR + 50 * MIN))      # > 23 h, reaches into windows near BASE
    ws = [BASE - 3 * SEC, BASE - SEC, BASE + 2 * SEC + 500_000, BASE + 4 * SEC + 1000, BASE + 6 * SEC]
    wins = [(a, b) for a in ws + [None] for b in ws + [None] if a is None or b is None or a <= b]
    out.append(("base", ev, wins))
    # the real switches of 2021 (tz database zones): Berlin 03-28 01:00Z (gap), 10-31 01:00Z (fold)
    for name, sw in (("berlin-spring", datetime(2021, 3, 28, 1, 0, tzinfo=timezone.utc)),
                     ("berlin-autumn", datetime(2021, 10, 31, 1, 0, tzinfo=timezone.utc))):
        s = us_of_dt(sw)
        ev = [(s + k * 15 * MIN, MIN) for k in range(-8, 9)]
        ev.append((s - 15 * HOUR - 30 * MIN, 23 * HOUR + 45 * MIN))     # began before the switch, ends 8 h 15 min after it
        ws = [s - 90 * MIN, s - 30 * MIN, s + 30 * MIN, s + 90 * MIN, s + 8 * HOUR]
        wins = [(a, b) for a in ws + [None] for b in ws + [None] if a is None or b is None or a <= b]
        out.append((name, ev, wins))
    return out


def _in_fold(d):
    """the utcoffset of this aware datetime depends on its fold attribute"""
    return d.replace(fold=0).utcoffset() != d.replace(fold=1).utcoffset()


def _canon(evs):
    return [[e.id, us_of_dt(e.timestamp), us_of_td(e.duration)] for e in evs]


def _ask(bucket, ws, we):
    def guard(f):
        try:
            return ["ok", f()]
        except Exception as ex:  # noqa: BLE001 -- the error class is the observation
            return ["err", type(ex).__name__]
    return [guard(lambda: _canon(bucket.get(-1, ws, we))), guard(lambda: _canon(bucket.get(2, ws, we))),
            guard(lambda: int(bucket.get_eventcount(ws, we)))]


def _child(_):
    from aw_core.models import Event
    from aw_datastore import Datastore, get_storage_methods
    tmp = tempfile.mkdtemp(prefix="awc03-zoned-")
    findings = []
    n = 0
    try:
        for be, cls in sorted(get_storage_methods().items()):
            for sname, events, wins in _scenarios():
                kw = {} if be == "memory" else {"filepath": os.path.join(tmp, f"{be}-{sname}.db")}
                ds = Datastore(cls, testing=True, **kw)
                b = ds.create_bucket("zoned", "t", "c", "h")
                b.insert([Event(timestamp=dt(t), duration=timedelta(microseconds=d), data={"k": i})
                          for i, (t, d) in enumerate(events)])
                for ws, we in wins:
                    ref = _ask(b, None if ws is None else dt(ws), None if we is None else dt(we))
                    for zname, z in _zones():
                        zs = None if ws is None else dt(ws).astimezone(z)
                        ze = None if we is None else dt(we).astimezone(z)
                        got = _ask(b, zs, ze)
                        n += 1
                        if got != ref:
                            fold_end = ze is not None and _in_fold(ze) and ze.fold == 1
                            which = [x for x, (g, r) in zip(("get", "get(limit=2)", "get_eventcount"), zip(got, ref)) if g != r]
                            findings.append({"backend": be, "scenario": sname, "zone": zname, "window_us": [ws, we],
                                             "window": [None if zs is None else zs.isoformat() + f" fold={zs.fold}",
                                                        None if ze is None else ze.isoformat() + f" fold={ze.fold}"],
                                             "differs": which, "zoned": got, "utc": ref,
                                             "signature": FOLD_SIG if (fold_end and which and "get_eventcount" not in which)
                                             else f"C03:{be}:zoned-window"})
                try:
                    ds.delete_bucket("zoned")
                except Exception:  # noqa: BLE001
                    pass
                if be == "peewee":
                    try:
                        ds.storage_strategy.db.close()
                    except Exception:  # noqa: BLE001
                        pass
    finally:
        shutil.rmtree(tmp, ignore_errors=True)
    return n, findings


def zoned_check(ck):
    """runs in a forked child (peewee keeps a module-level database handle)"""
    ctx = multiprocessing.get_context("fork")
    with ctx.Pool(1) as pool:
        n, findings = pool.map(_child, [0])[0]
    ck.count("zoned-window-comparisons", n)
    seen = set()
    for f in findings:
        key = (f["signature"], f["backend"], f["scenario"])
        if key in seen:
            continue
        seen.add(key)
        what = (f"{f['backend']}: window {f['window']} ({f['zone']}) answers {f['differs']} differently from the same "
                f"instants written in UTC: {f['zoned']} vs {f['utc']}")
        ck.failing_input(f["signature"], what[:900],
                         {"kind": "zoned-window", **{k: f[k] for k in ("backend", "scenario", "zone", "window_us", "window")},
                          "rerun": "python -m harness.c03_zoned"})
    return n, findings


if __name__ == "__main__":
    from . import common
    common.setup_impl_env()
    n, fs = _child(0)
    print(n, "comparisons,", len(fs), "differences")
    for f in fs[:12]:
        print(f["signature"], f["backend"], f["scenario"], f["zone"], f["window"], f["differs"])
