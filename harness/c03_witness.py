"""C03 finding witness: peewee window read returns an event with a NEGATIVE duration.
usage: PYTHONPATH=/repo /venv/bin/python wit_negdur.py"""
import os, sys, tempfile, logging
tmp = tempfile.mkdtemp(prefix="c03wit-")
for k in ("XDG_DATA_HOME", "XDG_CONFIG_HOME", "XDG_CACHE_HOME"):
    os.environ[k] = os.path.join(tmp, k)
logging.disable(logging.CRITICAL)
from datetime import datetime, timedelta, timezone
from aw_core.models import Event
from aw_datastore import Datastore
from aw_datastore.storages import PeeweeStorage
T0 = datetime(2020, 1, 1, tzinfo=timezone.utc)
ds = Datastore(lambda testing: PeeweeStorage(testing=True, filepath=os.path.join(tmp, "p.db")), testing=True)
ds.create_bucket("b", "t", "c", "h", created=T0)
b = ds["b"]
b.insert(Event(timestamp=T0, duration=timedelta(microseconds=999_600), data={}))   # [T0, T0+0.9996 s]
got = b.get(-1, T0 + timedelta(seconds=1), None)                                   # window starts 400 us after the event ended
print([(e.timestamp.isoformat(), e.duration.total_seconds()) for e in got])
assert got and got[0].duration < timedelta(0), "no negative duration"
print("FAILS: returned event has duration", got[0].duration.total_seconds(), "s")
