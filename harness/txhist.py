"""Round 3 helper of the transform checks (c08, c10, c15, c16): HISTORY, API LAYER, SIZE.

The transforms are pure functions of their arguments (the models say so).  A check that feeds every call
fresh objects, straight to the anchored function, with a handful of events, cannot see

  * state that outlives a call (a memo / cache keyed on == or on identity, a default mutable argument, a
    module-level flag), results that share objects with earlier results, arguments that are kept;
  * the layer above the function: the registered query functions `aw_query.functions.functions[name]`
    (what a query2 program calls) and the query2 interpreter itself;
  * loops that are wrong only beyond a chunk size.

This module provides, without looking at the code under test:

  Session     a sequence of calls in one process on LIVE objects: the same objects again, new objects that are
              == but not identical (other ids, look-alike data True / 1 / 1.0), the same list object edited in
              between (an element's duration / data / timestamp, the data dict edited in place, elements popped /
              appended / swapped), a new list around the same elements, the previous result vandalised before
              the next call.  Every call is judged alone (oracle + model of that call's arguments as they are at
              call time), so any dependence on history is a disagreement and, through the oracle, a failing input.
              The session keeps a replayable log (object identities as tokens + field values at every call).
  Routes      "direct" (the anchored function), "registry" (aw_query.functions.functions[name](ds, ns, *args)),
              "program" (a query2 statement `RETURN = name(a0, a1, ...)` parsed and interpreted with the live
              arguments in the namespace - the arguments stay referenced by the namespace and by the caller).
  strict_eq   type-aware deep equality (True is not 1 is not 1.0), for "unchanged" / "keeps its source's data".
  big helpers nearly sorted orders for inputs of >= 10 001 events (the extracted models sort by insertion).
"""
import copy
import itertools
import json
import sys
from datetime import timedelta

from .evutil import dt_zoned, mk_event, us_of_dt, us_of_td

BIG_N = 10_001          # larger than any plausible chunk constant (2000 / 5000 / 10000)


# --------------------------------------------------------------------------- strict comparison / look-alikes


def strict_eq(a, b):
    """== and the same types all the way down (dict key order is not looked at).
    Iterative (round 5): data nested hundreds deep must not exhaust the interpreter's C stack here."""
    todo = [(a, b)]
    while todo:
        a, b = todo.pop()
        if type(a) is not type(b):
            return False
        if isinstance(a, dict):
            if a.keys() != b.keys():
                return False
            todo.extend((a[k], b[k]) for k in a)
        elif isinstance(a, (list, tuple)):
            if len(a) != len(b):
                return False
            todo.extend(zip(a, b))
        elif not (a == b):
            return False
    return True


def twin_value(v, k=0):
    """a value that is == v but of another type, where there is one (1 / True / 1.0, 0 / False / 0.0, 7 / 7.0)"""
    if type(v) is bool:
        return (int(v), float(v))[k % 2]
    if type(v) is int:
        return (bool(v), float(v))[k % 2] if v in (0, 1) else float(v)
    if type(v) is float and v == int(v) and abs(v) < 2 ** 53:
        return (int(v), bool(v))[k % 2] if v in (0.0, 1.0) else int(v)
    if type(v) is list:
        return [twin_value(x, k) for x in v]
    if type(v) is dict:
        return {kk: twin_value(x, k) for kk, x in v.items()}
    return v


def has_twin(v):
    return not strict_eq(twin_value(v), v)


def _deep(v, limit=60):
    n = 0
    while isinstance(v, (dict, list, tuple)) and v and n <= limit:
        v = next(iter(v.values())) if isinstance(v, dict) else v[0]
        n += 1
    return n > limit


def typed_repr(v):
    """a text that tells look-alikes apart (for logs / canonical forms)"""
    if _deep(v):
        return "<%s nested more than 60 deep>" % type(v).__name__
    if type(v) is dict:
        return "{" + ", ".join(f"{k!r}: {typed_repr(x)}" for k, x in v.items()) + "}"
    if type(v) is list:
        return "[" + ", ".join(typed_repr(x) for x in v) + "]"
    return repr(v)


def freeze(v):
    """a hashable whose == / hash agree with Python's == on JSON-like values (dict order ignored, 1 == 1.0 == True)"""
    if _deep(v):
        # a long chain of one-element containers (round 5: data nested hundreds deep): walked iteratively
        path = []
        while isinstance(v, (dict, list, tuple)) and len(v) == 1:
            if isinstance(v, dict):
                (k, v), = v.items()
                path.append(("d", k))
            else:
                path.append(("l" if isinstance(v, list) else "t", None))
                v = v[0]
        return ("chain", tuple(path), freeze(v))
    if isinstance(v, dict):
        return ("d", frozenset((k, freeze(x)) for k, x in v.items()))
    if isinstance(v, (list, tuple)):
        return ("l" if isinstance(v, list) else "t", tuple(freeze(x) for x in v))
    return v


class FastLabels:
    """common.Labels (one integer per class of Python == on the values seen) with a dictionary instead of a
    scan - the large inputs carry tens of thousands of different data values"""

    def __init__(self):
        self.index, self.reps = {}, []

    def label(self, v):
        k = freeze(v)
        i = self.index.get(k)
        if i is None:
            i = self.index[k] = len(self.reps)
            self.reps.append(v)
        return i

    def value(self, i):
        return self.reps[i]


def spec_of(e):
    """(ts_us, dur_us, data value, id) of a live Event"""
    return (us_of_dt(e.timestamp), us_of_td(e.duration), copy.deepcopy(e.data), e.id)


def build(Event, specs):
    return [mk_event(Event, t, d, copy.deepcopy(x), i) for (t, d, x, i) in specs]


# --------------------------------------------------------------------------- routes (the API layer)

ROUTES = ("direct", "registry", "program")


class QueryLayer:
    """The registered query functions.  `call(route, name, *args)`; every route hands the very argument objects on."""

    def __init__(self):
        import aw_query.functions as qf
        import aw_query.query2 as q2
        self.qf, self.q2 = qf, q2

    def has(self, name):
        return name in self.qf.functions

    def registry(self, name, *args):
        return self.qf.functions[name](None, {}, *args)

    def program(self, name, *args):
        ns = self.q2.create_namespace()
        names = []
        for i, a in enumerate(args):
            ns["arg_%s" % "abcdefgh"[i]] = a
            names.append("arg_%s" % "abcdefgh"[i])
        stmt = "RETURN = %s(%s)" % (name, ", ".join(names))
        var, val = self.q2.parse(stmt, ns)
        self.q2.interpret(var, val, ns, None)
        for i, a in enumerate(args):          # the program's variables still name the caller's objects
            if ns[names[i]] is not a:
                raise AssertionError("query2 rebound an argument variable")
        return self.q2.get_return(ns)

    def call(self, route, name, *args):
        if route == "registry":
            return self.registry(name, *args)
        if route == "program":
            return self.program(name, *args)
        raise ValueError(route)


# --------------------------------------------------------------------------- sessions


class Session:
    """Live argument lists of one call sequence.  `lists`: name -> live list of Event objects."""

    def __init__(self, Event, base, protect_keys=(), sorted_lists=False, pool=()):
        self.Event = Event
        self.base = {n: list(s) for n, s in base.items()}
        self.lists = {}
        self.protect = set(protect_keys)     # data keys an edit must not touch (provenance tags of an oracle)
        self.sorted_lists = sorted_lists     # the property's domain wants time-sorted lists: no swaps
        self.pool = list(pool)               # data values to rebind to
        self.keep = []                       # every object ever made (so that id() tokens stay unique)
        self.tok = {}
        self.log = []
        self.results = []
        self.fresh_id = itertools.count(7000)

    # -- identities
    def token(self, o, kind):
        k = id(o)
        if k not in self.tok:
            self.tok[k] = "%s%d" % (kind, len(self.tok))
            self.keep.append(o)
        return self.tok[k]

    def new_list(self, specs):
        l = build(self.Event, specs)
        self.keep.append(l)
        self.keep.extend(l)
        return l

    def input_ids(self):
        return {id(o) for l in self.lists.values() for o in l}

    def specs(self, name):
        return [spec_of(o) for o in self.lists[name]]

    # -- steps: each returns a short description or None when it does not apply
    def st_fresh(self, rng):
        for n, s in self.base.items():
            self.lists[n] = self.new_list(s)
        return "fresh objects"

    def st_again(self, rng):
        return "the same objects again"

    def st_fresh_equal(self, rng):
        for n in self.lists:
            self.lists[n] = self.new_list(self.specs(n))
        return "new objects, deep-equal to the previous ones"

    def _twin_ids(self, specs, k):
        out = []
        for j, (t, d, x, i) in enumerate(specs):
            out.append((t, d, x, (None if i is not None else 500 + j) if k % 2 == 0 else (900 + 3 * j if i is None else i + 1000)))
        return out

    def st_twin_ids(self, rng):
        k = rng.randrange(4)
        for n in self.lists:
            self.lists[n] = self.new_list(self._twin_ids(self.specs(n), k))
        return "new objects that differ from the previous ones in their ids only (== by Event.__eq__)"

    def st_twin_data(self, rng):
        k = rng.randrange(2)
        if not any(has_twin(x) for n in self.lists for (_, _, x, _) in self.specs(n)):
            return None
        for n in self.lists:
            self.lists[n] = self.new_list([(t, d, twin_value(x, k), i) for (t, d, x, i) in self.specs(n)])
        return "new objects whose data are look-alikes of the previous ones (True / 1 / 1.0): == but not the same values"

    def st_twin_one(self, rng):
        names = [n for n in self.lists if self.lists[n]]
        if not names:
            return None
        n = rng.choice(names)
        k = rng.randrange(4)
        self.lists[n] = self.new_list(self._twin_ids([(t, d, twin_value(x, k), i) for (t, d, x, i) in self.specs(n)], k))
        return f"list {n} replaced by an ==-equal list of new objects (other ids, look-alike data); the rest are the same objects"

    def _pick(self, rng):
        names = [n for n in self.lists if self.lists[n]]
        if not names:
            return None, None
        n = rng.choice(names)
        return n, rng.randrange(len(self.lists[n]))

    def st_edit_dur(self, rng):
        n, j = self._pick(rng)
        if n is None:
            return None
        o = self.lists[n][j]
        d = us_of_td(o.duration)
        new = 0 if d <= 1000 else rng.choice([d // 2000 * 1000, d - 1000, 0])
        if new == d:
            new = d + 1000 if j == len(self.lists[n]) - 1 else d
        if new == d:
            return None
        o.duration = timedelta(microseconds=new)
        return f"same list objects; event {j} of {n} got duration {new} us (was {d})"

    def st_edit_data_rebind(self, rng):
        n, j = self._pick(rng)
        if n is None or not self.pool:
            return None
        o = self.lists[n][j]
        keepk = {k: v for k, v in o.data.items() if k in self.protect}
        cands = [x for x in self.pool if not (dict(x, **keepk) == o.data)]
        if not cands:
            return None
        o.data = dict(copy.deepcopy(rng.choice(cands)), **keepk)
        return f"same list objects; event {j} of {n} got another data dict {typed_repr(o.data)}"

    def st_edit_data_inplace(self, rng):
        n, j = self._pick(rng)
        if n is None:
            return None
        o = self.lists[n][j]
        keys = [k for k in o.data if k not in self.protect]
        if keys and rng.random() < 0.8:
            k = rng.choice(keys)
            v = o.data[k]
            alts = [twin_value(v)] if has_twin(v) and rng.random() < 0.5 else []
            alts += [x[k] for x in self.pool if k in x and not (x[k] == v)]
            if not alts:
                alts = ["zz" if v != "zz" else "zy"]
            o.data[k] = copy.deepcopy(rng.choice(alts))
            return f"same list objects; data[{k!r}] of event {j} of {n} edited in place to {typed_repr(o.data[k])}"
        o.data["extra"] = rng.choice([1, True, "x"])
        return f"same list objects; a key 'extra' added in place to the data of event {j} of {n}"

    def st_edit_last_later(self, rng):
        names = [n for n in self.lists if self.lists[n]]
        if not names:
            return None
        n = rng.choice(names)
        o = max(self.lists[n], key=lambda e: e.timestamp)
        o.timestamp = o.timestamp + timedelta(milliseconds=rng.choice([1, 1000, 7000]))
        return f"same list objects; the latest event of {n} moved later"

    def st_pop(self, rng):
        n, j = self._pick(rng)
        if n is None:
            return None
        j = rng.choice([0, len(self.lists[n]) - 1, j])
        self.lists[n].pop(j)
        return f"same list object {n}; its element {j} popped"

    def st_append(self, rng):
        names = list(self.lists)
        n = rng.choice(names)
        end = max([us_of_dt(o.timestamp) + max(0, us_of_td(o.duration)) for o in self.lists[n]] or
                  [t + max(d, 0) for (t, d, _, _) in self.base[n]] or [0])
        if end == 0:
            return None
        end = (end + 999) // 1000 * 1000
        src = self.base[n] or [s for b in self.base.values() for s in b]
        if not src:
            return None
        x = copy.deepcopy(rng.choice(src)[2])
        for k in list(x):
            if k in self.protect:
                x[k] = "%s+%d" % (x[k], next(self.fresh_id))
        e = self.new_list([(end + rng.choice([0, 1000, 2_000_000, 9_000_000]), rng.choice([0, 1000, 1_000_000]), x, rng.choice([None, next(self.fresh_id)]))])[0]
        self.lists[n].append(e)
        return f"same list object {n}; a new event appended after its end"

    def st_swap(self, rng):
        if self.sorted_lists:
            return None
        names = [n for n in self.lists if len(self.lists[n]) >= 2]
        if not names:
            return None
        n = rng.choice(names)
        j = rng.randrange(len(self.lists[n]) - 1)
        l = self.lists[n]
        l[j], l[j + 1] = l[j + 1], l[j]
        return f"same list object {n}; elements {j} and {j + 1} swapped"

    def st_relist(self, rng):
        for n in self.lists:
            self.lists[n] = list(self.lists[n])
            self.keep.append(self.lists[n])
        return "new list objects around the same event objects"

    def st_vandal(self, rng):
        if not self.results or any(self.results[-1] is l for l in self.lists.values()):
            return None            # nothing returned yet / the result IS an argument list (merge with no keys)
        vandalise(self.results[-1], self.input_ids())
        return "the previous call's result was overwritten (fields of its new events rebound, list emptied); same arguments again"

    STEPS = ("again", "fresh_equal", "twin_ids", "twin_data", "twin_one", "edit_dur", "edit_data_rebind",
             "edit_data_inplace", "edit_last_later", "pop", "append", "swap", "relist", "vandal")

    def plan(self, rng, n_steps, allowed=None):
        names = [s for s in (allowed or self.STEPS)]
        # the steps a memo on == / on identity cannot survive come first and always
        head = ["twin_ids", "twin_data", "again", "vandal", "edit_data_inplace", "twin_one", "edit_dur"]
        head = [h for h in head if h in names]
        rng.shuffle(head)
        k = min(len(head), max(3, (n_steps + 1) // 2))
        body = head[:k] + [rng.choice(names) for _ in range(max(0, n_steps - k))]
        rng.shuffle(body)
        return ["fresh"] + body

    def step(self, name, rng):
        return getattr(self, "st_" + name)(rng)

    # -- log
    def record(self, step, what, call, scalars=None):
        ent = {"step": step, "what": what, "call": call, "scalars": scalars or {},
               "lists": {n: {"list": self.token(l, "L"),
                             "events": [[self.token(o, "E")] + list(json_spec(spec_of(o))) + [self.token(o.data, "D")] for o in l]}
                         for n, l in self.lists.items()}}
        self.log.append(ent)
        return ent

    def replay(self, upto=None):
        return {"session": self.log[:upto] if upto else list(self.log),
                "how_to_read": "calls made one after the other in one process; lists/events with the same token are the "
                               "same Python object (fields as they were at that call); event = [token, timestamp_us, "
                               "duration_us, data (typed text), id]",
                "rerun_hint": "PYTHONPATH=<repo>:/verif /venv/bin/python -m harness.txhist replay <this file>   (prints every call "
                              "and what it returns);  ... -m harness.<c08|c10|c15|c16>_hist judge <this file>   (the oracle's verdict "
                              "on the last call)"}


def json_spec(spec):
    t, d, x, i = spec
    return (t, d, typed_repr(x), i)


def vandalise(out, input_ids):
    """Overwrite what an earlier call returned - without touching anything that belongs to the inputs: fields of
    result events that are not input objects are REBOUND (never edited in place: a result may legitimately share
    a value object with an input), the result list (and lists of sub-events) emptied."""
    if not isinstance(out, list):
        return
    for e in list(out):
        if id(e) in input_ids or not hasattr(e, "data"):
            continue
        subs = e.data.get("subevents") if isinstance(e.data, dict) else None
        e["data"] = {"vandalised": True}
        e["duration"] = timedelta(seconds=4242)
        e["timestamp"] = e["timestamp"] + timedelta(hours=3)
        e["id"] = 666
        if isinstance(subs, list) and id(subs) not in input_ids:
            del subs[:]
    del out[:]


# --------------------------------------------------------------------------- large inputs


def nearly_sorted(rng, items, every=97):
    """the items with a few adjacent pairs swapped (a sorted hand-over would hide an order-dependent chunk loop;
    a shuffled one costs the insertion-sorting model minutes)"""
    items = list(items)
    for k in range(rng.randrange(1, every), len(items) - 1, every):
        items[k], items[k + 1] = items[k + 1], items[k]
    return items


# --------------------------------------------------------------------------- replaying a session log


def _parse_typed(s):
    import ast
    return ast.literal_eval(s)


def materialise(st, objs, Event):
    """the argument lists of a logged step, rebuilt with the logged identity structure (`objs`: token -> object,
    carried from step to step) and the logged field values"""
    args = []
    for n, l in st["lists"].items():
        lst = objs.setdefault(l["list"], [])
        evs = []
        for ent in l["events"]:
            tok, t, d, x, i = ent[:5]
            dtok = ent[5] if len(ent) > 5 else None
            val = _parse_typed(x)
            e = objs.get(tok)
            existed = e is not None
            if not existed:
                e = objs[tok] = mk_event(Event, t, d, val, i)
            else:
                if spec_of(e)[0] != t:
                    e.timestamp = dt_zoned(t)
                if spec_of(e)[1] != d:
                    e.duration = timedelta(microseconds=d)
                if e.id != i:
                    e.id = i
            if dtok is None:
                if not strict_eq(e.data, val):
                    e.data = val
            elif dtok in objs:                 # a dict seen before: the same object, edited in place if its content differs
                known = objs[dtok]
                if e.data is not known:
                    e.data = known
                if not strict_eq(known, val) or list(known) != list(val):
                    known.clear()
                    known.update(val)
            else:                              # a dict not seen before: (re)bound
                if existed:
                    e.data = val
                objs[dtok] = e.data
            evs.append(e)
        lst[:] = evs
        args.append(lst)
    return args


def run_steps(steps, Event, call, judge=None):
    """Re-runs logged steps on rebuilt objects: call(step, args) -> result for every step, judge(step, args) ->
    verdict for the last one when given.  Returns the last result / verdict."""
    objs, prev, out = {}, None, None
    for k, st in enumerate(steps):
        args = materialise(st, objs, Event)
        if "vandal" in st["step"] and isinstance(prev, list):
            vandalise(prev, {id(o) for a in args for o in a})
        if judge is not None and k == len(steps) - 1:
            return judge(st, args)
        out = prev = call(st, args)
    return out


def judge_in_subprocess(module, steps, timeout=180):
    """The verdict of the LAST of `steps` when they are run, on rebuilt objects, in a fresh interpreter against the
    same tree (`python -m <module> judge <file>` prints `VERDICT <clause or OK>`): the process that found the failure
    carries the history of everything it ran before, a fresh one only what the steps say."""
    import os
    import subprocess
    import tempfile
    from . import common
    fd, path = tempfile.mkstemp(prefix="txhist-", suffix=".json")
    try:
        with os.fdopen(fd, "w") as f:
            json.dump({"session": steps}, f)
        env = dict(os.environ)
        env["PYTHONPATH"] = f"{common.REPO}:{common.VERIF}"
        env["VERIF_REPO"] = common.REPO
        p = subprocess.run([sys.executable, "-m", module, "judge", path], cwd=common.VERIF, env=env, timeout=timeout,
                           stdout=subprocess.PIPE, stderr=subprocess.STDOUT, text=True)
        for line in reversed(p.stdout.splitlines()):
            if line.startswith("VERDICT "):
                v = line[len("VERDICT "):]
                return None if v == "OK" else v
        return "judge-failed: " + p.stdout[-300:]
    finally:
        os.unlink(path)


def judge_main(path, judge, call=None):
    """body of `python -m <module> judge <file>`: judge(step, args) -> clause or None (makes the last call itself)"""
    from . import common
    common.setup_impl_env()
    from aw_core.models import Event
    obj = json.load(open(path))
    steps = obj.get("replay", obj)["session"]
    v = run_steps(steps, Event, call or generic_call(QueryLayer()), judge(Event))
    print("VERDICT " + ("OK" if v in (None, "skip") else str(v).replace("\n", " ")))
    return 0


def minimise_session(log, module, sig, max_steps=25):
    """log: the steps up to and including the failing call.  Drops earlier steps while the last call still fails
    the clause `sig` in a fresh process; returns (steps, reproduced-in-a-fresh-process?)."""
    from .common import shrink_list
    last = log[-1]

    def fails(cand):
        try:
            m = judge_in_subprocess(module, list(cand) + [last])
        except Exception:  # noqa: BLE001
            return False
        return m is not None and m.split(":")[0] == sig
    if not fails(log[:-1]):
        return list(log), False
    return shrink_list(log[:-1], fails, max_steps) + [last], True


HISTORY_NOTE = (" [history: the same call made again alone on fresh objects does not fail - the outcome depends on earlier "
                "calls in this process]")


def make_room(ck):
    """Check.failing_input keeps at most 20 failing inputs (the report shows six); when the earlier streams filled
    that list, drop its tail so that the streams of this module can still record theirs"""
    if len(ck.violations) > 12:
        del ck.violations[12:]


def prefer_session_failure(ck):
    """A failing input that only fails because of what was called before it is a poor primary replay (it passes
    when replayed alone): when the first recorded one is of that kind, put the first failing call SEQUENCE first."""
    if ck.violations and "[history:" in str(ck.violations[0][1]):
        k = next((i for i, v in enumerate(ck.violations) if isinstance(v[2], dict) and "session" in v[2]), None)
        if k:
            ck.violations.insert(0, ck.violations.pop(k))


def session_replay(steps, minimal):
    return {"session": steps, "reproduced_and_minimised_in_a_fresh_process": bool(minimal),
            "how_to_read": "calls made one after the other in one process; lists / events / data dicts with the same token "
                           "are the same Python object (fields as they were at that call); event = [token, timestamp_us, "
                           "duration_us, data (typed text), id, data-dict token]; `what` describes the step relative to the call "
                           "before it in the original run (earlier calls may have been dropped by the minimiser)",
            "rerun_hint": "PYTHONPATH=<repo>:/verif /venv/bin/python -m harness.txhist replay <this file>   (prints every call and "
                          "what it returns);  ... -m harness.<c08|c10|c15|c16>_hist judge <this file>   (prints the oracle's verdict "
                          "on the last call)"}


def generic_call(ql):
    import importlib

    def call(st, args):
        c = st["call"]
        extra = list(st.get("scalars", {}).values())
        if c.get("unpack"):          # the function takes the events of the (one) list as separate arguments
            args = list(args[0])
        if c["route"] == "direct":
            return getattr(importlib.import_module(c["module"]), c["name"])(*args, *extra)
        return ql.call(c["route"], c["name"], *args, *extra)
    return call


def replay_main(path):
    """Re-run the calls of a session log against the tree on PYTHONPATH and print what comes back."""
    from . import common
    common.setup_impl_env()
    from aw_core.models import Event
    obj = json.load(open(path))
    r = obj.get("replay", obj)
    steps = r.get("session") or []
    if not steps:
        print("no session in", path)
        return 2
    call = generic_call(QueryLayer())

    def show(st, args):
        out = call(st, args)
        c = st["call"]
        print(f"call [{st['step']}] {c['route']}:{c['name']}  -- {st['what']}")
        for n, a in zip(st["lists"], args):
            print("   ", n, "=", [json_spec(spec_of(e)) for e in a])
        if st.get("scalars"):
            print("    scalars", st["scalars"])
        print("    ->", [json_spec(spec_of(e)) for e in out] if isinstance(out, list) else out)
        return out
    run_steps(steps, Event, show)
    return 0


if __name__ == "__main__":
    if len(sys.argv) >= 3 and sys.argv[1] == "replay":
        sys.exit(replay_main(sys.argv[2]))
    print(__doc__)
