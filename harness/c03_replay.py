"""Re-run one C03 case on the implementation and print what the property oracle says.
usage: python -m harness.c03_replay '{"backend": "peewee", "events": [[ts_us, dur_us, label], ...],
                                      "query": ["get", limit, ws|null, we|null, off_min, off_min]
                                             | ["count", ws|null, we|null, off_min, off_min]}'
(or the path of a replays/C03/*.json file: its first failing input is replayed)"""
import json
import os
import sys
import tempfile

from . import common
from . import c03


def main():
    arg = sys.argv[1]
    obj = json.load(open(arg)) if os.path.exists(arg) else json.loads(arg)
    if "replay" in obj:
        obj = obj["replay"]
    be, q = obj["backend"], obj["query"]
    common.setup_impl_env()
    case = {"events": obj["events"], "stream": "replay",
            "queries": [q] + ([["get", -1, q[2], q[3], q[4], q[5]]] if q[0] == "get" else
                              [["get", -1, q[1], q[2], q[3], q[4]]])}
    tmp = tempfile.mkdtemp(prefix="awc03-replay-")
    run = c03.run_impl_case(case, be, tmp, 0)
    stored = {w[0]: w for w in run["stored"]}
    ans, unl = run["answers"]
    print("stored :", run["stored"])
    print("query  :", q)
    print("answer :", ans)
    dev = {}
    if q[0] == "get":
        bad = c03.oracle_get(be, stored, q, ans, unl[1] if unl[0] == "ok" else None, dev)
    else:
        bad = c03.oracle_count(be, stored, q, ans, unl[1] if unl[0] == "ok" else None)
    print("oracle :", bad or "ok")
    return 1 if bad else 0


if __name__ == "__main__":
    sys.exit(main())
