"""Re-run one C03 case on the implementation and print what the property oracle says.
usage: python -m harness.c03_replay '{"backend": "memory", "nstores": 1, "script": [step, ...]}'
         step = ["w", store, op] | ["q", store, bucket, query]   (harness/c03_hist.py; the LAST step must be a query)
         op   = ["create", b] | ["delete_bucket", b] | ["insert", b, ev] | ["insert_many", b, [ev ...]]
              | ["replace", b, ["lab", x], ev] | ["replace_last", b, ev] | ["delete", b, ["lab", x]]
         ev   = [null | ["lab", x], ts_us, dur_us, label]        (labels: one per written event)
       python -m harness.c03_replay '{"backend": "peewee", "events": [[ts_us, dur_us, label], ...],
                                      "query": ["get", limit, ws|null, we|null, off_min, off_min]
                                             | ["count", ws|null, we|null, off_min, off_min]}'
         (round-1 form: the events inserted one by one into a fresh bucket, then the query)
(or the path of a replays/C03/*.json file: its first failing input is replayed)"""
import json
import os
import shutil
import sys
import tempfile

from . import common
from . import c03
from . import c03_hist as hist


def main():
    arg = sys.argv[1]
    obj = json.load(open(arg)) if os.path.exists(arg) else json.loads(arg)
    if "replay" in obj:
        obj = obj["replay"]
    be = obj["backend"]
    common.setup_impl_env()
    if "script" in obj:
        script = list(obj["script"])
        if "step" in obj:
            script = script[:obj["step"] + 1]
        case = {"stream": "replay", "nstores": obj.get("nstores", 1), "script": script}
    else:
        case = hist.simple_script(obj["events"], [obj["query"]], "replay")
    script = case["script"]
    _, si, b, q = script[-1]
    at = len(script) - 1
    # the unlimited read of the same window on the same contents, for the limit clauses
    script.append(["q", si, b, ["get", -1] + (q[2:] if q[0] == "get" else q[1:])])
    tmp = tempfile.mkdtemp(prefix="awc03-replay-")
    try:
        run = hist.run_impl_script(case, be, tmp, 0)
    finally:
        shutil.rmtree(tmp, ignore_errors=True)
    for step, rec in zip(script[:at], run["recs"][:at]):
        if step[0] == "w":
            print("write  : store", step[1], step[2], "->", "skipped (nothing to address)" if rec[1] is None else rec[2])
    _, ans, snap, _, broken = run["recs"][at]
    unl = run["recs"][at + 1][1]
    print("holds  :", snap, "(according to the writes: [id, ts, dur, label])")
    print("query  : store", si, "bucket", b, q)
    print("answer :", ans)
    if broken:
        print("oracle : a write failed:", broken)
        return 1
    stored = {w[3]: w for w in snap or []}
    dev = {}
    if q[0] == "get":
        bad = c03.oracle_get(be, stored, q, ans, unl[1] if unl[0] == "ok" else None, dev)
    else:
        bad = c03.oracle_count(be, stored, q, ans, unl[1] if unl[0] == "ok" else None)
    print("oracle :", bad or "ok")
    return 1 if bad else 0


if __name__ == "__main__":
    sys.exit(main())
