"""THEAP -- "the inputs are not modified" for flood (C10), union_no_overlap (C15),
filter_period_intersect and period_union (C09): tie A for the heap-level model
coq/Model/TransformHeap.v (driver coq/Extract/ExTHeap.v -> build/THEAP/driver) and the
property clause evaluated on the implementation.

One case = Python argument list(s) built WITH ALIASING (the same Event object several times in
a list, Events sharing one data dict, data dicts sharing nested containers, the same list
passed twice, two lists sharing Events) + the call.  Per case
  * every mutable object reachable from the arguments (list objects, Events, data dicts, nested
    dicts/lists) gets one location (identity, `is`) -> the model's input heap;
  * a snapshot of every such object's own content and member identities is taken, the real
    transform is run, and the ORACLE (no model involved) decides the clause: every input object
    has its snapshot content and nothing reachable from the result is an input object
    (period_union: the documented weaker frame);
  * the extracted model runs on the same heap; status, the content of every input object after
    the call and the whole SHARING GRAPH of the result (which output objects are input objects,
    which data dicts / nested containers are shared between which outputs) are compared by a
    simultaneous walk that must be a bijection between model locations and Python objects.

usable as   python -m harness.theap quick            (evidence/THEAP.json)
            python -m harness.theap replay '<case json>' | <file.json>
and as      from harness.theap import prepare, heap_check      (C10 / C15 / C09 harnesses)."""
import copy
import json
import os
import sys
from datetime import datetime, timedelta

from . import common
from .common import Check, sx
from .evutil import BASE, dt, mk_event, pulse_us, us_of_dt, us_of_td

DRIVER = "THEAP"
WHICH = ("flood", "union_no_overlap", "filter_period_intersect", "period_union")
CALLNO = {"flood": 0, "union_no_overlap": 1, "filter_period_intersect": 2, "period_union": 3}
PROP = {"flood": "C10", "union_no_overlap": "C15", "filter_period_intersect": "C09", "period_union": "C09"}
ERRCODE = {"KeyError": 4, "ValueError": 5, "IndexError": 6, "AttributeError": 7, "TypeError": 8}
ERRNAME = {4: "KeyError", 5: "ValueError", 6: "IndexError", 7: "AttributeError", 8: "TypeError", 10: "other"}
EMPTY_DICT, EVENT_LIST = 0, -2

RULE = ("per transform: a deterministic boundary corpus (flood: every 2-event layout over gap {0,<p,=p,>p,-0.05s,-0.2s} x "
        "durations x same/different data, and the same Event object 2-3 times in the list next to a neighbour at every "
        "gap; binary transforms: hand-written layouts (docstring examples, covered / spanning / touching / zero-length / "
        "unsorted / empty) and every 1x1 placement on a 0..3 grid) crossed with aliasing configurations (none, Events "
        "sharing one data dict, data dicts sharing nested containers, the same Event twice in a list, the same list as both "
        "arguments, two lists sharing Events, combinations), then seeded random layouts (in-domain chains, overlapping / "
        "negative / sub-millisecond out-of-domain ones) with random aliasing, plus a few malformed lists (a non-Event "
        "element); non-trivial = distinct case with some aliasing among the inputs and a non-empty result")


# ---------------------------------------------------------------------------
# case specs (JSON-able, self-contained)
#
#   {"which": w, "stream": s, "pulsetime": p | None,
#    "nested": [template...]      shared nested containers; {"$ref": k} inside a template is THE object nested[k] (k smaller)
#    "data":   [template...]      data dict objects; events naming the same index share the object
#    "events": [[id, ts_rel_us, dur_us, data_index, raw_ts] | ["dict", data_index]]    Event objects (or a plain dict)
#    "lists":  [[event index...], ...]   the argument list(s); the same index twice = the same object twice
#    "same_list": bool}           binary transforms: the first list object is passed as both arguments


def R(k):
    return {"$ref": k}


# class -> ==-equivalent variants of a data value, per depth configuration
CLS = {
    0: [[{"app": "a"}], [{"app": "b"}], [{}], [{"n": 1}, {"n": 1.0}, {"n": True}]],
    1: [[{"app": "a", "tags": ["x", "y"], "meta": {"k": [1, 2]}}], [{"app": "b", "tags": ["x", "y"]}],
        [{"l": [{"z": 1}, [2]]}], [{"n": 1, "m": {"q": [1]}}, {"n": 1.0, "m": {"q": [1.0]}}]],
    2: [[{"app": "a", "tags": R(0), "meta": R(1)}], [{"app": "b", "tags": R(0)}], [{"meta": R(1)}],
        [{"n": 1, "tags": R(0)}, {"n": 1.0, "tags": R(0)}]],
    3: [[{"app": "a", "tags": R(0), "meta": R(1)}], [{"app": "b", "l": R(2)}], [{"x": R(1), "y": R(1)}],
        [{"n": 1, "tags": R(0)}, {"n": True, "tags": R(0)}]],
}
NESTED = {0: [], 1: [], 2: [["x", "y"], {"k": [1, 2]}], 3: [[1, 2], {"k": R(0)}, [R(0), R(0), {"w": R(1)}]]}


def mk_case(which, slot_lists, p=None, share="none", deep=0, dups=(), cross=(), same_list=False, raw=False,
            stream="corpus", noid=()):
    """slot_lists: per argument list, [(ts_rel_us, dur_us, class)].  share="class": all Events of one class
    share ONE data dict object.  dups: (list, source position, insert position) -- the same Event object again.
    cross: (source position in list 0, insert position in list 1) -- the two lists share that Event object."""
    data, events, lists, shared = [], [], [], {}
    for slots in slot_lists:
        idxs = []
        for ts, dur, cls in slots:
            variants = CLS[deep][cls % 4]
            if share == "class" and cls in shared:
                di = shared[cls]
            else:
                data.append(copy.deepcopy(variants[len(events) % len(variants)]))
                di = len(data) - 1
                if share == "class":
                    shared[cls] = di
            eid = None if len(events) in noid else len(events)
            events.append([eid, ts, dur, di, bool(raw and ts % 1000)])
            idxs.append(len(events) - 1)
        lists.append(idxs)
    for li, src, at in dups:
        if li < len(lists) and lists[li]:
            l = lists[li]
            l.insert(min(at, len(l)), l[src % len(l)])
    for src, at in cross:
        if len(lists) == 2 and lists[0]:
            lists[1].insert(min(at, len(lists[1])), lists[0][src % len(lists[0])])
    if same_list:
        lists = lists[:1]
    return {"which": which, "stream": stream, "pulsetime": p, "nested": copy.deepcopy(NESTED[deep]), "data": data,
            "events": events, "lists": lists, "same_list": bool(same_list)}


def chain(spec):
    """[(gap_us, dur_us, class)] -> slots"""
    t, out = 0, []
    for gap, d, cls in spec:
        t += gap
        out.append((t, d, cls))
        t += d
    return out


# -- flood

def flood_corpus():
    u, p = 1_000_000, 2
    confs = [dict(), dict(deep=1), dict(share="class"), dict(deep=2), dict(share="class", deep=3)]
    for g in (0, u, 2 * u, 3 * u, -50_000, -200_000):
        for d1, d2 in ((u, u), (3 * u, u), (u, 3 * u), (0, u), (u, 0)):
            for c2 in (0, 1):
                lay = chain([(0, d1, 0), (g, d2, c2)])
                for cf in confs:
                    yield mk_case("flood", [lay], p=p, **cf)
    # the same Event object two / three times in the list, alone ...
    for d in (0, u, 3 * u, 1500):
        for n in (2, 3):
            for deep in (0, 2):
                yield mk_case("flood", [[(0, d, 0)]], p=p, deep=deep, dups=[(0, 0, 1)] * (n - 1))
    # ... and next to another event f at every kind of gap, before or after it, f's data different / equal / the same object
    for order in ("eef", "efe"):
        for place in ("after", "before"):
            for g in (0, u, 3 * u, -50_000):
                for de in (0, u):
                    for rel in ("diff", "same", "shared"):
                        e = (0, de, 0)
                        f = ((de + g) if place == "after" else (-g - u), u, 1 if rel == "diff" else 0)
                        yield mk_case("flood", [[e, f]], p=p, share="class" if rel == "shared" else "none",
                                      deep=3 if rel == "shared" else 0,
                                      dups=[(0, 0, 1 if order == "eef" else 2)])
    # three-event chains with every event sharing one data dict: both fill directions in a row
    for g1, g2 in ((u, u), (u, 3 * u), (-50_000, u), (2 * u, 2 * u)):
        for ds in ((u, u, u), (3 * u, u, 2 * u), (u, 2 * u, 3 * u)):
            lay = chain([(0, ds[0], 0), (g1, ds[1], 0), (g2, ds[2], 0)])
            yield mk_case("flood", [lay], p=p, share="class", deep=0)
            yield mk_case("flood", [lay], p=p, share="class", deep=2, dups=[(0, 1, 3)])
    # millisecond scale, sub-millisecond durations (the setter floors the timestamps it writes)
    for d1 in (1500, 2000, 2250):
        for same in (0, 1):
            lay = chain([(0, d1, 0), (1000, 3000, 0 if same else 1)])
            yield mk_case("flood", [lay], p=0.002, share="class" if same else "none")
            yield mk_case("flood", [lay], p=0.002, deep=2, dups=[(0, 0, 2)])


PULSES = [0, 0.001, 0.0015, 0.5, 1, 2, 5, 0.0000005, 60]


def flood_random(rng):
    ms = 1000
    style = rng.choice(["chain", "chain", "chain", "ood"])
    n = rng.randrange(0, 7)
    pool = rng.sample([0, 1, 2, 3], rng.choice([1, 2, 2, 3]))
    spec = []
    if style == "chain":
        p = rng.choice(PULSES)
        P = pulse_us(p)
        near = [0, ms, max(0, (P // ms) * ms - ms), (P // ms) * ms, (P // ms) * ms + ms, 2 * P + ms, 7 * ms]
        for _ in range(n):
            gap = rng.choice(near) if rng.random() < 0.85 else rng.randrange(0, 12_000) * ms
            d = rng.choice([0, 0, ms, 2 * ms, 5 * ms, 1_000_000, 3_000_000, rng.randrange(0, 4000) * ms])
            if d and rng.random() < 0.1:
                d += rng.choice([1, 250, 999])
            spec.append((gap, d, rng.choice(pool)))
        slots = chain(spec)
    else:
        p = rng.choice([0, 1, 1, 2, 0.0015, 0.1, 0.0999])
        steps = [-200_000, -100_001, -100_000, -99_999, -50_000, -1000, -1, 0, 0, 1, 1000, 999_000, 1_000_000,
                 1_001_000, 2_000_000, 5_000_000]
        durs = [0, 1000, 150, 99_999, 100_000, 100_001, 500_000, 1_000_000, 1_000_500, 3_000_000, -1000, -1, 250_250]
        t, slots = 0, []
        for _ in range(n):
            t += rng.choice(steps)
            d = rng.choice(durs)
            slots.append((t, d, rng.choice(pool)))
            if rng.random() < 0.8:
                t += d
    if rng.random() < 0.5:
        slots = rng.sample(slots, len(slots))
    return mk_case("flood", [slots], p=p, stream="random:" + style, **rand_alias(rng, [len(slots)], binary=False))


# -- the binary transforms

HAND = [
    ([(1, 3), (8, 2), (15, 3)], [(2, 4), (11, 6), (20, 2)]),          # docstring of union_no_overlap
    ([(2, 7), (12, 8)], [(0, 6), (8, 3), (13, 3), (18, 4)]),           # docstring of filter_period_intersect
    ([(2, 7), (16, 9)], [(0, 6), (8, 3), (13, 2), (19, 4)]),           # docstring of period_union
    ([(0, 10)], [(2, 3)]),                                             # second wholly covered
    ([(2, 2), (6, 2), (10, 2)], [(0, 14)]),                            # one spanning several
    ([(0, 14)], [(2, 2), (6, 2), (10, 2)]),
    ([(4, 4)], [(2, 4)]), ([(4, 4)], [(6, 4)]), ([(2, 4)], [(2, 4)]),  # partly covered (front / back), identical
    ([(0, 2), (2, 2)], [(2, 2), (4, 2)]),                              # touching
    ([(2, 0), (2, 3)], [(2, 0), (3, 0), (5, 0)]),                      # zero-length
    ([(0, 5), (5, 5)], [(0, 5), (5, 5)]),                              # identical chains
    ([(3, 3), (0, 3), (6, 0)], [(2, 2), (4, 4), (0, 1)]),              # unsorted
    ([(0, 12)], [(1, 2), (4, 2), (11, 3)]),                            # several inside one, the last sticking out
    ([], [(0, 1)]), ([(0, 1)], []), ([], []),
]
BCONF = [
    dict(), dict(deep=1), dict(share="class"), dict(deep=2), dict(deep=3, share="class"),
    dict(same_list=True), dict(same_list=True, deep=2, dups=[(0, 0, 1)]),
    dict(cross=[(0, 0)]), dict(cross=[(0, 99), (1, 0)], deep=2),
    dict(dups=[(0, 0, 1)]), dict(dups=[(1, 0, 1)]),
    dict(dups=[(1, 0, 99), (0, 0, 0)], share="class", deep=3, cross=[(0, 1)]),
]


def binary_corpus(which):
    for k, (a, b) in enumerate(HAND):
        unit = 1000 if k % 2 == 0 else 1_000_000
        la = [(s * unit, d * unit, i % 3) for i, (s, d) in enumerate(a)]
        lb = [(s * unit, d * unit, (i + 1) % 3) for i, (s, d) in enumerate(b)]
        for cf in BCONF:
            yield mk_case(which, [la, lb], **cf)
    ivs = [(s, e - s) for s in range(4) for e in range(s, 4)]
    for a in ivs:
        for b in ivs:
            la, lb = [(a[0] * 1000, a[1] * 1000, 0)], [(b[0] * 1000, b[1] * 1000, 0)]
            for cf in (dict(), dict(share="class"), dict(deep=2)):
                yield mk_case(which, [la, lb], **cf)
    for a in ivs:                      # one Event, in both lists / the list itself twice
        la = [(a[0] * 1000, a[1] * 1000, 0)]
        yield mk_case(which, [la, []], cross=[(0, 0)], deep=1)
        yield mk_case(which, [la, []], same_list=True, deep=3)
    # sub-millisecond ends (written timestamps are floored) and negative durations
    for d in (1500, 2999, -1000):
        for cf in (dict(), dict(share="class", deep=2), dict(same_list=True)):
            yield mk_case(which, [[(0, 4000, 0), (5000, d, 0)], [(1000, d, 0), (3000, 4000, 0)]], **cf)
    # malformed: a plain dict where an Event is expected (AttributeError on both sides)
    for cf in (dict(), dict(deep=2)):
        c = mk_case(which, [[(0, 1000, 0)], []], stream="malformed", **cf)
        c["events"].append(["dict", 0])
        c["lists"] = [[1], []]
        yield c
        c = copy.deepcopy(c)
        c["lists"] = [[], [1]]
        yield c
        # the dict next to an Event: sorted() without a key compares them (TypeError from Event.__lt__ / dict <)
        # where union_no_overlap reads .timestamp (AttributeError)
        for ls in ([[0, 1], []], [[], [1, 0]], [[1, 0], [0]]):
            c = copy.deepcopy(c)
            c["lists"] = ls
            yield c


def rand_list(rng, style, n, unit, classes):
    out = []
    if style == "sorted":                       # sorted, internally non-overlapping (c15)
        t = rng.randrange(0, 4)
        for _ in range(n):
            t += rng.choice([0, 0, 0, 1, 1, 2, 3, 7])
            d = rng.choice([0, 0, 1, 1, 2, 3, 5, 9])
            out.append((t * unit, d * unit, rng.choice(classes)))
            t += d
    elif style == "chain":                      # a shuffled chain, some sub-millisecond ends (c09)
        t = rng.randrange(0, 4)
        for _ in range(n):
            t += rng.choice([0, 0, 0, 1, 1, 2, 5])
            d = rng.choice([0, 0, 1, 1, 2, 3, 7]) * unit
            if d and rng.random() < 0.25:
                d -= rng.choice([1, 250, 999])
            out.append((t * unit, d, rng.choice(classes)))
            t += -(-d // unit)
        rng.shuffle(out)
    elif style == "any":                        # arbitrary placement, overlaps
        for _ in range(n):
            t = rng.randrange(0, 14)
            d = rng.choice([0, 0, 1, 1, 2, 3, 6, 12]) * unit + rng.choice([0, 0, 0, 1, 500])
            out.append((t * unit, d, rng.choice(classes)))
    else:                                       # out of every domain: negative, sub-ms, unsorted
        for _ in range(n):
            t = rng.randrange(0, 12) * unit + rng.choice([0, 0, 0, 1, 500, 999])
            d = rng.choice([-2, -1, 0, 1, 1, 2, 3, 5, 8]) * unit + rng.choice([0, 0, 0, 1, -1, 250, 499, 500, 999])
            out.append((t, d, rng.choice(classes)))
        if rng.random() < 0.5:
            out.sort(key=lambda s: s[0])
    return out


STYLES = {"union_no_overlap": ["sorted"] * 7 + ["ood"] * 2 + ["any"],
          "filter_period_intersect": ["chain"] * 6 + ["sorted"] + ["any"] * 2 + ["ood"],
          "period_union": ["any"] * 5 + ["chain"] * 3 + ["sorted", "ood"]}


def binary_random(which, rng):
    unit = rng.choice([1000, 1000, 1_000_000, 250_000])
    style = rng.choice(STYLES[which])
    classes = rng.sample([0, 1, 2, 3], rng.choice([1, 2, 3]))
    na, nb = rng.choice([0, 1, 1, 2, 3, 4]), rng.choice([0, 1, 1, 2, 3, 4])
    la, lb = rand_list(rng, style, na, unit, classes), rand_list(rng, style, nb, unit, classes)
    al = rand_alias(rng, [len(la), len(lb)], binary=True)
    if al.get("cross") and style in ("sorted",) and rng.random() < 0.7:
        # keep the second list sorted by start: insert the shared Event where it belongs
        cross = []
        for src, _ in al["cross"]:
            ts = la[src % len(la)][0] if la else 0
            cross.append((src, sum(1 for s in lb if s[0] <= ts)))
        al["cross"] = cross[:1]
    return mk_case(which, [la, lb], stream="random:" + style, **al)


def rand_alias(rng, lens, binary):
    """random aliasing configuration; about a fifth of the cases stay plain"""
    al = {"share": rng.choice(["none", "none", "class"]), "deep": rng.choice([0, 0, 1, 2, 3])}
    if rng.random() < 0.2:
        al = {"share": "none", "deep": rng.choice([0, 1])}
    dups = []
    if rng.random() < 0.35:
        for _ in range(rng.choice([1, 1, 2])):
            li = rng.randrange(len(lens))
            if lens[li]:
                src = rng.randrange(lens[li])
                dups.append((li, src, src + 1 if rng.random() < 0.6 else rng.randrange(0, lens[li] + 2)))
    al["dups"] = dups
    if binary:
        if rng.random() < 0.12:
            al["same_list"] = True
        elif rng.random() < 0.25 and lens[0]:
            al["cross"] = [(rng.randrange(lens[0]), rng.randrange(0, lens[1] + 1)) for _ in range(rng.choice([1, 1, 2]))]
    if rng.random() < 0.06:
        al["raw"] = True
    if rng.random() < 0.3:
        al["noid"] = tuple(sorted(rng.sample(range(sum(lens) + 2), rng.randrange(0, 3))))
    return al


def gen_cases(which, rng, n_random):
    if which == "flood":
        yield from flood_corpus()
        # malformed: a plain dict in the list
        c = mk_case("flood", [[(0, 1000, 0)]], p=1, stream="malformed")
        c["events"].append(["dict", 0])
        c["lists"] = [[1]]
        yield c
        c = copy.deepcopy(c)
        c["lists"] = [[0, 1]]
        yield c
        for _ in range(n_random):
            yield flood_random(rng)
    else:
        yield from binary_corpus(which)
        for _ in range(n_random):
            yield binary_random(which, rng)


# ---------------------------------------------------------------------------
# building the Python objects of a case

def inst(t, nested_objs):
    if isinstance(t, dict):
        if set(t) == {"$ref"}:
            return nested_objs[t["$ref"]]
        return {k: inst(v, nested_objs) for k, v in t.items()}
    if isinstance(t, list):
        return [inst(v, nested_objs) for v in t]
    return t


class Built:
    pass


def build(case, Event):
    b = Built()
    b.nested = []
    for t in case["nested"]:
        b.nested.append(inst(t, b.nested))
    b.data = [inst(t, b.nested) for t in case["data"]]
    b.events = []
    for spec in case["events"]:
        if spec[0] == "dict":
            b.events.append(b.data[spec[1]])
            continue
        eid, ts, dur, di, raw = spec
        e = mk_event(Event, BASE + ts, dur, b.data[di], eid=eid)
        dict.__setitem__(e, "data", b.data[di])        # the constructor replaces a falsy data dict by a new {}
        if raw:
            dict.__setitem__(e, "timestamp", dt(BASE + ts))   # past the setter: not floored to the millisecond
        b.events.append(e)
    lists = [[b.events[i] for i in l] for l in case["lists"]]
    if case["which"] == "flood":
        b.args, b.argnames = [lists[0]], ["events"]
    elif case.get("same_list"):
        b.args, b.argnames = [lists[0], lists[0]], ["events1", "events1"]
    else:
        b.args, b.argnames = [lists[0], lists[1]], ["events1", "events2"]
    b.hint = {}
    for i, o in enumerate(b.nested):
        b.hint[id(o)] = "N%d" % i
    for i, o in enumerate(b.data):
        b.hint[id(o)] = "D%d" % i
    for i, o in enumerate(b.events):
        b.hint.setdefault(id(o), "E%d" % i)
    return b


def tstr(t):
    if isinstance(t, dict):
        if set(t) == {"$ref"}:
            return "N%d" % t["$ref"]
        return "{" + ", ".join("%r: %s" % (k, tstr(v)) for k, v in t.items()) + "}"
    if isinstance(t, list):
        return "[" + ", ".join(tstr(v) for v in t) + "]"
    return repr(t)


def refs_in(t, out):
    if isinstance(t, dict):
        if set(t) == {"$ref"}:
            out.append(t["$ref"])
        else:
            for v in t.values():
                refs_in(v, out)
    elif isinstance(t, list):
        for v in t:
            refs_in(v, out)
    return out


def describe(case):
    """human-readable, self-contained: the call, the lists, which positions/objects alias which"""
    which = case["which"]
    names = ["events"] if which == "flood" else (["events1", "events1"] if case.get("same_list") else ["events1", "events2"])
    lists = case["lists"] if not case.get("same_list") else [case["lists"][0], case["lists"][0]]
    out = {"call": "%s(%s)" % (which, ", ".join(names + (["pulsetime=%r" % case["pulsetime"]] if which == "flood" else [])))}
    used_e, used_d = [], []
    for n, l in zip(names, lists):
        row = []
        for i in l:
            spec = case["events"][i]
            if spec[0] == "dict":
                row.append("D%d (a plain dict, not an Event)" % spec[1])
                di = spec[1]
            else:
                eid, ts, dur, di, raw = spec
                row.append("E%d = Event(id=%r, ts_rel_us=%d%s, dur_us=%d, data=D%d)" % (i, eid, ts, " (stored unfloored)" if raw else "", dur, di))
            if i not in used_e:
                used_e.append(i)
            if di not in used_d:
                used_d.append(di)
        out[n] = row
    out["data"] = {"D%d" % d: tstr(case["data"][d]) for d in used_d}
    holders = {}
    todo, seen = [("D%d" % d, case["data"][d]) for d in used_d], set()
    while todo:
        name, t = todo.pop(0)
        for r in refs_in(t, []):
            holders.setdefault(r, []).append(name)
            if r not in seen:
                seen.add(r)
                todo.append(("N%d" % r, case["nested"][r]))
    if seen:
        out["nested"] = {"N%d" % r: tstr(case["nested"][r]) for r in sorted(seen)}
    al = []
    if case.get("same_list"):
        al.append("the same list object is passed as both arguments")
    for n, l in zip(names[:1] if case.get("same_list") else names, lists):
        for i in sorted(set(l)):
            pos = [k for k, x in enumerate(l) if x == i]
            if len(pos) > 1:
                al.append("%s[%s] are the same object E%d" % (n, "], [".join(map(str, pos)), i))
    if len(lists) == 2 and not case.get("same_list"):
        for i in sorted(set(lists[0]) & set(lists[1])):
            al.append("E%d is an element of both lists" % i)
    for d in used_d:
        es = [i for i in used_e if case["events"][i][0] != "dict" and case["events"][i][3] == d]
        if len(es) > 1:
            al.append("D%d is the data dict of %s" % (d, ", ".join("E%d" % i for i in es)))
    for r, hs in sorted(holders.items()):
        if len(hs) > 1:
            al.append("N%d is a member of %s" % (r, ", ".join(hs)))
    out["aliasing"] = al or ["none"]
    return out


# ---------------------------------------------------------------------------
# the object table = the model's input heap

def is_cell(x):
    return isinstance(x, (dict, list))


class Env:
    """the implementation under test (imported once)"""
    _inst = None

    def __init__(self):
        from aw_core.models import Event
        from aw_transform.flood import flood
        from aw_transform.union_no_overlap import union_no_overlap
        from aw_transform.filter_period_intersect import filter_period_intersect, period_union
        self.Event = Event
        self.f = {"flood": flood, "union_no_overlap": union_no_overlap,
                  "filter_period_intersect": filter_period_intersect, "period_union": period_union}
        self.labels = SafeLabels()
        assert self.labels.label({}) == EMPTY_DICT

    @classmethod
    def get(cls):
        if cls._inst is None:
            cls._inst = Env()
        return cls._inst


class SafeLabels(common.Labels):
    """common.Labels keeping a private copy of every representative (an implementation that mutates
    a caller's dict must not corrupt the classes)"""

    def label(self, v):
        for i, r in enumerate(self.reps):
            if r == v:
                return i
        self.reps.append(copy.deepcopy(v))
        return len(self.reps) - 1


def kids(o, Event):
    """the mutable members of a mutable object, in iteration order"""
    if isinstance(o, Event):
        d = dict.get(o, "data")            # the object e.data returns
        return [d] if is_cell(d) else []
    if isinstance(o, dict):
        return [v for v in dict.values(o) if is_cell(v)]
    return [v for v in o if is_cell(v)]


class Table:
    """objects <-> locations, by identity; the table keeps every object alive"""

    def __init__(self):
        self.objs, self.names, self.idx = [], [], {}

    def loc(self, o):
        i = self.idx.get(id(o))
        return i if i is not None and self.objs[i] is o else None

    def add(self, o, name):
        self.idx[id(o)] = len(self.objs)
        self.objs.append(o)
        self.names.append(name)


def register(b, Event):
    tb = Table()
    stack = [(a, n) for a, n in zip(b.args, b.argnames)][::-1]
    while stack:
        o, name = stack.pop()
        if tb.loc(o) is not None:
            continue
        name = b.hint.get(id(o), name)
        tb.add(o, name)
        stack.extend([(k, "%s.%d" % (name, j)) for j, k in enumerate(kids(o, Event))][::-1])
    return tb


def encode_heap(tb, args, env):
    heap = []
    for o in tb.objs:
        ks = [tb.loc(k) for k in kids(o, env.Event)]
        if any(o is a for a in args):
            heap.append([1, EVENT_LIST, ks])
        elif isinstance(o, env.Event):
            heap.append([0, common.opt(o.id), us_of_dt(o.timestamp), us_of_td(o.duration), ks])
        else:
            heap.append([1, env.labels.label(o), ks])
    return heap


def render(o, tb):
    """canonical rendering of ONE object's own content: scalars by type and value, mutable members
    by identity (their location in the table, or 'non-input')"""
    def item(v):
        if is_cell(v):
            i = tb.loc(v)
            return ["ref", tb.names[i] if i is not None else "<an object that is not an input object>"]
        if isinstance(v, datetime):
            return ["datetime", us_of_dt(v) - BASE, str(v.utcoffset())]
        if isinstance(v, timedelta):
            return ["timedelta", us_of_td(v)]
        return [type(v).__name__, repr(v)]
    if isinstance(o, dict):
        return [type(o).__name__, [[k, item(v)] for k, v in dict.items(o)]]
    return ["list", [item(v) for v in o]]


def reach(root, Event):
    """every mutable object reachable from root (root included), each once, kept alive"""
    seen, out, stack = set(), [], [root]
    while stack:
        o = stack.pop()
        if not is_cell(o) or id(o) in seen:
            continue
        seen.add(id(o))
        out.append(o)
        stack.extend(kids(o, Event))
        if isinstance(o, Event):       # anything else a defective transform may have hung on the Event
            stack.extend(v for v in dict.values(o) if is_cell(v))
    return out


def alias_features(b, tb, Event):
    f = []
    args = b.args
    if len(args) == 2 and args[0] is args[1]:
        f.append("same-list-both-args")
    for a in (args[:1] if len(args) == 2 and args[0] is args[1] else args):
        if len({id(x) for x in a}) < len(a):
            f.append("same-event-twice")
            break
    if len(args) == 2 and args[0] is not args[1] and {id(x) for x in args[0]} & {id(x) for x in args[1]}:
        f.append("lists-share-events")
    parents = {}
    for o in tb.objs:
        if any(o is a for a in args):
            continue
        for k in kids(o, Event):
            parents.setdefault(tb.loc(k), []).append((tb.loc(o), isinstance(o, Event)))
    if any(len(ps) > 1 and all(ev for _, ev in ps) for ps in parents.values()):
        f.append("shared-data")
    if any(len(ps) > 1 and not all(ev for _, ev in ps) for ps in parents.values()):
        f.append("shared-nested")
    return f


# ---------------------------------------------------------------------------
# one case on the implementation + the oracle

class Rec:
    pass


def run_case(case, env):
    which = case["which"]
    b = build(case, env.Event)
    tb = register(b, env.Event)
    r = Rec()
    r.case, r.which, r.built, r.tb = case, which, b, tb
    r.n_in = len(tb.objs)
    r.arg_locs = [tb.loc(a) for a in b.args]
    r.heap = encode_heap(tb, b.args, env)
    if which == "flood":
        r.wire = sx([0, r.heap, r.arg_locs[0], pulse_us(case["pulsetime"])])
    else:
        r.wire = sx([CALLNO[which], r.heap, r.arg_locs[0], r.arg_locs[1]])
    r.features = alias_features(b, tb, env.Event)
    r.snap = [render(o, tb) for o in tb.objs]
    r.err, r.out = None, None
    try:
        if which == "flood":
            r.out = env.f[which](b.args[0], case["pulsetime"])
        else:
            r.out = env.f[which](b.args[0], b.args[1])
    except Exception as ex:  # noqa: BLE001 -- the class is the observation
        r.err = type(ex).__name__
    r.findings = []
    r.overwritten = 0
    oracle(r, env)
    return r


def oracle(r, env):
    """the clause 'the inputs are not modified' on the implementation; no model involved"""
    tb, which, Event = r.tb, r.which, env.Event
    prop = PROP[which]
    now = [render(o, tb) for o in tb.objs]
    r.shared_out = []
    if r.out is not None:
        r.shared_out = [tb.names[tb.loc(o)] for o in reach(r.out, Event) if tb.loc(o) is not None]
    if which != "period_union":
        changed = [{"object": tb.names[i], "before": r.snap[i], "after": now[i]}
                   for i in range(r.n_in) if now[i] != r.snap[i]]
        if changed:
            r.findings.append((prop + ":input-modified",
                               "%s modified %d of the caller's objects (first: %s)" % (which, len(changed), changed[0]["object"]),
                               {"changed_objects": changed[:6]}))
        if r.shared_out:
            r.findings.append((prop + ":output-shares-input",
                               "the list returned by %s reaches %d of the caller's own objects (%s): a later edit of the "
                               "result would modify the input" % (which, len(r.shared_out), ", ".join(r.shared_out[:6])),
                               {"input_objects_reachable_from_result": r.shared_out[:12]}))
        return
    # period_union: documented to overwrite .data of the caller's events that end up in the result
    bad = []
    for i, o in enumerate(tb.objs):
        if now[i] == r.snap[i]:
            continue
        if not isinstance(o, Event):
            bad.append({"object": tb.names[i], "what": "a list / data object changed", "before": r.snap[i], "after": now[i]})
            continue
        b_items, a_items = r.snap[i][1], now[i][1]
        if [k for k, _ in b_items] != [k for k, _ in a_items] or \
                any(x != y for x, y in zip(b_items, a_items) if x[0] != "data"):
            bad.append({"object": tb.names[i], "what": "id / timestamp / duration / keys of an input Event changed",
                        "before": r.snap[i], "after": now[i]})
            continue
        new = dict.get(o, "data")
        in_result = r.out is not None and any(o is x for x in r.out)
        if in_result and type(new) is dict and len(new) == 0 and tb.loc(new) is None:
            r.overwritten += 1
        else:
            bad.append({"object": tb.names[i], "what": "data reference of an input Event changed, and it is not "
                        "(an element of the result, now holding a new empty dict)", "before": r.snap[i], "after": now[i]})
    if bad:
        r.findings.append(("C09:period_union-frame",
                           "period_union changed the caller's objects beyond the .data reference of the events it returns "
                           "(first: %s: %s)" % (bad[0]["object"], bad[0]["what"]), {"changed_objects": bad[:6]}))


# ---------------------------------------------------------------------------
# correspondence with the model

def _shape_str(node):
    name, ks = node
    if ks == "...":
        return name + "(...)"
    return name + ("(" + ",".join(_shape_str(k) for k in ks) + ")" if ks else "")


def shape_impl(r, env):
    """sharing description of the result: every object named in<loc> (an input object) or new<k>
    (first-visit order), unfolded from the returned list; one string per element, members in parentheses"""
    names, tb = {}, r.tb
    keep = []

    def name(o):
        i = tb.loc(o)
        if i is not None:
            return "in%d" % i
        if id(o) not in names:
            names[id(o)] = "new%d" % len(names)
            keep.append(o)
        return names[id(o)]

    def go(o, depth):
        if depth > 12:
            return [name(o), "..."]
        return [name(o), [go(k, depth + 1) for k in kids(o, env.Event)]]
    if r.tb.loc(r.out) is not None:
        return ["the returned list is in%d" % r.tb.loc(r.out)]
    return [_shape_str(go(k, 0)) for k in kids(r.out, env.Event)]


def shape_model(heap, L, n_in):
    names = {}

    def name(l):
        if l < n_in:
            return "in%d" % l
        if l not in names:
            names[l] = "new%d" % len(names)
        return names[l]

    def go(l, depth):
        if depth > 12 or l >= len(heap):
            return [name(l), "..."]
        return [name(l), [go(k, depth + 1) for k in heap[l][-1]]]
    if L < n_in:
        return ["the returned list is in%d" % L]
    return [_shape_str(go(k, 0)) for k in heap[L][-1]]


def correspond(r, mo, env):
    """None, or a description of the first difference between model and implementation"""
    try:
        return _correspond(r, mo, env)
    except Exception as ex:  # noqa: BLE001 -- a result the walk cannot even read is a difference
        return "the implementation's result could not be compared with the model's: %s: %s" % (type(ex).__name__, str(ex)[:200])


def _correspond(r, mo, env):
    which, tb, Event = r.which, r.tb, env.Event
    if not isinstance(mo, list) or not mo or mo == [-999]:
        return "the driver could not decode the case"
    if mo[0] == 2:
        return "the model ran out of fuel (implementation: %s)" % (r.err or "returned")
    if mo[0] == 1:
        if r.err is None:
            return "the model raises %s, the implementation returns" % ERRNAME.get(mo[1], mo[1])
        if ERRCODE.get(r.err, 10) != mo[1]:
            return "the model raises %s, the implementation raises %s" % (ERRNAME.get(mo[1], mo[1]), r.err)
        return None
    if r.err is not None:
        return "the implementation raises %s, the model returns" % r.err
    heap2, Lout = mo[1]
    if len(heap2) < r.n_in:
        return "the model's heap shrank"
    if not isinstance(r.out, list):
        return "the implementation returned a %s" % type(r.out).__name__
    o2l, l2o, keep, queue = {}, {}, [], []
    special = set(r.arg_locs) | {Lout}

    def oname(o):
        i = tb.loc(o)
        return tb.names[i] if i is not None else "a new %s" % type(o).__name__

    def pair(obj, loc, path):
        i = o2l.get(id(obj))
        if i is not None:
            if i != loc:
                return ("%s: the implementation has here the object (%s) that corresponds to model location %d, the model "
                        "has location %d (the sharing graphs differ)" % (path, oname(obj), i, loc))
            return None
        if loc in l2o:
            return ("%s: the model has here location %d, which corresponds to %s; the implementation has a different "
                    "object (%s) (the model shares, the implementation does not)" % (path, loc, oname(l2o[loc]), oname(obj)))
        o2l[id(obj)] = loc
        l2o[loc] = obj
        keep.append(obj)
        queue.append((obj, loc, path))
        return None

    for i, o in enumerate(tb.objs):
        pair(o, i, tb.names[i])
    bad = pair(r.out, Lout, "result")
    if bad:
        return bad
    while queue:
        obj, loc, path = queue.pop(0)
        if loc >= len(heap2):
            return "%s: dangling model location %d" % (path, loc)
        cell = heap2[loc]
        if isinstance(obj, Event):
            mine = [0, common.opt(dict.get(obj, "id")), us_of_dt(obj["timestamp"]), us_of_td(obj.duration)]
            if cell[0] != 0 or cell[1:4] != mine[1:]:
                return "%s: model cell %s, implementation Event (id, ts, dur) = %s" % (path, relcell(cell), relcell(mine))
        else:
            if cell[0] != 1:
                return "%s: model cell %s is an Event, the implementation has a %s" % (path, relcell(cell), type(obj).__name__)
            if loc not in special:
                lab = env.labels.label(obj)
                if cell[1] != lab:
                    return "%s: model payload label %d (%r), implementation value %r (label %d)" % (
                        path, cell[1], env.labels.value(cell[1]) if 0 <= cell[1] < len(env.labels.reps) else "?", obj, lab)
        ks_m, ks_p = cell[-1], kids(obj, Event)
        if len(ks_m) != len(ks_p):
            return "%s: the model has %d mutable members here, the implementation %d" % (path, len(ks_m), len(ks_p))
        for j, (ko, kl) in enumerate(zip(ks_p, ks_m)):
            bad = pair(ko, kl, "%s[%d]" % (path, j) if not isinstance(obj, Event) else path + ".data")
            if bad:
                return bad
    # redundant cross-check through an independent route: the unfolded, renamed shapes of the two results
    sm, si = shape_model(heap2, Lout, r.n_in), shape_impl(r, env)
    if sm != si:
        return "sharing description of the result differs: model %s implementation %s" % (sm, si)
    return None


def relcell(c):
    c = list(c)
    if c and c[0] == 0 and len(c) >= 4:
        c[2] = c[2] - BASE
    return c


# ---------------------------------------------------------------------------
# shrinking, replay

def shrink_case(case, fails, max_steps=120):
    """drop list positions while `fails` stays true"""
    cur, steps, progress = case, 0, True
    while progress and steps < max_steps:
        progress = False
        for li in range(len(cur["lists"])):
            for pos in range(len(cur["lists"][li])):
                cand = copy.deepcopy(cur)
                del cand["lists"][li][pos]
                steps += 1
                try:
                    if fails(cand):
                        cur, progress = cand, True
                        break
                except Exception:  # noqa: BLE001
                    pass
            if progress:
                break
    return cur


def model_of(r):
    return common.run_driver(DRIVER, [r.wire])[0]


def rerun_cmd(case):
    return "cd %s && VERIF_REPO=%s /venv/bin/python -m harness.theap replay '%s'" % (
        common.VERIF, common.REPO, json.dumps(case, separators=(",", ":")))


def replay_obj(r, extra=None):
    d = {"case": r.case, "described": describe(r.case), "implementation": impl_view(r), "rerun": rerun_cmd(r.case)}
    d.update(extra or {})
    return d


def impl_view(r):
    if r.err is not None:
        return {"raised": r.err}
    env = Env.get()
    try:
        return {"returned (id, ts_rel_us, dur_us, data)": [
            [e.id, us_of_dt(e.timestamp) - BASE, us_of_td(e.duration), repr(e.data)] if isinstance(e, env.Event) else repr(e)
            for e in r.out], "sharing (in<k> = input object at location k)": shape_impl(r, env)}
    except Exception as ex:  # noqa: BLE001
        return {"returned": repr(r.out)[:300], "note": "could not be rendered: %s" % ex}


def replay(case, use_driver=True):
    """run one case spec on the implementation (oracle) and, when build/THEAP/driver exists, on the model"""
    env = Env.get()
    r = run_case(case, env)
    out = {"described": describe(case), "implementation": impl_view(r),
           "oracle": [{"signature": s, "description": d, "details": x} for s, d, x in r.findings] or "inputs not modified",
           "input_events_whose_data_was_overwritten": r.overwritten}
    if use_driver and os.path.exists(os.path.join(common.BUILD, DRIVER, "driver")):
        mo = model_of(r)
        out["model"] = ({"returned_sharing": shape_model(mo[1][0], mo[1][1], r.n_in)} if mo and mo[0] == 0 else
                        {"raised": ERRNAME.get(mo[1], mo[1])} if mo and mo[0] == 1 else {"raw": mo})
        out["correspondence"] = correspond(r, mo, env) or "model and implementation agree"
    return out


# ---------------------------------------------------------------------------
# the check

def prepare(ck):
    """build build/THEAP/driver from coq/Extract/ExTHeap.v (the model's .vo first when it is stale)"""
    global DRIVER
    # one driver directory per calling property: C10, C15 and C09 may run at the same time
    DRIVER = "THEAP" if ck.prop == "THEAP" else "THEAP_" + ck.prop
    v = os.path.join(common.COQ, "Model", "TransformHeap.v")
    vo = v + "o"
    try:
        if not os.path.exists(vo) or os.path.getmtime(vo) < os.path.getmtime(v):
            ok, out = common.coq_make(["Model/TransformHeap.vo"], ck.log)
            if not ok:
                ck.broken.append("heap model of the transforms no longer compiles (Model/TransformHeap.v): " + out[-300:])
                return False
        ok, out = common.build_driver(DRIVER, ck.log, "ExTHeap")
    except Exception as ex:  # noqa: BLE001
        ok, out = False, "%s: %s" % (type(ex).__name__, ex)
    if not ok:
        ck.broken.append("heap model of the transforms no longer extracts/compiles (ExTHeap): " + out[-300:])
    return ok


def _report_findings(ck, r, env, done):
    for sig, desc, extra in r.findings:
        rr, fx = r, (sig, desc, extra)
        if sig not in done:
            done.add(sig)
            small = shrink_case(r.case, lambda c, sig=sig: any(s == sig for s, _, _ in run_case(c, env).findings))
            r2 = run_case(small, env)
            hit = [f for f in r2.findings if f[0] == sig]
            if hit:
                rr, fx = r2, hit[0]
        ck.failing_input(fx[0], "%s on %s" % (fx[1], json.dumps(describe(rr.case), default=str)[:600]),
                         replay_obj(rr, {"what_changed": fx[2], "signature": fx[0]}))


def heap_check(ck, which, have_driver=True, n_random=None):
    """the whole check for one transform or a list of them; `ck` is the caller's Check, the driver is
    build/THEAP/driver (prepare)"""
    env = Env.get()
    if isinstance(which, str):
        which = [which]
    quick = ck.tier == "quick"
    for w in which:
        n = n_random if n_random is not None else (700 if quick else 20000)
        cases = list(gen_cases(w, ck.rng, n))
        done_sigs, disagreed, samples = set(), 0, 0
        for lo in range(0, len(cases), 5000):
            recs = [run_case(c, env) for c in cases[lo:lo + 5000]]
            model = None
            if have_driver:
                try:
                    model = common.run_driver(DRIVER, [r.wire for r in recs])
                except Exception as ex:  # noqa: BLE001
                    ck.disagreement("theap-" + w, "the model driver failed: %s" % str(ex)[:300], {"transform": w})
            for k, r in enumerate(recs):
                feats = r.features
                ck.count(w + ":cases")
                ck.count("%s:stream:%s" % (w, r.case["stream"].split(":")[0]))
                for f in feats or ["plain"]:
                    ck.count("%s:alias:%s" % (w, f))
                if r.err is not None:
                    ck.count("%s:raised:%s" % (w, r.err))
                if r.out:
                    ck.count(w + ":nonempty-result")
                if r.shared_out:
                    ck.count(w + ":result-shares-object-with-input")
                    for f in feats or ["plain"]:
                        ck.count("%s:alias:%s:result-shares-object-with-input" % (w, f))
                if w == "flood" and "same-event-twice" in feats:
                    ck.count("flood:same-Event-object-twice-in-list")
                if r.overwritten:
                    ck.count("period_union:input-event-data-overwritten", r.overwritten)
                    ck.count("period_union:cases-with-input-event-data-overwritten")
                if r.findings:
                    _report_findings(ck, r, env, done_sigs)
                ck.note_case([r.case["which"], r.case["pulsetime"], r.case["nested"], r.case["data"], r.case["events"],
                              r.case["lists"], r.case["same_list"]], nontrivial=bool(feats) and bool(r.out))
                if model is None:
                    continue
                mo = model[k]
                if mo and mo[0] == 0 and mo[1][1] >= r.n_in and any(
                        l < r.n_in for l in _model_reach(mo[1][0], mo[1][1])):
                    ck.count(w + ":model:result-shares-object-with-input")
                bad = correspond(r, mo, env)
                if bad:
                    disagreed += 1
                    rr = r
                    if disagreed == 1:
                        small = shrink_case(r.case, lambda c: correspond(*_with_model(c, env)) is not None)
                        r2 = run_case(small, env)
                        mo2 = model_of(r2)
                        b2 = correspond(r2, mo2, env)
                        if b2:
                            rr, mo, bad = r2, mo2, b2
                    ck.disagreement("theap-" + w, "%s on %s" % (bad, json.dumps(describe(rr.case), default=str)[:600]),
                                    replay_obj(rr, {"difference": bad, "wire": rr.wire,
                                                    "model": _model_view(mo, rr.n_in)}))
                elif samples < 2 and feats and r.out and r.case["stream"] == "corpus" and \
                        (samples == 0 or {"same-event-twice", "same-list-both-args", "lists-share-events"} & set(feats)):
                    samples += 1
                    ck.sample({"transform": w, "case": describe(r.case), "aliasing": feats,
                               "implementation": impl_view(r), "model": _model_view(mo, r.n_in),
                               "input_objects_unchanged": not r.findings}, limit=10 ** 9)
        if disagreed:
            ck.count(w + ":disagreements", disagreed)
    ck.assumptions += [
        "heap model of the transforms (Model/TransformHeap.v): one cell per mutable Python object (list, Event, data dict, "
        "nested dict/list); immutable scalars are folded into payload labels assigned by the harness (one per Python == class "
        "of the whole value); data is acyclic and JSON-like",
        "'the inputs are not modified' is decided on the implementation by the oracle (content + member identities of every "
        "reachable input object before/after, and no input object reachable from the result); for period_union the documented "
        "weaker frame (the .data reference of the caller's events that are returned is overwritten with a new empty dict)",
        "allocation order of copies is not observable: model locations and Python objects are matched by a bijection found by "
        "a simultaneous walk, not by address",
    ]


def _with_model(case, env):
    r = run_case(case, env)
    return r, model_of(r), env


def _model_reach(heap, L):
    seen, stack = set(), [L]
    while stack:
        l = stack.pop()
        if l in seen or l >= len(heap):
            continue
        seen.add(l)
        stack.extend(heap[l][-1])
    return seen


def _model_view(mo, n_in):
    if not mo:
        return {"raw": mo}
    if mo[0] == 1:
        return {"raised": ERRNAME.get(mo[1], mo[1])}
    if mo[0] != 0:
        return {"raw": mo}
    heap, L = mo[1]
    evs = []
    for l in (heap[L][-1] if L < len(heap) else []):
        c = heap[l] if l < len(heap) else None
        evs.append([common.unopt(c[1]), c[2] - BASE, c[3], "label %d" % heap[c[4][0]][1] if c[4] and c[4][0] < len(heap) else "?"]
                   if c and c[0] == 0 else c)
    return {"returned (id, ts_rel_us, dur_us, data label)": evs,
            "sharing (in<k> = input object at location k)": shape_model(heap, L, n_in)}


PROPS = ["Props/C10own.v", "Props/C15own.v", "Props/C09own.v"]


def main(argv=None):
    argv = argv if argv is not None else sys.argv[1:]
    if argv and argv[0] == "replay":
        common.setup_impl_env()
        src = argv[1]
        case = json.load(open(src)) if os.path.exists(src) else json.loads(src)
        if "which" not in case:            # a replay file written by Check.finish
            case = case.get("replay", case).get("case") or case["disagreements"][0]["case"]
        print(json.dumps(replay(case), indent=1, default=str))
        return 0
    ck = Check("THEAP", argv)
    common.setup_impl_env()
    if all(os.path.exists(os.path.join(common.COQ, p)) for p in PROPS):
        ck.prove(props_file=PROPS[0], extra_targets=PROPS[1:])
    ok = prepare(ck)
    heap_check(ck, list(WHICH), have_driver=ok)
    return ck.finish(RULE)


if __name__ == "__main__":
    sys.exit(main())
