"""C01 — stored events come back exactly as inserted, and the store owns its copy.

Tie A on the three real back ends (memory, sqlite temp file, peewee temp file), through the
Datastore / Bucket API the property names (Bucket.insert, Bucket.get, Bucket.get_by_id,
Bucket.metadata):

* property oracle (the statement on exact integers): an event built from (instant us, tz offset,
  duration us, nested JSON data) is inserted, singly or in bulk; the id is new and unique in the
  bucket; listing and lookup-by-id return floor_ms(instant), the duration to the us and equal data
  (Python == and the same canonical JSON text); earlier events are still listed unchanged;
* correspondence with the store models Model/{Mem,Sqlite,Peewee}Store.v (driver ExC02): the same
  inserts / listings / lookups on the extracted models: exact ids, listing order, payloads;
* correspondence with the PyFloat codec models Model/Codec.v, evaluated inside Coq
  (harness/floatcases.py) on the RAW CELLS read from the SQLite files of both SQL back ends:
  cells = model encode, model decode of the cells = what the API read back;
* ownership: harness/c01_own.py (heap model MemHeap vs MemoryStorage: sharing graphs; mutate
  everything, re-read on all back ends) plus a direct mutate-and-reread pass on nested data here.
"""
import copy
import json
import math
import multiprocessing
import os
import shutil
import sys
import tempfile
from datetime import datetime, timedelta, timezone

from . import common
from . import edgevals as ev
from . import floatcases as fc
from . import store_hist as sh
from . import tieb_stores
from .common import Check
from .evutil import EPOCH, US, SynthZone

RULE = ("deterministic boundary corpus: instants at and +-1us/+-1ms around 1970-01-01, 10^15 us, 2^31 s / 2038-01-19, "
        "2^51 us (2041-05-10), 2100-01-01, year / leap-day / month / DST-switch boundaries, every millisecond "
        "residue 0..999 of one second, sub-millisecond parts 1/499/500/999 us; tz offsets -12:00..+14:00 incl. "
        "+05:45, -09:30, +00:01, -00:01, +01:23; durations 0, 1 us, 2^k and 2^k+-1 (k<=41), 10^k and 10^k+-1 "
        "(k<=12), 1 day+-1us, 2d03:00:00.250001, 30 days+-1us; nested JSON data (unicode, quotes, backslashes, "
        "control characters, lone surrogate, floats incl. 1e-7 / 1e22 / -0.0 / subnormal / max, big ints, null, "
        "booleans, empty containers, depth 40); single inserts (listing + lookup after each) and bulk inserts of "
        "sizes 1, 2, 99, 100, 101, 201 (both orders) and 0; then seeded random mixed scenarios; then HISTORIES in which "
        "the bucket is not append-only: delete of the event at every position of buckets of 1-4 events / of every "
        "event / of the newest, replace, replace_last, bulk upsert (stored ids mixed with new events), writes to a "
        "second bucket in between, delete + re-create of the bucket, each followed by further inserts (listing + "
        "lookup of every listed id after every step), deterministic then seeded random; every scenario on "
        "memory, sqlite, peewee; non-trivial = an event with a sub-ms instant, a non-UTC offset, a duration of a "
        "day or more, or nested data.  Round 5: data with lone high / lone low surrogates (cut-off titles), astral code points, "
        "NUL, U+2028 as values and keys, and data built from dict / list / str / int SUBCLASSES (OrderedDict, defaultdict, a list "
        "subclass, str / int subclasses) at every depth - in the read-back scenarios and in the mutate-and-reread pass; timestamps "
        "in PEP 495 zones beside an offset change (repeated hour with fold=1 and fold=0, its last second, after / before a gap, "
        "half-hour change), ms-aligned and with sub-ms parts, singly and in bulk; histories with UNREAD acknowledged inserts "
        "followed by a bulk insert that fails inside the engine (stale Bucket object of a deleted bucket, a bucket that never "
        "existed, an id 2**63) and that the caller survives: every acknowledged id still names its event, no id handed out twice")

Y2100 = 4102444800_000_000
DAY = 86400_000_000
CREATED = datetime(2020, 1, 1, tzinfo=timezone.utc)

# ---------------------------------------------------------------------------
# generators (plain picklable specs: {"t": instant us, "off": tz minutes, "d": us, "x": data})

ANCHORS = [
    0,                                   # 1970-01-01
    1_000_000_000_000_000,               # 10^15 us = 2001-09-09T01:46:40
    946_684_800_000_000,                 # 2000-01-01
    951_782_400_000_000,                 # 2000-02-29 (leap day of a century year)
    1_582_934_400_000_000,               # 2020-02-29
    1_609_459_200_000_000,               # 2021-01-01
    1_616_893_200_000_000,               # 2021-03-28T01:00Z  EU DST switch
    1_636_264_800_000_000,               # 2021-11-07T06:00Z  US DST switch
    1_483_228_800_000_000,               # 2017-01-01 (after the leap second)
    2_147_483_647_000_000,               # 2038-01-19T03:14:07
    2_147_483_648_000_000,               # 2^31 s
    2 ** 51,                             # 2041-05-10T11:56:53.685248
    2_000_000_000_000_000,               # 2033-05-18
    4_102_444_800_000_000 - DAY,         # 2099-12-31
    Y2100,                               # 2100-01-01
]
DELTAS = [-1001, -1000, -999, -1, 0, 1, 499, 500, 999, 1000, 1001]
OFFSETS = [0, 0, -720, -570, -210, -1, 1, 83, 330, 345, 765, 840]
DURS = ([0, 1, 2, 999, 1000, 1001, 999_999, 1_000_000, DAY - 1, DAY, DAY + 1, 2 * DAY + 3 * 3600_000_000 + 250_001,
         30 * DAY - 1, 30 * DAY, 30 * DAY + 1]
        + [2 ** k + j for k in range(1, 42) for j in (-1, 0, 1)]
        + [10 ** k + j for k in range(1, 13) for j in (-1, 0, 1)])

STRINGS = ["", "a", "café", "日本語", "\U0001f600", '"', "'", "\\", "\\n", "a\"b\\c", "\n\t\r", "\u0000",
           "  ", "\ud800", "</script>", "{\"k\": 1}", " " * 3, "x" * 300, "null", "NaN"] + list(ev.EDGE_STRINGS)
SCALARS = [None, True, False, 0, 1, -1, 2 ** 31, 2 ** 53 + 1, -2 ** 63, 10 ** 30, 0.0, -0.0, 1e-7, 1e22, 1e-320,
           1.7976931348623157e308, 0.1, 1 / 3, 2.5, -1.5e-10, 1e16, 123456789.123456789] + STRINGS


def deep(n):
    x = {"leaf": [1, {"z": None}]}
    for i in range(n):
        x = {"d": x} if i % 2 else [x]
    return {"deep": x}


DATA_CORPUS = [
    {}, {"k": "v"}, {"a": None}, {"": ""}, {"e": {}, "l": [], "ll": [[]], "dd": {"x": {}}},
    {"s": list(STRINGS)}, {k: i for i, k in enumerate(STRINGS)},
    {"n": [x for x in SCALARS if not isinstance(x, str)]},
    {"f": [1e-7, 1e22, -0.0, 0.0, 5e-324, 1.7976931348623157e308, 0.1 + 0.2, 1e15 + 0.3]},
    {"mixed": [1, 1.0, True, "1", None, [1], {"1": 1}]},
    {"app": "Fire\"fox\\", "title": "café — 日本 \U0001f600", "url": "https://x.y/?q=a%20b&c='d'"},
    deep(6), deep(40),
    {"k": {"n": 1}},
]
# round 5: text with lone surrogates (high alone, low alone; never a high directly followed by a low - outside the
# domain, notes/agents/JSON.md), astral code points, NUL, U+2028 as values and keys; and the same kinds of values built
# from dict / list / str / int SUBCLASSES at every depth (harness/edgevals.py).  All of them round-trip on the three back
# ends of the unchanged tree (notes/probes/fix6_roundtrip.py; notes/agents/C01.md "Round 5").
N_PLAIN_CORPUS = len(DATA_CORPUS)
DATA_CORPUS += [copy.deepcopy(d) for d in ev.EDGE_DATA] + [v for _, v in ev.dressed_corpus()]
DATA_CORPUS += [ev.dress(DATA_CORPUS[k], st) for k, st in ((4, "mixed"), (5, "listsub"), (9, "all"), (10, "scalars"), (11, "odict"))]


def rand_json(rng, depth):
    r = rng.random()
    if depth <= 0 or r < 0.45:
        return rng.choice(SCALARS)
    if r < 0.7:
        return [rand_json(rng, depth - 1) for _ in range(rng.randrange(0, 4))]
    return {rng.choice(STRINGS[:14] + ["k%d" % rng.randrange(5)]): rand_json(rng, depth - 1)
            for _ in range(rng.randrange(0, 4))}


def rand_data(rng):
    if rng.random() < 0.35:
        return copy.deepcopy(rng.choice(DATA_CORPUS))
    d = {rng.choice(STRINGS[:14] + ["k%d" % rng.randrange(5)]): rand_json(rng, rng.randrange(0, 5))
         for _ in range(rng.randrange(0, 4))}
    if rng.random() < 0.25:         # the same value built from dict / list / str / int subclasses
        d = ev.dress(d, rng.choice(ev.STYLES))
    return d


def clip(t):
    return min(max(t, 0), Y2100)


def rand_spec(rng):
    r = rng.random()
    if r < 0.5:
        t = clip(rng.choice(ANCHORS) + rng.choice(DELTAS + [rng.randrange(-5_000_000, 5_000_000)]))
    elif r < 0.8:
        t = rng.randrange(0, Y2100 + 1)
    else:
        t = rng.randrange(0, Y2100 // 1000 + 1) * 1000
    d = rng.choice(DURS) if rng.random() < 0.6 else rng.randrange(0, 30 * DAY + 1)
    s = {"t": t, "off": rng.choice(OFFSETS + [rng.randrange(-720, 841)]), "d": d, "x": rand_data(rng)}
    if rng.random() < 0.15 and t >= 2 * DAY:
        s = zoned(s, rng.choice(ZONE_KINDS))
    return s


# Time zones that are not fixed offsets (PEP 495): the caller's datetime lies beside an offset change of ITS zone - in the
# repeated hour after a fall-back (fold=1: what datetime.now(zone) / fromtimestamp(t, zone) return during that hour), in
# the first pass through that hour (fold=0), just after a spring-forward gap, just before either change.  The zone is
# a harness/evutil.py SynthZone [UTC instant of the change, offset before, offset after (minutes), name]; spec["off"] is
# then only the offset in force at the instant (for the counters).
ZONE_KINDS = ["fold-second-pass", "fold-first-pass", "fold-end", "gap-after", "gap-before", "fold-half-hour", "fold-west"]


def zoned(spec, kind):
    t = spec["t"]
    M = 60_000_000
    s0 = t // 1_000_000 * 1_000_000      # offset changes happen on whole seconds (the ms floor of Event is taken on wall time)
    z = {"fold-second-pass": [s0 - 10 * M, 120, 60, "fold"],       # 10 min into the repeated hour: fold=1
         "fold-first-pass": [s0 + 10 * M, 120, 60, "fold"],        # same wall hour, first pass: fold=0
         "fold-end": [s0 - 60 * M + 1_000_000, 120, 60, "fold"],   # the last second of the repeated hour
         "gap-after": [s0, 60, 120, "gap"],                        # the first second after the gap
         "gap-before": [s0 + 1_000_000, 60, 120, "gap"],           # the last second before it
         "fold-half-hour": [s0 - 29 * M, 630, 600, "fold30"],      # Lord-Howe-like half-hour change
         "fold-west": [s0 - 59 * M, -240, -300, "fold-west"]}[kind]
    zone = SynthZone(*z)
    off = zone.utcoffset((EPOCH + timedelta(microseconds=t)).astimezone(zone)) // timedelta(minutes=1)
    return dict(spec, zone=z, off=off)


def boundary_scenarios(rng):
    """Deterministic corpus (rng only used to pair the lists up)."""
    out = []
    # singles: every anchor x delta, offsets / durations / data cycled so that each value of each list
    # meets many values of the others
    specs = []
    k = 0
    for a in ANCHORS:
        for dl in DELTAS:
            t = a + dl
            if not 0 <= t <= Y2100:
                continue
            specs.append({"t": t, "off": OFFSETS[k % len(OFFSETS)], "d": DURS[(7 * k) % len(DURS)],
                          "x": copy.deepcopy(DATA_CORPUS[k % len(DATA_CORPUS)])})
            k += 1
    # every duration at two instants (one below 2^51 us reaching across it when long enough)
    for i, d in enumerate(DURS):
        specs.append({"t": 2 ** 51 - 1000 * (1 + i % 5) - (d // 2000) * 1000 if d > 4000 else 2 ** 51 - 2000,
                      "off": OFFSETS[i % len(OFFSETS)], "d": d, "x": {"i": i}})
        specs.append({"t": 1_600_000_000_000_000 + 1000 * i, "off": 0, "d": d, "x": {}})
    # the fixed witness of the old float codec (w03) and every data item once more
    specs.append({"t": 2250122380221000, "off": 0, "d": 2141079079834, "x": {}})
    for x in DATA_CORPUS:
        specs.append({"t": 1_600_000_000_123_000, "off": 60, "d": 1_500_000, "x": copy.deepcopy(x)})
    for i in range(0, len(specs), 30):
        out.append(("singles-%d" % (i // 30), [("one", s) for s in specs[i:i + 30]]))
    # bulk sizes, fed with every millisecond residue of one second (and sub-ms parts), both orders
    residues = [{"t": 1_700_000_000_000_000 + 1000 * r + (0, 1, 499, 500, 999)[r % 5], "off": OFFSETS[r % len(OFFSETS)],
                 "d": DURS[r % len(DURS)], "x": {"r": r}} for r in range(1000)]
    for name, sizes in (("bulk-up", [1, 2, 99, 100, 101, 201, 0]), ("bulk-down", [0, 201, 101, 100, 99, 2, 1])):
        steps, pos = [], 0 if name == "bulk-up" else 496
        for n in sizes:
            steps.append(("many", residues[pos:pos + n]))
            pos += n
        out.append((name, steps))
    # PEP 495 zones: every kind at the two DST-switch anchors and two others, ms-aligned and with sub-ms parts; singly
    # and in one bulk
    zspecs = []
    for i, a in enumerate((ANCHORS[6], ANCHORS[7], ANCHORS[1], 2 ** 51)):
        for j, kind in enumerate(ZONE_KINDS):
            for sub in (0, 999_999, 1, 500):
                zspecs.append(zoned({"t": a + (i + j) * 1000 + sub, "off": 0, "d": DURS[(i + 3 * j) % len(DURS)],
                                     "x": {"zone": kind}}, kind))
    for i in range(0, len(zspecs), 28):
        out.append(("zones-%d" % (i // 28), [("one", s) for s in zspecs[i:i + 28]]))
    out.append(("zones-bulk", [("many", [copy.deepcopy(s) for s in zspecs[1::3]])]))
    # one bulk of each size into an otherwise empty bucket, rich data
    for n in (1, 101, 201):
        out.append(("bulk-%d-fresh" % n, [("many", [dict(rand_spec(rng), x=copy.deepcopy(DATA_CORPUS[i % len(DATA_CORPUS)]))
                                                     for i in range(n)])]))
    return out


def random_scenario(rng, n):
    steps = []
    for _ in range(rng.randrange(3, 14)):
        if rng.random() < 0.7:
            steps.append(("one", rand_spec(rng)))
        else:
            steps.append(("many", [rand_spec(rng) for _ in range(rng.choice([0, 1, 2, 3, 5, 8]))]))
    return ("random-%d" % n, steps)


# ---------------------------------------------------------------------------
# events, canonical views


def mk_event(spec):
    from aw_core.models import Event
    tz = SynthZone(*spec["zone"]) if spec.get("zone") else timezone(timedelta(minutes=spec["off"]))
    ts = (EPOCH + timedelta(microseconds=spec["t"])).astimezone(tz)     # (SynthZone.fromutc sets fold in a repeated hour)
    return Event(timestamp=ts, duration=timedelta(microseconds=spec["d"]), data=copy.deepcopy(spec["x"]))


def canon(x):
    """canonical JSON text (floats by repr, so -0.0 / 0.0 and 1 / 1.0 / True stay apart)"""
    return json.dumps(x, sort_keys=True, ensure_ascii=True, allow_nan=True)


def expected(spec):
    return (spec["t"] // 1000 * 1000, spec["d"], canon(spec["x"]))


def observed(e):
    """(id, instant us, duration us, canonical data) of an Event handed out, exact integers"""
    ts = e.timestamp
    if ts.tzinfo is None:
        raise TypeError("naive timestamp handed out")
    return (e.id, (ts - EPOCH) // US, e.duration // US, canon(e.data))


def payload_diff(exp, got, spec_x, data):
    """None, or (clause, text)"""
    if got[0] != exp[0]:
        return "instant", f"instant {exp[0]} us read back as {got[0]} us"
    if got[1] != exp[1]:
        return "duration", f"duration {exp[1]} us read back as {got[1]} us"
    if data != spec_x or got[2] != exp[2]:
        return "data", f"data {exp[2][:200]} read back as {got[2][:200]}"
    return None


class DataLabels:
    """data label of the store models: 0 = {}, else one label per canonical JSON text"""

    def __init__(self):
        self.ix = {"{}": 0}

    def of(self, text):
        return self.ix.setdefault(text, len(self.ix))


def nontrivial(spec):
    return bool(spec["t"] % 1000 or spec["off"] or spec["d"] >= DAY
                or any(isinstance(v, (dict, list)) for v in spec["x"].values()))


# ---------------------------------------------------------------------------
# one scenario on one real back end (runs in a forked worker)

META_W = [1, 1, 1, 0, [], 0]
B2_EVENTS = [{"t": 1_500_000_000_000_000, "off": 0, "d": 1_000_000, "x": {"other": 1}},
             {"t": 1_500_000_001_000_000, "off": 0, "d": 0, "x": {}}]


def spec_json(s):
    j = {"instant_us": s["t"], "tz_offset_min": s["off"], "duration_us": s["d"], "data_json": canon(s["x"])}
    if s.get("zone"):
        j["zone"] = list(s["zone"])          # evutil.SynthZone(UTC instant of the change us, minutes before, after, name)
        j["fold"] = mk_fold(s)
    if ev.has_subclass(s["x"]):
        j["data_classes"] = ev.tagged(s["x"])   # od / dd = OrderedDict / defaultdict, ls = list subclass, ss / is = str / int subclass
    return j


def mk_fold(s):
    return (EPOCH + timedelta(microseconds=s["t"])).astimezone(SynthZone(*s["zone"])).fold


def run_scenario(backend, steps, tmpdir, n, collect=True):
    """-> {"fails": [(clause, text, step index)], "ops": wire ops, "res": impl results (wire),
           "cells": raw cells of bucket b1 (SQL back ends), "rows": id -> observed payload}"""
    from aw_datastore import Datastore
    st = sh.open_storage(backend, tmpdir, n)
    labels = DataLabels()
    fails, ops, res = [], [], []

    def ev_w(o):
        return [[o[0]] if o[0] is not None else [], o[1], o[2], labels.of(o[3])]

    def spec_w(s):
        e = expected(s)
        return [[], e[0], e[1], labels.of(e[2])]

    def record(op, thunk, shape):
        try:
            r = thunk()
        except Exception as ex:  # noqa: BLE001 -- the error class is the observation
            ops.append(op)
            res.append([1, sh.ERR.get(type(ex).__name__, 10)])
            return None, ex
        ops.append(op)
        res.append([0, shape(r)])
        return r, None

    try:
        ds = Datastore(lambda testing=True, **kw: st, testing=True)
        for bid, lab in (("b1", 1), ("b2", 2)):
            record([0, lab, META_W], lambda: ds.create_bucket(bid, "s1", "s1", "s1", created=CREATED) and None,
                   lambda r: [5, lab, META_W] if backend == "sqlite" else [0])
        for s in B2_EVENTS:
            record([5, 2, spec_w(s)], lambda: ds["b2"].insert(mk_event(s)), lambda r: [1, [ev_w(observed(r))]])
        bucket = ds["b1"]
        before = {}                  # id -> (ts, dur, canon data) as last listed
        from . import c01_hist
        import types
        env = types.SimpleNamespace(ds=ds, bucket=bucket, record=record, ev_w=ev_w, spec_w=spec_w, fails=fails,
                                    backend=backend)
        for si, (kind, arg) in enumerate(steps):
            if kind in c01_hist.HIST_KINDS:      # delete / replace / upsert / other bucket / re-create: c01_hist.py
                before = c01_hist.run_step(env, si, kind, arg, before)
                if fails:
                    break
                continue
            specs = [arg] if kind == "one" else arg
            exps = [expected(s) for s in specs]
            new_ids = []
            if kind == "one":
                r, ex = record([5, 1, spec_w(arg)], lambda: bucket.insert(mk_event(arg)),
                               lambda r: [1, [ev_w(observed(r))] if r is not None else []])
                if ex is not None:
                    fails.append(("insert-raised", f"insert raised {type(ex).__name__}: {ex}", si))
                    break
                if r is None or r.id is None:
                    fails.append(("no-id", f"insert returned {r!r}: no id assigned", si))
                    break
                if r.id in before:
                    fails.append(("id-not-fresh", f"insert assigned id {r.id}, which already names an event of the bucket", si))
                d = payload_diff(exps[0], observed(r)[1:], arg["x"], r.data)
                if d:
                    fails.append(("returned-" + d[0], "the event returned by insert: " + d[1], si))
                new_ids = [r.id]
            else:
                r, ex = record([6, 1, [spec_w(s) for s in arg]], lambda: bucket.insert([mk_event(s) for s in arg]),
                               lambda r: [0])
                if ex is not None:
                    fails.append(("insert-raised", f"bulk insert raised {type(ex).__name__}: {ex}", si))
                    break
            # --- listing
            lst, ex = record([11, 1, -1, [], []], lambda: bucket.get(-1), lambda r: [2, [ev_w(observed(e)) for e in r]])
            if ex is not None:
                fails.append(("listing-raised", f"get raised {type(ex).__name__}: {ex}", si))
                break
            obs = [observed(e) for e in lst]
            ids = [o[0] for o in obs]
            if len(set(ids)) != len(ids):
                dup = sorted({i for i in ids if ids.count(i) > 1})
                fails.append(("ids-not-unique", f"ids {dup[:5]} name more than one listed event of the bucket", si))
            after = {o[0]: o[1:] for o in obs}
            data_by_id = {e.id: e.data for e in lst}
            gone = {i: v for i, v in before.items() if after.get(i) != v}
            if gone:
                i = sorted(gone)[0]
                fails.append(("earlier-event-changed", f"event {i} listed as {before[i][:2]} before the insert is now "
                              f"{after.get(i, 'missing')}", si))
            fresh = sorted(i for i in after if i not in before)
            if kind == "one":
                if new_ids[0] not in after:
                    fails.append(("listing-missing", f"the inserted event (id {new_ids[0]}) is not listed", si))
                else:
                    d = payload_diff(exps[0], after[new_ids[0]], arg["x"], data_by_id[new_ids[0]])
                    if d:
                        fails.append(("listing-" + d[0], "listing: " + d[1], si))
                if fresh != [i for i in new_ids if i in after]:
                    fails.append(("listing-extra", f"one event inserted, ids {fresh} are new in the listing", si))
            else:
                new_ids = fresh
                got = sorted(after[i] for i in fresh)
                if len(fresh) != len(arg):
                    want = sorted(exps)
                    missing = [k for k, e in enumerate(exps) if e not in got]
                    fails.append(("bulk-count", f"bulk-inserted {len(arg)} events, the listing shows {len(fresh)} new ones"
                                  + (f"; missing event number(s) {missing[:5]}" if missing else ""), si))
                elif got != sorted(exps):
                    k = next(k for k, (a, b) in enumerate(zip(got, sorted(exps))) if a != b)
                    d = payload_diff(sorted(exps)[k], got[k], None, None) or ("data", "data differs")
                    fails.append(("bulk-" + d[0], "bulk: the new events do not carry the inserted payloads: " + d[1], si))
                else:
                    for i in fresh:                       # == on the data itself, not only its JSON text
                        if not any(data_by_id[i] == s["x"] and after[i] == e for s, e in zip(arg, exps)):
                            fails.append(("bulk-data", f"bulk: data of event {i} is not == to an inserted one", si))
                            break
            # --- lookup by id
            for i in new_ids:
                g, ex = record([10, 1, i], lambda: bucket.get_by_id(i), lambda r: [1, [ev_w(observed(r))] if r is not None else []])
                if ex is not None:
                    fails.append(("lookup-raised", f"get_by_id({i}) raised {type(ex).__name__}: {ex}", si))
                    continue
                if g is None:
                    fails.append(("lookup-missing", f"get_by_id({i}) returned None for an id just assigned", si))
                    continue
                og = observed(g)
                if og[0] != i:
                    fails.append(("lookup-wrong-id", f"get_by_id({i}) returned an event with id {og[0]}", si))
                if kind == "one":
                    d = payload_diff(exps[0], og[1:], arg["x"], g.data)
                    if d:
                        fails.append(("lookup-" + d[0], f"get_by_id({i}): " + d[1], si))
                elif i in after and og[1:] != after[i]:
                    d = payload_diff(after[i], og[1:], None, None) or ("data", "data differs")
                    fails.append(("lookup-" + d[0], f"get_by_id({i}) differs from the listing: " + d[1], si))
            before = after
            if fails:
                break
        cells = []
        if collect and backend == "sqlite":
            cells = [list(r) for r in st.conn.execute(
                "SELECT id, starttime, endtime, typeof(starttime), typeof(endtime) FROM events WHERE bucketrow = "
                "(SELECT rowid FROM buckets WHERE id = 'b1') ORDER BY id")]
        elif collect and backend == "peewee":
            cells = [list(r) for r in st.db.execute_sql(
                "SELECT id, timestamp, duration, typeof(duration), typeof(timestamp) FROM eventmodel WHERE bucket_id = ? "
                "ORDER BY id", (st.bucket_keys["b1"],))]
        return {"fails": fails, "ops": ops, "res": res, "cells": cells, "rows": {i: list(v[:2]) for i, v in before.items()}}
    finally:
        sh.close_storage(backend, st, tmpdir, n)


# ---------------------------------------------------------------------------
# direct mutate-and-reread pass (nested data), all back ends


def scramble(x, depth=0):
    """mutate every mutable object reachable from x, in place"""
    from aw_core.models import Event
    if isinstance(x, Event):
        for v in list(x.values()):
            scramble(v, depth + 1)
        x["duration"] = timedelta(seconds=4321)
        x["timestamp"] = datetime(1999, 9, 9, tzinfo=timezone.utc)
        x["id"] = 987654
        x["data"] = {"replaced": True}
    elif isinstance(x, dict):
        for v in list(x.values()):
            scramble(v, depth + 1)
        for k in list(x):
            if not isinstance(x[k], (dict, list)):
                x[k] = "mutated"
        x["_mutated"] = depth
    elif isinstance(x, list):
        for v in x:
            scramble(v, depth + 1)
        for i in range(len(x)):
            if not isinstance(x[i], (dict, list)):
                x[i] = "mutated"
        x.append("mutated")


def own_pass(backend, tmpdir, n, datas):
    from aw_datastore import Datastore
    st = sh.open_storage(backend, tmpdir, n)
    fails = []
    try:
        ds = Datastore(lambda testing=True, **kw: st, testing=True)

        def dump():
            out = {"buckets": canon(ds.buckets())}
            for bid in sorted(ds.buckets()):
                b = ds[bid]
                evs = b.get(-1)
                out[bid] = [canon(b.metadata()), [list(observed(e)) for e in evs],
                            [list(observed(b.get_by_id(e.id))) for e in evs]]
            return out

        def step(what, value, thunk=None):
            before = dump()
            scramble(value)
            after = dump()
            if before != after:
                fails.append((what, f"mutating {what} changed what later reads return", canon(x),
                              ev.tagged(x) if ev.has_subclass(x) else None))

        for k, x in enumerate(datas):
            bid = "own%d" % k
            md = copy.deepcopy(x)
            bucket = ds.create_bucket(bid, "t", "c", "h", created=CREATED, name="n", data=md)
            step("the data dict passed to create_bucket", md)
            e = mk_event({"t": 1_600_000_000_000_000, "off": 0, "d": 1_000_000, "x": x})
            r = bucket.insert(e)
            step("the event passed to insert", e)
            step("the event returned by insert", r)
            many = [mk_event({"t": 1_600_000_001_000_000 + j * 1000, "off": 0, "d": j, "x": x}) for j in range(3)]
            bucket.insert(many)
            step("the events passed to a bulk insert", many)
            step("the events returned by get", bucket.get(-1))
            step("the event returned by get_by_id", bucket.get_by_id(bucket.get(1)[0].id))
            step("the dict returned by metadata()", bucket.metadata())
            step("the dict returned by buckets()", ds.buckets())
            e2 = mk_event({"t": 1_600_000_002_000_000, "off": 0, "d": 5, "x": x})
            bucket.replace_last(e2)
            step("the event passed to replace_last", e2)
            e3 = mk_event({"t": 1_600_000_003_000_000, "off": 0, "d": 6, "x": x})
            bucket.replace(bucket.get(-1)[-1].id, e3)
            step("the event passed to replace", e3)
        return fails
    finally:
        sh.close_storage(backend, st, tmpdir, n)


# ---------------------------------------------------------------------------
# worker pool (fork; at most one PeeweeStorage open per process at a time)

_WORK = {}


def _worker(job):
    kind, backend, n = job
    tmpdir = tempfile.mkdtemp(prefix="awc01-", dir=_WORK["tmp"])
    try:
        if kind == "scn":
            return job, run_scenario(backend, _WORK["scenarios"][n][1], tmpdir, n)
        return job, own_pass(backend, tmpdir, n, _WORK["own_data"][n])
    finally:
        shutil.rmtree(tmpdir, ignore_errors=True)


def run_jobs(jobs, procs=None):
    procs = procs or min(12, os.cpu_count() or 2)
    from aw_core.dirs import get_data_dir
    get_data_dir("aw-server")      # PeeweeStorage.__init__ check-then-mkdir: do it before forking
    _WORK["tmp"] = tempfile.mkdtemp(prefix="awc01-batch-")
    try:
        if procs == 1:
            return dict(_worker(j) for j in jobs)
        ctx = multiprocessing.get_context("fork")
        with ctx.Pool(procs) as pool:
            return dict(pool.map(_worker, jobs, chunksize=1))
    finally:
        shutil.rmtree(_WORK["tmp"], ignore_errors=True)


# ---------------------------------------------------------------------------
# replay files


def write_scenario_file(backend, name, steps, upto):
    from . import c01_hist
    obj = {"backend": backend, "scenario": name,
           "steps": [c01_hist.step_json(k, a) for k, a in steps[:upto + 1]]}
    d = os.path.join(common.VERIF, "replays", "C01")
    os.makedirs(d, exist_ok=True)
    import hashlib
    h = hashlib.sha1(json.dumps(obj, sort_keys=True).encode()).hexdigest()[:12]
    p = os.path.join(d, f"scenario-{h}.json")
    with open(p, "w") as f:
        json.dump(obj, f, indent=1)
    return p


def write_own_file(backend, data_json, classes=None):
    obj = {"backend": backend, "own_pass_data_json": data_json}
    if classes is not None:
        # the data is built from dict / list / str / int SUBCLASSES (harness/edgevals.py: od / dd = OrderedDict / defaultdict,
        # ls = list subclass, ss / is = str / int subclass); harness.c01_replay rebuilds it with edgevals.untag
        obj["own_pass_data_classes"] = classes
    d = os.path.join(common.VERIF, "replays", "C01")
    os.makedirs(d, exist_ok=True)
    import hashlib
    p = os.path.join(d, "own-%s.json" % hashlib.sha1(json.dumps(obj, sort_keys=True).encode()).hexdigest()[:12])
    with open(p, "w") as f:
        json.dump(obj, f, indent=1)
    return p


def minimise(backend, steps, si, clause):
    """the failing step alone (and, for a bulk step, ever shorter tails of it) when that still fails the same
    clause on a fresh storage; else the prefix up to the failing step"""
    def fails(cand):
        tmp = tempfile.mkdtemp(prefix="awc01-min-")
        try:
            r = run_scenario(backend, cand, tmp, 0, collect=False)
        except Exception:  # noqa: BLE001
            return False
        finally:
            shutil.rmtree(tmp, ignore_errors=True)
        return any(c == clause for c, _, _ in r["fails"])
    kind, arg = steps[si]
    cand = [steps[si]]
    if not fails(cand):
        return steps[:si + 1], si
    if kind == "many" and clause != "bulk-count":
        cur = list(arg)
        for _ in range(12):
            half = cur[len(cur) // 2:]
            if len(half) < len(cur) and fails([("many", half)]):
                cur = half
            elif len(cur) > 1 and fails([("many", cur[:len(cur) // 2])]):
                cur = cur[:len(cur) // 2]
            else:
                break
        cand = [("many", cur)]
    return cand, 0


def steps_from_file(obj):
    def spec(j):
        x = ev.untag(j["data_classes"]) if "data_classes" in j else json.loads(j["data_json"])
        s = {"t": j["instant_us"], "off": j["tz_offset_min"], "d": j["duration_us"], "x": x}
        if j.get("zone"):
            s["zone"] = list(j["zone"])
        return s
    from . import c01_hist
    return [c01_hist.step_unjson(k, a, spec) for k, a in obj["steps"]]


# ---------------------------------------------------------------------------
# in-Coq codec cases

IMPORTS = ("From AwVerif Require Import Base.Prelude Model.PyFloat Model.PyFloatWire Model.IsoTime Model.EventModel "
           "Model.Codec Model.EventWire.")


def enc_text(s):
    return [len(s)] + [ord(c) for c in s]


def ulp_apart(a, b):
    if a == b:
        return 0
    return 1 if (math.nextafter(a, b) == b) else 2


def codec_correspondence(ck, scenarios, results, proved):
    """raw cells of the SQLite files vs Model/Codec.v, evaluated inside Coq"""
    sq_cases, pw_cases = {}, {}
    for (name, steps), r in zip(scenarios, results):
        rows = r["sqlite"]["rows"]
        for cid, start, end, t1, t2 in r["sqlite"]["cells"]:
            ck.count("sqlite:cell-types:%s/%s" % (t1, t2))
            if cid in rows and t1 == t2 == "integer":
                sq_cases.setdefault((start, end), tuple(rows[cid]))
            elif cid in rows:
                ck.disagreement("codec", f"sqlite cell of event {cid} is {t1}/{t2}, the model stores two INTEGER cells",
                                {"scenario": name, "id": cid, "cells": [start, end, t1, t2]})
        rows = r["peewee"]["rows"]
        for cid, text, dcell, tdur, tts in r["peewee"]["cells"]:
            ck.count("peewee:duration-cell:%s" % tdur)
            if cid in rows:
                pw_cases.setdefault((text, float(dcell), tts), tuple(rows[cid]))
    if not proved:
        return
    sq_items = sorted(sq_cases.items())
    pw_items = sorted(pw_cases.items())
    terms = [f"enc_res enc_pairZ (sqlite_dec ({fc.coq_z(s)}, {fc.coq_z(e)}))" for (s, e), _ in sq_items]
    # peewee: model cells for the value read back (= the inserted one when the oracle passed), then the model's
    # decode of the REAL cell found in the file
    for (text, dcell, tts), (ts, dur) in pw_items:
        terms.append(f"run_peewee_ts {fc.coq_z(ts)} ++ run_peewee_dur {fc.coq_z(dur)} ++ "
                     f"enc_res enc_Z (peewee_dur_dec {fc.coq_float(dcell)})")
    try:
        outs = fc.run_cases("C01", IMPORTS, terms, tag="codec%d" % os.getpid())   # per-process dir: concurrent runs
    except Exception as ex:  # noqa: BLE001
        ck.broken.append("in-Coq evaluation of the codec cases failed: " + str(ex)[:400])
        return
    for ((s, e), (ts, dur)), mo in zip(sq_items, outs):
        ck.evaluations += 1
        ck.count("codec:sqlite-cells-vs-model")
        if mo != [0, ts, dur]:
            ck.disagreement("codec", f"sqlite cells ({s},{e}): model decodes {mo}, the back end read ({ts},{dur})",
                            {"cells": [s, e], "model": mo, "impl": [ts, dur]})
    for ((text, dcell, tts), (ts, dur)), mo in zip(pw_items, outs[len(sq_items):]):
        ck.evaluations += 1
        ck.count("codec:peewee-cells-vs-model")
        want_text = enc_text(text)
        m_text, rest = mo[:len(want_text)], mo[len(want_text):]
        # rest = res(ts) ++ [0] ++ float(4) ++ res(dur) ++ res(dur from the real cell)
        ok = tts == "text" and m_text == want_text and rest[:2] == [0, ts] and rest[2] == 0 and rest[7:9] == [0, dur] \
            and rest[9:] == [0, dur]
        if ok:
            mf = fc.unwire_float(rest[3:7])
            ck.count("codec:peewee-duration-cell-%s" % ("exact" if mf == dcell else "%d-ulp-from-model" % ulp_apart(mf, dcell)))
            if ulp_apart(mf, dcell) > 1:
                ok = False
        if not ok:
            ck.disagreement("codec", f"peewee cells ({text!r}, {dcell!r}) of an event read back as ({ts},{dur}): model gives {mo[-12:]}",
                            {"cells": [text, dcell.hex(), tts], "model": mo, "impl": [ts, dur]})


# ---------------------------------------------------------------------------


def main(argv=None):
    ck = Check("C01", argv)
    common.setup_impl_env()
    ck.run_witnesses(["w01", "w03"])
    proved = ck.prove(extra_targets=["Props/C01own.v", "Model/EventWire.v"] + tieb_stores.STORES_CODEC[0],
                      gen_kernels=tieb_stores.STORES_CODEC[1] + tieb_stores.EVENT[1])   # ties A + B
    have_driver = ck.driver("ExC02")
    from . import c01_own
    have_own_driver = c01_own.prepare(ck)

    quick = ck.tier == "quick"
    scenarios = boundary_scenarios(ck.rng) + [random_scenario(ck.rng, i) for i in range(40 if quick else 2500)]
    # histories that also delete / replace / upsert / re-create before inserting again (harness/c01_hist.py)
    from . import c01_hist
    scenarios += c01_hist.history_corpus() + [c01_hist.random_history(ck.rng, i) for i in range(40 if quick else 2500)]
    _WORK["scenarios"] = scenarios
    own_data = [copy.deepcopy(x) for x in DATA_CORPUS if x] + [rand_data(ck.rng) for _ in range(4 if quick else 60)]
    # (every step of own_pass dumps every bucket of its store: chunks of 10 data items, one store each)
    _WORK["own_data"] = [own_data[i:i + 10] for i in range(0, len(own_data), 10)]
    n_own = len(_WORK["own_data"])
    jobs = [("scn", be, n) for n in range(len(scenarios)) for be in sh.BACKENDS] + [("own", be, k) for be in sh.BACKENDS for k in range(n_own)]
    done = run_jobs(jobs)
    results = [{be: done[("scn", be, n)] for be in sh.BACKENDS} for n in range(len(scenarios))]

    # --- property oracle
    for n, ((name, steps), r) in enumerate(zip(scenarios, results)):
        for be in sh.BACKENDS:
            for clause, text, si in r[be]["fails"][:3]:
                if len(ck.violations) >= 20:
                    break
                msteps, msi = (c01_hist.minimise if c01_hist.is_history(steps) else minimise)(be, steps, si, clause)
                path = write_scenario_file(be, name, msteps, msi)
                ck.failing_input(f"C01:{be}:{clause}", f"[{be}] {text} (scenario {name}, step {si})",
                                 {"backend": be, "scenario_file": path, "failing_step": msi, "clause": clause,
                                  "last_step": (c01_hist.step_json(*msteps[msi]) if msteps[msi][0] != "many" else
                                                ["many", [spec_json(x) for x in msteps[msi][1][:3]]]),
                                  "history_shape": c01_hist.shape(msteps) if c01_hist.is_history(msteps) else None,
                                  "observed": text,
                                  "rerun": f"VERIF_REPO={common.REPO} PYTHONPATH={common.REPO}:{common.VERIF} /venv/bin/python -m harness.c01_replay {path}"})
            if c01_hist.is_history(steps):
                kinds = [k for k, _ in steps]
                # non-trivial = an id-less insert arrives after an event was deleted from the bucket
                after_del = any(k in ("one", "many", "ups") for k in kinds[kinds.index("del"):]) if "del" in kinds else False
                ck.note_case([be, "history", [c01_hist.step_json(k, a) for k, a in steps]], nontrivial=after_del)
                for k in kinds:
                    ck.count(f"{be}:history-step:{k}")
                ck.count(f"{be}:history-scenarios" + ("-inserting-after-a-delete" if after_del else "-other"))
                continue
            for kind, arg in steps:
                for s in ([arg] if kind == "one" else arg):
                    ck.note_case([be, kind == "one", s["t"], s["off"], s["d"], canon(s["x"])], nontrivial=nontrivial(s))
                    ck.count(f"{be}:{'single' if kind == 'one' else 'bulk'}-inserted-events")
                if kind == "many":
                    ck.count(f"{be}:bulk-size-{len(arg) if len(arg) in (0, 1, 2, 99, 100, 101, 201) else 'other'}")
        for kind, arg in steps:
            for s in c01_hist.specs_of(kind, arg):
                ck.count("instant:" + ("sub-ms" if s["t"] % 1000 else "ms-aligned"))
                ck.count("offset:" + ("utc" if s["off"] == 0 else "odd-minutes" if s["off"] % 30 else "non-utc"))
                ck.count("duration:" + ("0" if s["d"] == 0 else "<1s" if s["d"] < 10 ** 6 else "<1d" if s["d"] < DAY else ">=1d"))
                ck.count("start<2^51<=end" if s["t"] // 1000 * 1000 < 2 ** 51 <= s["t"] // 1000 * 1000 + s["d"] else "no-2^51-crossing")
        if len(ck.samples) < 3 and name.startswith("singles"):
            ck.sample({"scenario": name, "first_events": [spec_json(a) for k, a in steps[:3] if k == "one"],
                       "sqlite_cells": r["sqlite"]["cells"][:3], "peewee_cells": r["peewee"]["cells"][:3]})
    for be in sh.BACKENDS:
        own_fails = [f for k in range(n_own) for f in done[("own", be, k)]]
        own_fails.sort(key=lambda f: len(f[2]))          # the smallest data item first
        for what, text, data, classes in own_fails[:3]:
            path = write_own_file(be, data, classes)
            ck.failing_input(f"C01:{be}:own:{what}", f"[{be}] {text}; data {data[:300]}",
                             {"backend": be, "mutated": what, "data_file": path, "data_classes": classes,
                              "how": "harness.c01.own_pass: create_bucket(data=x) / insert / get / metadata ..., scramble the object, re-read",
                              "rerun": f"VERIF_REPO={common.REPO} PYTHONPATH={common.REPO}:{common.VERIF} /venv/bin/python -m harness.c01_replay {path}"})
        ck.count(f"{be}:own-pass-data-items", len(own_data))
        ck.count(f"{be}:own-pass-data-items-with-subclass-containers", sum(1 for x in own_data if ev.has_subclass(x)))

    # --- correspondence with the store models
    if have_driver:
        flat = [(be, [], r[be]["ops"]) for r in results for be in sh.BACKENDS]
        cases = [common.sx([sh.BACKEND_CODE[be], univ, ops]) for be, univ, ops in flat]
        try:
            outs = common.run_driver("C01", cases)
        except Exception as ex:  # noqa: BLE001
            ck.broken.append("store-model driver failed: " + str(ex)[:300])
            outs = []
        k = 0
        for (name, steps), r in zip(scenarios, results):
            for be in sh.BACKENDS:
                if k >= len(outs):
                    break
                mo, io, ops = outs[k], r[be]["res"], r[be]["ops"]
                k += 1
                if mo == [-999] or len(mo) != len(io):
                    ck.disagreement(be, f"driver could not decode scenario {name}", {"scenario": name, "ops": ops[:5]})
                    continue
                for j, (m, i) in enumerate(zip(mo, io)):
                    ck.evaluations += 1
                    if m[0] != i:
                        ck.disagreement(be, f"scenario {name}, op {j} {sh.describe(ops[j])[:120]}: model {str(m[0])[:200]} "
                                        f"vs {be} {str(i)[:200]}",
                                        {"backend": be, "scenario": name, "op_index": j, "op": ops[j], "model": m[0], "impl": i})
                        break
                ck.count(f"{be}:ops-compared-with-model", len(io))

    # --- correspondence with the codec models (inside Coq) on the raw cells
    codec_correspondence(ck, scenarios, results, proved)

    # --- ownership: heap model vs MemoryStorage, oracle on all back ends
    c01_own.ownership_check(ck, "C01own", have_driver=have_own_driver, n_random=(60 if quick else 3000))

    # --- the JSON data path: Model/Json.v, Props/C01Json.v vs json.dumps / json.loads / raw datastr cells (harness/jsonmodel.py)
    from . import jsonmodel
    jsonmodel.json_check(ck)

    ck.assumptions += [
        "store models: exact integer microseconds (identity time codec), data as labels (one per canonical JSON text, {} = 0); "
        "the float/text codecs are separate models (Model/Codec.v) compared on the raw cells of the SQLite files",
        "JSON data fidelity (json.dumps / SQLite TEXT / json.loads; deepcopy on memory) is an ORACLE exercised on generated "
        "nested data, not proved",
        "peewee DECIMAL cell: SQLite's text->REAL conversion may be one ulp off the float peewee sent; the decode theorem "
        "C01_peewee_codec_cell_ulp covers 2^-22 s",
        "utc offsets are whole minutes (the ms floor of the Event constructor commutes with them)",
    ]
    ck.trusted += ["in-Coq evaluation route for the codec cases: harness/floatcases.py (coqc vm_compute, kernel primitive floats)"]
    return ck.finish(RULE)


if __name__ == "__main__":
    sys.exit(main())
