"""C15 — union_no_overlap: correspondence with Model/UnionNoOverlap.v (extracted) and the
property statement evaluated, independently of the model, on the implementation's output.

Streams
  grid      sorted, internally non-overlapping lists with every endpoint on a small integer grid
            (zero-length events, shared edges, one event spanning several, containment either way
            all occur by exhaustion); exhaustive on 0..4 x <=2 events a side in quick plus a seeded
            sample of the 0..8 x <=3 grid; exhaustive on 0..8 x <=3 a side in thorough
            (12.5 M pairs, run on a process pool).  Oracle + correspondence.
  random    seeded random sorted non-overlapping ms-aligned lists (up to 12 events a side, three
            time units, gaps / shared edges / zero-length).  Oracle + correspondence.
  shared    like random but events share data values across and inside the lists (provenance by
            data is then ambiguous): correspondence + the provenance-free oracle clauses.
  ood       out of the property's domain (unsorted, overlapping, negative or sub-millisecond
            durations): correspondence only.
  split     _split_event(e, dt) with dt on/around both edges, sub-millisecond dt: correspondence
            and "input not modified".
usage: python -m harness.c15 <quick|thorough>   |   python -m harness.c15 replay <replay.json>
"""
import copy
import itertools
import json
import multiprocessing
import os
import random
import sys

from . import common
from .common import Check, sx
from .evutil import BASE, dt, ev_unwire, ev_view, ev_wire, mk_event
from .txhist import strict_eq

RULE = ("corpus witness w11, then sorted non-overlapping list pairs on an integer grid (exhaustive "
        "0..4 x <=2 events a side + seeded sample of 0..8 x <=3 in quick; exhaustive 0..8 x <=3 in "
        "thorough), seeded random sorted non-overlapping ms-aligned lists up to 12 a side, a "
        "shared-data stream, an out-of-domain stream (correspondence only) and _split_event edge "
        "cases; non-trivial = distinct canonical case in which some list-one and list-two event "
        "overlap for a positive time or touch (the overlap/tie branches of the loop are exercised)"
        "; round 3 (harness/c15_hist.py): random pairs through the registered query function and a query2 statement; call sequences "
        "in one process on live lists (the same / ==-equal with other ids and look-alike data / one list replaced by a twin / "
        "edited in between / earlier results overwritten), every call judged alone with typed equality; two lists of >= 10 001 events")

ERRCODE = {"ParseError": 1, "InterpretError": 2, "FunctionError": 3, "KeyError": 4, "ValueError": 5,
           "IndexError": 6, "AttributeError": 7, "TypeError": 8, "IntegrityError": 9}

# ---------------------------------------------------------------------------
# generators.  An event spec is (ts_us, dur_us, data, id); a case is
# {"kind": "union", "stream": s, "a": [spec...], "b": [spec...]} or
# {"kind": "split", "stream": "split", "e": spec, "dt": us}


def grid_lists(G, kmax):
    """Every sorted, internally non-overlapping list of <= kmax events (zero-length allowed,
    touching allowed) with endpoints in 0..G: the non-decreasing 2k-sequences over 0..G."""
    out = [()]
    for k in range(1, kmax + 1):
        for seq in itertools.combinations_with_replacement(range(G + 1), 2 * k):
            out.append(tuple((seq[2 * i], seq[2 * i + 1]) for i in range(k)))
    return out


def grid_case(la, lb, unit=1000):
    return {"kind": "union", "stream": "grid",
            "a": [(BASE + s * unit, (e - s) * unit, {"k": "a%d" % i}, None) for i, (s, e) in enumerate(la)],
            "b": [(BASE + s * unit, (e - s) * unit, {"k": "b%d" % i}, 10 + i) for i, (s, e) in enumerate(lb)]}


def rand_sorted_list(rng, n, unit, side, pool=None):
    t = rng.randrange(0, 4)
    evs = []
    for i in range(n):
        t += rng.choice([0, 0, 0, 1, 1, 2, 3, 7])
        d = rng.choice([0, 0, 1, 1, 2, 3, 5, 9])
        if pool is None:
            data = {"k": "%s%d" % (side, i), "app": rng.choice(["x", "y"])}
        else:
            data = copy.deepcopy(rng.choice(pool))
        eid = rng.choice([None, None, 100 * (side == "b") + i])
        evs.append((BASE + t * unit, d * unit, data, eid))
        t += d
    return evs


def gen_random(rng, n, stream):
    pool = [{"app": "x"}, {"app": "y"}, {}, {"n": 1}, {"n": 1.0}] if stream == "shared" else None
    for _ in range(n):
        unit = rng.choice([1000, 1000, 1_000_000, 250_000])
        na = rng.choice([0, 1, 1, 2, 3, 4, 6, 12])
        nb = rng.choice([0, 1, 1, 2, 3, 4, 6, 12])
        yield {"kind": "union", "stream": stream,
               "a": rand_sorted_list(rng, na, unit, "a", pool), "b": rand_sorted_list(rng, nb, unit, "b", pool)}


def gen_ood(rng, n):
    for _ in range(n):
        unit = rng.choice([1000, 1000, 500, 1_000_000])

        def lst(side):
            evs = []
            for i in range(rng.choice([0, 1, 2, 2, 3, 4, 6])):
                t = rng.randrange(0, 12)
                d = rng.choice([-2, -1, 0, 1, 1, 2, 3, 5, 8]) * unit + rng.choice([0, 0, 0, 1, -1, 250, 499, 500, 999])
                evs.append((BASE + t * 1000 * rng.choice([1, 1, unit // 500 or 1]), d, {"k": "%s%d" % (side, i)},
                            rng.choice([None, i])))
            if rng.random() < 0.5:
                evs.sort(key=lambda e: e[0])
            return evs
        yield {"kind": "union", "stream": "ood", "a": lst("a"), "b": lst("b")}


def gen_split(rng, n):
    unit = 1000
    for t, d, x in itertools.product((2,), (-1, 0, 1, 3), range(0, 7)):
        for off in (0, 1, -1, 500, 999):
            yield {"kind": "split", "stream": "split", "e": (BASE + t * unit, d * unit, {"k": "e"}, 7),
                   "dt": BASE + x * unit + off}
    for _ in range(n):
        unit = rng.choice([1000, 1_000_000])
        t = rng.randrange(0, 5)
        d = rng.choice([-1, 0, 1, 2, 5]) * unit + rng.choice([0, 0, 1, 250, 999])
        x = BASE + (t + rng.choice([-1, 0, 1, 2, 5, 6])) * unit + rng.choice([0, 0, 1, -1, 499, 500, 1500])
        yield {"kind": "split", "stream": "split", "e": (BASE + t * unit, d, {"k": "e", "n": [1, {"m": 2}]},
                                                          rng.choice([None, 3])), "dt": x}


# ---------------------------------------------------------------------------
# the implementation


def _snapshot(objs):
    return [(id(o), copy.deepcopy(dict(o))) for o in objs]


def _unmodified(objs, snap):
    if len(objs) != len(snap):
        return "input list changed length"
    for o, (i, d) in zip(objs, snap):
        if id(o) != i:
            return "input list holds a different object afterwards"
        if dict(o) != d or type(o["timestamp"]) is not type(d["timestamp"]):
            return f"input event modified: {dict(o)} was {d}"
    return None


def full_view(e):
    """(id, ts_us, dur_us, data value) of an Event"""
    from .evutil import us_of_dt, us_of_td
    return (e.id, us_of_dt(e.timestamp), us_of_td(e.duration), copy.deepcopy(e.data))


def run_impl(case, Event, uno, live=None):
    """-> (("ok", [full views]) | ("err", class name), not-modified message or None)
    `live` (round 3, harness/c15_hist.py): the two live argument lists of a call sequence instead of fresh objects."""
    if case["kind"] == "split":
        t, d, x, i = case["e"]
        e = mk_event(Event, t, d, copy.deepcopy(x), i)
        snap = _snapshot([e])
        try:
            r1, r2 = uno._split_event(e, dt(case["dt"]))
            out = ("ok", [full_view(r1)] + ([] if r2 is None else [full_view(r2)]))
        except Exception as ex:  # noqa: BLE001
            out = ("err", type(ex).__name__)
        return out, _unmodified([e], snap)
    if live is not None:
        a, b = live
    else:
        a = [mk_event(Event, t, d, copy.deepcopy(x), i) for t, d, x, i in case["a"]]
        b = [mk_event(Event, t, d, copy.deepcopy(x), i) for t, d, x, i in case["b"]]
    a0, b0 = list(a), list(b)
    sa, sb = _snapshot(a), _snapshot(b)
    res = None
    try:
        res = uno.union_no_overlap(a, b)
        out = ("ok", [full_view(e) for e in res])
    except Exception as ex:  # noqa: BLE001
        out = ("err", type(ex).__name__)
    nm = None
    if len(a) != len(a0) or any(x is not y for x, y in zip(a, a0)) or \
            len(b) != len(b0) or any(x is not y for x, y in zip(b, b0)):
        nm = "an input list was changed (length or element identity)"
    nm = nm or _unmodified(a, sa) or _unmodified(b, sb)
    if nm is None and res is not None:
        # round 3: results are new objects (Props/C15own.v proves them fresh in the heap-level model): a result that IS an
        # input event, or shares its data dict with one, lets later edits of the result reach the caller's events
        ins = {id(x) for x in a0 + b0}
        ins_data = {id(x.data) for x in a0 + b0}
        if any(id(e) in ins for e in res):
            nm = "an output event is an input object (later edits of the result would change the input)"
        elif any(id(e.data) in ins_data for e in res):
            nm = "an output event shares its data object with an input event (later edits of the result would change the input)"
    return out, nm


# ---------------------------------------------------------------------------
# the property statement, computed independently on the implementation's output


def _segments(*lists):
    pts = sorted({p for l in lists for (_, t, d, _) in l for p in (t, t + d)})
    return list(zip(pts, pts[1:]))


def _covering(evs, p, q):
    """events of evs whose half-open interval [ts, ts+dur) contains the elementary segment [p, q)"""
    return [e for e in evs if e[1] <= p and q <= e[1] + e[2]]


def in_domain(case):
    for l in (case["a"], case["b"]):
        for (t, d, _, _) in l:
            if d < 0 or t % 1000 or d % 1000:
                return False
        for (t, d, _, _), (t2, _, _, _) in zip(l, l[1:]):
            if t + d > t2:
                return False
    return True


def oracle_union(case, out, provenance=True):
    """None, or 'clause: what is wrong'.  a, b, out: lists of (id, ts, dur, data)."""
    a = [(i, t, d, x) for t, d, x, i in case["a"]]
    b = [(i, t, d, x) for t, d, x, i in case["b"]]
    segs = _segments(a, b, out)
    # (3) no two returned events overlap for a positive time; (4) covered time = union of the inputs
    for p, q in segs:
        c = _covering(out, p, q)
        if len(c) > 1:
            return f"no-overlap: returned events {c[0][:3]} and {c[1][:3]} both cover [{p - BASE},{q - BASE})"
        want = bool(_covering(a, p, q) or _covering(b, p, q))
        if want != bool(c):
            return (f"cover-is-union: [{p - BASE},{q - BASE}) is {'' if want else 'not '}covered by the inputs "
                    f"but is {'' if c else 'not '}covered by the result")
    if not provenance:
        # every list-one event is returned unchanged (as a sub-multiset; order/provenance not decidable here)
        rest = list(out)
        for e in a:
            k = next((j for j, o in enumerate(rest) if strict_eq(o, e)), None)
            if k is None:
                return f"list-one-intact: list-one event {e[:3]} is not returned unchanged"
            del rest[k]
        return None
    akeys = [e[3]["k"] for e in a]
    bkey = {e[3]["k"]: e for e in b}
    # (1) the list-one events of the result are exactly list one, in order, unchanged
    out_a = [o for o in out if isinstance(o[3], dict) and o[3].get("k") in akeys]
    if not strict_eq(out_a, a):       # typed: "unchanged" means the very values (True is not 1), ids included
        return f"list-one-intact: list-one events in the result {[o[:3] for o in out_a]} differ from list one {[e[:3] for e in a]}"
    # (2) every other returned event is a piece of one list-two event
    pieces = {k: [] for k in bkey}
    for o in out:
        k = o[3].get("k") if isinstance(o[3], dict) else None
        if k in akeys:
            continue
        f = bkey.get(k)
        if f is None:
            return f"pieces: returned event {o} comes from neither list"
        if not strict_eq(o[3], f[3]) or o[0] != f[0]:
            return f"pieces: piece {o} does not keep the data/id of its source {f}"
        if not (f[1] <= o[1] and o[1] + o[2] <= f[1] + f[2] and o[2] >= 0):
            return f"pieces: piece {o[:3]} does not lie inside its source {f[:3]}"
        pieces[k].append(o)
    for k, f in bkey.items():
        for p, q in segs:
            c = _covering(pieces[k], p, q)
            if len(c) > 1:
                return f"pieces: two pieces of {f[:3]} overlap on [{p - BASE},{q - BASE})"
            want = bool(_covering([f], p, q)) and not _covering(a, p, q)
            if want != bool(c):
                return (f"pieces: [{p - BASE},{q - BASE}) of list-two event {f[:3]} is "
                        f"{'uncovered by list one but missing from' if want else 'wrongly present in'} its pieces {[x[:3] for x in pieces[k]]}")
    return None


def features(case):
    a, b = case["a"], case["b"]
    f = set()
    touch = overlap = False
    for (t, d, _, _) in a:
        n_over = 0
        for (u, w, _, _) in b:
            if max(t, u) < min(t + d, u + w):
                overlap = True
                n_over += 1
                if t <= u and u + w <= t + d:
                    f.add("a-contains-b")
                if u <= t and t + d <= u + w:
                    f.add("b-contains-a")
            if t + d == u or u + w == t or t == u or t + d == u + w:
                touch = True
            if d == 0 and u < t < u + w:
                f.add("zero-length-a-inside-b")
            if d == 0 and u == t and w > 0:
                f.add("zero-length-a-at-start-of-b")
        if n_over >= 2:
            f.add("a-spans-several-b")
    for (u, w, _, _) in b:
        if sum(1 for (t, d, _, _) in a if max(t, u) < min(t + d, u + w)) >= 2:
            f.add("b-spans-several-a")
    if any(d == 0 for (_, d, _, _) in a + b):
        f.add("zero-length")
    if overlap:
        f.add("overlap")
    if touch:
        f.add("shared-edge")
    return f, (overlap or touch)


# ---------------------------------------------------------------------------
# one chunk of cases: implementation, oracle, model, comparison (runs in the main process or
# in a pool worker; returns a small summary)

_IMPL = {}


def _impl():
    if not _IMPL:
        from aw_core.models import Event
        import importlib
        uno = importlib.import_module("aw_transform.union_no_overlap")  # the package re-exports a function of the same name
        _IMPL["Event"], _IMPL["uno"] = Event, uno
    return _IMPL["Event"], _IMPL["uno"]


def case_wire(case, labels):
    def w(spec):
        t, d, x, i = spec
        return ev_wire((i, t, d, labels.label(x)))
    if case["kind"] == "split":
        return sx([1, w(case["e"]), case["dt"]])
    return sx([0, [w(s) for s in case["a"]], [w(s) for s in case["b"]]])


def check_case(case, Event, uno):
    """-> (impl result, failure message or None)"""
    out, nm = run_impl(case, Event, uno)
    bad = None
    if nm:
        bad = "inputs-not-modified: " + nm
    elif case["kind"] == "union" and case["stream"] != "ood":
        if out[0] != "ok":
            bad = f"raises: union_no_overlap raised {out[1]} on sorted non-overlapping inputs"
        else:
            bad = oracle_union(case, out[1], provenance=(case["stream"] != "shared"))
    return out, bad


def shrink_case(case, Event, uno):
    if case["kind"] != "union":
        return case

    def fails(a, b):
        c = dict(case, a=a, b=b)
        return check_case(c, Event, uno)[1] is not None
    a, b = list(case["a"]), list(case["b"])
    a = common.shrink_list(a, lambda x: fails(x, b), 100)
    b = common.shrink_list(b, lambda x: fails(a, x), 100)
    a = common.shrink_list(a, lambda x: fails(x, b), 100)
    return dict(case, a=a, b=b)


def jsonable(case):
    c = dict(case)
    for k in ("a", "b"):
        if k in c:
            c[k] = [list(s) for s in c[k]]
    if "e" in c:
        c["e"] = list(c["e"])
    return c


def process(cases, have_driver, hash_nontrivial=True):
    Event, uno = _impl()
    labels = common.Labels()
    S = {"n": 0, "dist": {}, "nontrivial": set(), "nontrivial_n": 0, "failing": [], "disagree": [], "samples": []}

    def count(k):
        S["dist"][k] = S["dist"].get(k, 0) + 1
    wires, impls = [], []
    for case in cases:
        out, bad = check_case(case, Event, uno)
        S["n"] += 1
        count("stream=" + case["stream"])
        if case["kind"] == "union":
            count("len=%d+%d" % (min(len(case["a"]), 4), min(len(case["b"]), 4)) + ("+" if max(len(case["a"]), len(case["b"])) > 4 else ""))
            fs, nontrivial = features(case)
            for f in fs:
                count(f)
            if out[0] == "ok":
                n_b = sum(1 for o in out[1] if isinstance(o[3], dict) and str(o[3].get("k", "")).startswith("b"))
                if case["stream"] in ("grid", "random"):
                    count("pieces>len(b)" if n_b > len(case["b"]) else "pieces<len(b)" if n_b < len(case["b"]) else "pieces=len(b)")
            if nontrivial:
                if hash_nontrivial:
                    S["nontrivial"].add(json.dumps(jsonable(case), sort_keys=True, default=str))
                else:
                    S["nontrivial_n"] += 1
            if len(S["samples"]) < 3 and "a-spans-several-b" in fs and "zero-length" in fs and out[0] == "ok":
                S["samples"].append({"a_us_rel": [(t - BASE, d, x) for t, d, x, _ in case["a"]],
                                     "b_us_rel": [(t - BASE, d, x) for t, d, x, _ in case["b"]],
                                     "impl": [(t - BASE, d, x) for _, t, d, x in out[1]]})
        else:
            count("split:" + ("two" if out[0] == "ok" and len(out[1]) == 2 else "one"))
            if hash_nontrivial:
                S["nontrivial"].add(json.dumps(jsonable(case), sort_keys=True, default=str))
            else:
                S["nontrivial_n"] += 1
        if bad and len(S["failing"]) < 5:
            small = shrink_case(case, Event, uno)
            sout, sbad = check_case(small, Event, uno)
            S["failing"].append((sbad or bad, jsonable(small), sout))
        elif bad:
            count("failing-input")
        wires.append(case_wire(case, labels))
        if out[0] == "ok":
            impls.append([0, [(i, t, d, labels.label(x)) for i, t, d, x in out[1]]])
        else:
            impls.append([1, ERRCODE.get(out[1], 10)])
    if have_driver:
        model = common.run_driver("C15", wires)
        for case, w, mo, io in zip(cases, wires, model, impls):
            if case["kind"] == "split":
                mo_c = [0, [ev_unwire(e) for e in mo]] if mo and isinstance(mo[0], list) else mo
            else:
                mo_c = [0, [ev_unwire(e) for e in mo[1]]] if mo and mo[0] == 0 else mo
            if mo_c != io:
                count("disagreement")
                if len(S["disagree"]) < 5:
                    S["disagree"].append((case["stream"], jsonable(case), w, mo_c, io))
    return S


def _grid_chunk(args):
    G, kmax, lo, hi, have_driver = args
    ls = _grid_chunk.lists.get((G, kmax))
    if ls is None:
        ls = _grid_chunk.lists[(G, kmax)] = grid_lists(G, kmax)
    n = len(ls)
    cases = [grid_case(ls[i // n], ls[i % n]) for i in range(lo, hi)]
    S = process(cases, have_driver, hash_nontrivial=False)
    return S


_grid_chunk.lists = {}


class CountedSet(set):
    """distinct non-trivial cases: hashes for the seeded streams plus a plain count for the
    exhaustive grid (whose cases are distinct by construction and too many to hash)"""
    extra = 0

    def __len__(self):
        return set.__len__(self) + self.extra


def absorb(ck, S):
    import hashlib
    ck.evaluations += S["n"]
    for k, v in S["dist"].items():
        ck.count(k, v)
    for c in S["nontrivial"]:
        ck.nontrivial.add(hashlib.sha1(c.encode()).hexdigest())
    ck.nontrivial.extra += S["nontrivial_n"]
    for s in S["samples"]:
        ck.sample(s, limit=4)
    for bad, case, out in S["failing"]:
        ck.failing_input("C15:" + bad.split(":")[0], bad, replay_obj(case, out))
    for stream, case, w, mo, io in S["disagree"]:
        ck.disagreement("union_no_overlap/" + stream, f"model {mo} impl {io}",
                        {"case": case, "wire": w, "model": mo, "impl": io})


def replay_obj(case, out):
    return {"call": "union_no_overlap(a, b)" if case["kind"] == "union" else "_split_event(e, dt)",
            "case": case, "event_spec": "(timestamp_us_since_epoch, duration_us, data, id)",
            "rel_to_base_us": {k: [(s[0] - BASE, s[1]) for s in case[k]] for k in ("a", "b") if k in case},
            "impl_output": out,
            "rerun_hint": f"VERIF_REPO={common.REPO} PYTHONPATH={common.REPO}:{common.VERIF} /venv/bin/python -m harness.c15 replay <this file>"}


def replay_main(path):
    obj = json.load(open(path))
    r = obj.get("replay", obj)
    if "case" not in r:
        if r.get("rerun"):      # a corpus witness: it carries its own command
            import subprocess
            print("re-running:", r["rerun"])
            return subprocess.call(r["rerun"], shell=True)
        cands = [x["replay"] for x in obj.get("other_failing_inputs", []) if "case" in x.get("replay", {})] \
            + [d for d in obj.get("disagreements", []) if "case" in d]
        if not cands:
            print("nothing to replay in", path)
            return 2
        r = cands[0]
    case = r["case"]
    for k in ("a", "b"):
        if k in case:
            case[k] = [tuple(s) for s in case[k]]
    if "e" in case:
        case["e"] = tuple(case["e"])
    common.setup_impl_env()
    Event, uno = _impl()
    out, bad = check_case(case, Event, uno)
    print("case:", json.dumps(jsonable(case), default=str))
    print("implementation returns:", out)
    print("property oracle:", bad or "holds")
    return 1 if bad else 0


def main(argv=None):
    argv = argv if argv is not None else sys.argv[1:]
    if argv and argv[0] == "replay":
        return replay_main(argv[1])
    ck = Check("C15", argv)
    ck.nontrivial = CountedSet()
    common.setup_impl_env()
    _impl()

    ck.run_witnesses(["w11"])
    ck.prove(extra_targets=["Bridge/BridgeUnionNoOverlap.v", "Props/C15own.v"], gen_kernels=["uno_split_event", "uno_loop_body"])
    have_driver = ck.driver()
    from . import theap            # "inputs are not modified": heap-level model (Props/C15own.v), tie A with aliasing
    theap.heap_check(ck, "union_no_overlap", have_driver=theap.prepare(ck))

    quick = ck.tier == "quick"
    rng = ck.rng
    # deterministic boundary corpus
    if quick:
        ls = grid_lists(4, 2)
        cases = [grid_case(x, y) for x in ls for y in ls]
        big = grid_lists(8, 3)
        cases += [grid_case(rng.choice(big), rng.choice(big)) for _ in range(5000)]
        absorb(ck, process(cases, have_driver))
        ck.coverage["grid"] = "exhaustive 0..4 x <=2 events a side (%d pairs) + 5000 seeded samples of 0..8 x <=3" % (len(ls) ** 2)
    else:
        G, K = int(os.environ.get("C15_GRID", "8")), int(os.environ.get("C15_GRID_K", "3"))
        n = len(grid_lists(G, K))
        total = n * n
        step = 50_000
        jobs = [(G, K, lo, min(total, lo + step), have_driver) for lo in range(0, total, step)]
        procs = max(1, min(16, (os.cpu_count() or 2) - 1))
        with multiprocessing.get_context("fork").Pool(procs) as pool:
            for S in pool.imap_unordered(_grid_chunk, jobs):
                absorb(ck, S)
        ck.coverage["grid"] = f"exhaustive 0..{G} x <={K} events a side: {n} lists, {total} pairs"
    n_rand, n_shared, n_ood, n_split = (4000, 1500, 2500, 1500) if quick else (300000, 100000, 150000, 60000)
    cases = list(gen_random(rng, n_rand, "random")) + list(gen_random(rng, n_shared, "shared")) \
        + list(gen_ood(rng, n_ood)) + list(gen_split(rng, n_split))
    bad_gen = [c for c in cases if c["stream"] in ("random", "shared") and not in_domain(c)]
    if bad_gen:
        raise RuntimeError("generator produced an out-of-domain case in an in-domain stream")
    if quick:
        absorb(ck, process(cases, have_driver))
    else:
        step = 20_000
        chunks = [cases[i:i + step] for i in range(0, len(cases), step)]
        with multiprocessing.get_context("fork").Pool(max(1, min(16, (os.cpu_count() or 2) - 1))) as pool:
            for S in pool.starmap(process, [(c, have_driver) for c in chunks]):
                absorb(ck, S)
    from . import c15_hist          # round 3: the query layer, call sequences on live objects, >= 10 001 events a side
    c15_hist.run(ck, sys.modules[__name__], _impl()[0], _impl()[1], have_driver)
    # Off the millisecond grid (documented known finding, same root cause as C10:off-ms-grid): Event floors an
    # assigned timestamp to the ms but keeps microsecond durations, so a split at an off-grid instant shifts the
    # second half.  Measured on every run on a fixed witness; reported only while listed open in known_findings.json.
    try:
        from aw_core.models import Event
        import importlib
        uno = importlib.import_module("aw_transform.union_no_overlap")
        a = [mk_event(Event, BASE, 1500, {"l": 1})]
        b = [mk_event(Event, BASE, 3000, {"l": 2})]
        out = uno.union_no_overlap(a, b)
        from .evutil import us_of_dt, us_of_td
        view = [(us_of_dt(e.timestamp) - BASE, us_of_td(e.duration), e.data["l"]) for e in out]
        ck.coverage["off_ms_grid_witness"] = {"a": [[0, 1500]], "b": [[0, 3000]], "impl": view}
        ck.evaluations += 1
        overlap = any(x[0] < y[0] + y[1] and y[0] < x[0] + x[1] for i, x in enumerate(view) for y in view[i + 1:])
        covered_end = max((t + d for t, d, _ in view), default=0)
        if (overlap or covered_end != 3000) and any(k.get("signature") == "C15:off-ms-grid" for k in ck.known):
            ck.failing_input("C15:off-ms-grid", f"off the ms grid: a=[(0,1500us)], b=[(0,3000us)] -> {view}",
                             {"a_us": [[0, 1500]], "b_us": [[0, 3000]], "impl": view})
    except Exception as ex:  # the probe must never mask the real result
        ck.coverage["off_ms_grid_witness"] = f"probe raised {type(ex).__name__}: {ex}"
    ck.coverage["ties"] = {
        "_split_event": "A (differential, stream split + inside union_no_overlap) + B (bridge_split_event)",
        "union_no_overlap loop body": "A (differential) + B (bridge_uno_step)",
        "union_no_overlap loop skeleton (deep copies, indices, while test, tail appends)":
            "A (differential) + syntactic skeleton match in translate/k_union_no_overlap.py",
    }
    ck.assumptions += [
        "theorems assume: both lists time-sorted and internally non-overlapping (consecutive end <= next start), "
        "durations >= 0, list-one starts and ends millisecond-aligned (Event.timestamp floors to the ms)",
        "event data is opaque to union_no_overlap; it enters the model as harness-assigned labels",
        "'inputs are not modified': theorem over the heap-level model (Props/C15own.v: frame, freshness and refinement for "
        "every aliasing of the arguments), tied by harness/theap.py",
    ]
    return ck.finish(RULE)


if __name__ == "__main__":
    sys.exit(main())
