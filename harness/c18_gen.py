"""Round-2 histories of the C18 check (added to the C06/C18 corpus of harness/c06_gen.py, which
stays as it is): (a) ages far beyond the ten-second boundary whose days / seconds / microseconds
components differ in size (N days + a few seconds, exact days, hours, 23:59:59.999999, ...),
(b) sessions that RE-OPEN the store on the existing file (harness/c18_lib.py), so that an event
write is the first thing a store instance does.  Same step format: (dt_us, tick_us, spec)."""
from .c06_lib import S
from .c06_gen import MS, _create, _ins

MIN = 60 * S
HOUR = 3600 * S
DAY = 86400 * S

KINDS = ("insert_one", "delete", "replace", "replace_last", "insert_many")

# ages after a flush: (days, seconds, microseconds) components of every size
LONG_GAPS = [
    10 * S + 500 * MS, 10 * S + 999_999, 11 * S, 59 * S, MIN, MIN + 5 * S, 10 * MIN + 3 * S,
    HOUR + 3 * S, 2 * HOUR, 12 * HOUR + 9 * S, 23 * HOUR + 59 * MIN + 5 * S, DAY - S, DAY - 1,
    DAY, DAY + 1, DAY + MS, DAY + 4 * S, DAY + 9_999_999, DAY + 10 * S, DAY + 10 * S + 1, DAY + 11 * S,
    DAY + HOUR + 2 * S, 2 * DAY + 7 * S, 3 * DAY, 7 * DAY + 2 * S, 30 * DAY + 9 * S, 365 * DAY + 5 * S, 10_000 * DAY,
]


def _spec(kind, ids):
    return {"insert_one": ("insert_one", "b"), "delete": ("delete", "b", ids[0]),
            "replace": ("replace", "b", ids[1]), "replace_last": ("replace_last", "b"),
            "insert_many": ("insert_many", "b", (), 2)}[kind]


def _reopen(dt=MS, mode="crash", down=0):
    return (dt, 0, ("reopen", mode, down))


def corpus():
    """-> list of (name, lazy, history)"""
    out = []

    def add(name, h, lazy=True):
        out.append((name, lazy, h))

    # (a) one write of some kind `gap` after a flush (nothing pending), and `gap` after a flush
    # with young writes pending; every gap with insert_one and one more kind (rotating)
    for gi, gap in enumerate(LONG_GAPS):
        for kind in ("insert_one", KINDS[1 + gi % 4]):
            def h_long(r, gap=gap, kind=kind):
                yield _create("b")
                yield (MS, 0, ("insert_many", "b", (), 4))
                yield (MS, 0, ("get_eventcount", "b"))                 # flush at T
                ids = r.event_ids("b")
                yield (gap, 0, _spec(kind, ids))                       # age = gap
                yield (2 * S, 0, ("insert_one", "b"))                  # young: may stay buffered
                yield (2 * S, 0, ("replace_last", "b"))
                yield (gap - 4 * S, 0, _spec(kind, ids[1:]))           # age = gap again, two writes pending
                yield (gap, 0, ("insert_many", "b", (ids[2], ids[3]), 1))  # several statements, one commit decision
                yield (MS, 0, ("insert_one", "b"))
            add(f"long-age-{kind}-{gap}", h_long)

    # trickles slower than a day, idle days then a burst, clocks that jump days between the
    # readings of one conditional_commit
    for period in (DAY + 4 * S, DAY, 2 * DAY + 9_999_999, HOUR + 5 * S):
        def h_trickle(r, period=period):
            yield _create("b")
            for k in range(7):
                yield (period, 0, ("insert_one", "b") if k % 3 else ("replace_last", "b"))
        add(f"long-trickle-{period}", h_trickle)

    def h_idle(r):
        yield _create("b")
        yield from _ins("b", 5)
        yield (3 * DAY + 3 * S, 0, ("insert_one", "b"))
        yield from _ins("b", 55, dt=100 * MS)
        yield (DAY + 2 * S, 0, ("get_events", "b", 0))                 # limit 0: no commit
        yield (S, 0, ("insert_one", "b"))
        yield (DAY, 0, ("buckets",))
        yield (5 * S, 0, ("delete", "b", 1))
    add("long-idle-then-burst", h_idle)

    for tick in (DAY + 2 * S, DAY, 12 * HOUR + 3 * S):
        def h_tick(r, tick=tick):
            yield _create("b")
            yield from _ins("b", 49, dt=1)
            yield (0, tick, ("insert_one", "b"))
            yield (0, tick, ("insert_one", "b"))      # the 51st counted statement
            yield (0, tick, ("insert_many", "b", (1, 2), 3))
            yield (4 * S, 0, ("insert_one", "b"))
            yield (4 * S, tick, ("delete", "b", 1))
        add(f"long-ticking-clock-{tick}", h_tick)

    # (b) a store opened on the existing file: the first thing it does is an event write `gap`
    # after opening (optionally after a read that does not flush), then a slow trickle
    pre_reads = (None, ("buckets",), ("get_metadata", "b"), ("get_events", "b", 0))
    gaps = (3 * S, 9_999_000, 10 * S, 10_000_001, 10_001_000, 30 * S, HOUR, DAY + 4 * S)
    n = 0
    for gap in gaps:
        for kind in KINDS:
            n += 1
            def h_reopen(r, gap=gap, kind=kind, mode=("crash", "flush")[n % 2], down=(0, HOUR, 5 * S)[n % 3],
                         pre=pre_reads[n % 4]):
                yield _create("b")
                yield (MS, 0, ("insert_many", "b", (), 5))
                yield (MS, 0, ("get_eventcount", "b"))
                yield from _ins("b", 2)                                # pending when the store goes away
                yield _reopen(S, mode, down)
                if pre:
                    yield (MS, 0, pre)
                ids = r.event_ids("b")
                yield (gap, 0, _spec(kind, ids))                       # `gap` (+1 ms) after opening
                for _ in range(4):
                    yield (4 * S, 0, ("insert_one", "b"))
                yield (7 * S, 0, ("insert_many", "b", (ids[2], ids[3]), 1))
                yield _reopen(2 * S, "crash", 0)
                yield (gap, 0, ("insert_many", "b", (ids[2],), 2))     # several statements, one commit decision
                yield (11 * S, 0, ("replace_last", "b"))
            add(f"reopen-{kind}-{gap}", h_reopen)

    def h_reopen_many(r):
        yield _create("a")
        yield _create("b")
        yield from _ins("a", 3)
        for k in range(6):
            yield _reopen((k + 1) * 3 * S, ("flush", "crash")[k % 2], (0, 20 * S)[k % 2])
            yield ((12 * S, 5 * S)[k % 2], 0, ("insert_one", "ab"[k % 2]))
            yield from _ins("b", 3, dt=3 * S)
    add("reopen-repeatedly", h_reopen_many)

    def h_reopen_burst(r):
        yield _create("b")
        yield _reopen(MS, "flush", 0)
        yield from _ins("b", 49, dt=1)
        yield (11 * S, 0, ("insert_one", "b"))
        yield _reopen(MS, "crash", 0)
        yield from _ins("b", 52, dt=100 * MS)          # count threshold and 10 s pass together
        yield from _ins("b", 60, dt=200 * MS)
    add("reopen-then-burst", h_reopen_burst)

    def h_reopen_eager(r):
        yield _create("b")
        yield from _ins("b", 3)
        yield _reopen(S, "crash", 0)
        yield (20 * S, 0, ("insert_one", "b"))
        yield (MS, 0, ("insert_many", "b", (1,), 2))
    add("reopen-eager", h_reopen_eager, lazy=False)
    return out


# ---------------------------------------------------------------------------
# round 3: histories written for the public layer (they run at both layers like all others):
# the flush before the old write is a READ of every kind the Bucket class has, the Bucket
# object is new or reused, bucket-level calls of Datastore come in between, a second store
# is alive beside the one under test

READS = (("get_events", "b", 1), ("get_events", "b", -1), ("get_events", "b", 5, 1), ("get_event", "b", 1),
         ("get_eventcount", "b"), ("get_eventcount", "b", 1), ("get_event", "b", 999))
NO_FLUSH_READS = (("get_metadata", "b"), ("buckets",), ("get_events", "b", 0))
API_GAPS = (9_999_000, 10 * S, 10_000_001, 10_600_000, 30 * S, DAY + 4 * S)


def _companion(dt, *call):
    return (dt, 0, ("companion", tuple(call)))


def api_corpus():
    out = []

    def add(name, h, lazy=True):
        out.append((name, lazy, h))

    n = 0
    for gap in API_GAPS:
        for kind in KINDS:
            n += 1
            def h_wrapped(r, gap=gap, kind=kind, read=READS[n % len(READS)], quiet=NO_FLUSH_READS[n % 3]):
                yield _create("b")
                yield (MS, 0, ("insert_many", "b", (), 4))
                yield (MS, 0, read)                                    # a read: "the previous flush"
                ids = r.event_ids("b")
                yield (gap, 0, _spec(kind, ids))                       # one write, `gap` later
                yield (MS, 0, quiet)                                   # no flush
                yield (3 * S, 0, ("insert_one", "b"))                  # young
                yield (S, 0, read)                                     # flush
                yield (gap, 0, _spec(kind, ids[1:]))                   # again, Bucket object reused
                yield _reopen(S, "flush", 0)
                yield (gap, 0, _spec(kind, ids[2:] + ids[:2]))         # first use of ds["b"] of a new Datastore
                yield (gap, 0, ("insert_many", "b", (ids[3],), 2))
            add(f"wrapped-{kind}-{gap}", h_wrapped)

    def h_bucket_calls(r):
        # Datastore-level calls between the writes: every one of them is a flush
        yield _create("a")
        yield _create("b")
        yield from _ins("b", 3)
        yield (12 * S, 0, ("update_bucket", "a", 1))
        yield (10_000_001, 0, ("insert_one", "b"))
        yield (4 * S, 0, ("insert_one", "a"))
        yield (S, 0, ("delete_bucket", "a"))
        yield (11 * S, 0, ("replace_last", "b"))
        yield (MS, 0, ("insert_one", "a"))                             # gone: the call raises
        yield _create("a")                                             # same id again: a new Bucket object
        yield (11 * S, 0, ("insert_one", "a"))
        yield (4 * S, 0, ("create_bucket", "a"))                       # duplicate: raises
        yield (7 * S, 0, ("insert_many", "a", (), 3))
        yield (11 * S, 0, ("update_bucket", "b", None))                # no field: raises before any statement
        yield (MS, 0, ("delete", "b", 1))
        yield (11 * S, 0, ("get_metadata", "nope"))
        yield (MS, 0, ("replace", "b", 2))
        yield (11 * S, 0, ("insert_many_bad", "b", (), 2))
        yield (11 * S, 0, ("insert_one", "b"))
        yield (S, 0, ("insert_one", "b"))                              # young: stays buffered
        # 11.5 s after the flush (10.5 s after the last instant at which nothing was pending) the third upsert of
        # a list raises at bind time: the two before it (and the young write) are flushed by the
        # conditional_commit of insert_many's finally clause
        yield (10_500_000, 0, ("insert_many_badup", "b", (1, 2, 3), 2, 1))
        yield (3 * S, 0, ("insert_one", "b"))
    add("datastore-level-calls-between-writes", h_bucket_calls)

    # a second store alive in the process: its flushes, bursts and bucket calls are not ours
    for kind in KINDS:
        def h_second(r, kind=kind):
            yield _create("b")
            yield (MS, 0, ("insert_many", "b", (), 4))
            yield (MS, 0, ("get_eventcount", "b"))
            ids = r.event_ids("b")
            yield _companion(S, "create_bucket", "b")
            yield _companion(S, "create_bucket", "a")
            yield _companion(S, "insert_many", "b", 3)
            yield _companion(8 * S, "get_eventcount", "b")             # flush of the OTHER store, 11 s after ours
            yield (S, 0, _spec(kind, ids))                             # 12 s after our flush
            yield (2 * S, 0, ("insert_one", "b"))                      # young
            for _ in range(55):
                yield _companion(100 * MS, "insert_one", "b")          # the other store crosses its count threshold
            yield _companion(MS, "commit")
            yield (3 * S, 0, _spec(kind, ids[1:]))                     # ours: 5 s old only at this point
            yield _companion(6 * S, "delete_bucket", "a")
            yield _companion(MS, "get_events", "b", 1)
            yield (MS, 0, ("replace_last", "b"))                       # > 10 s after our last flush
            yield _reopen(S, "crash", 0)
            yield _companion(9 * S, "insert_one", "b")
            yield (2 * S, 0, _spec(kind, ids[2:] + ids[:2]))           # 11 s after opening
        add(f"second-store-alive-{kind}", h_second)
    return out


# ---------------------------------------------------------------------------
# seeded random sessions

SHORT = [0, 1, MS, MS, 500 * MS, 3 * S, 4 * S, 9_999_000, 10 * S, 10_000_001, 10_001_000, 12 * S, 30 * S]
TICKS = [0, 0, 0, 0, 0, 0, 1, S, 6 * S, 11 * S, DAY + 2 * S]


def random_gap(rng):
    """days + seconds + microseconds, each component zero, tiny, near 10 s, or large"""
    d = rng.choice([0, 0, 1, 1, 2, 3, 7, 400]) * DAY
    h = rng.choice([0, 0, 0, 1, 12, 23]) * HOUR
    s = rng.choice([0, 1, 2, 4, 9, 10, 11, 59]) * S
    u = rng.choice([0, 0, 1, 500 * MS, 999_999])
    return d + h + s + u


def random_session(rng, profile):
    """profile: 'longidle' (no re-opening, gaps with day / hour components) | 'reopen'"""
    n_calls = rng.randrange(15, 90)
    names = ["a", "b", "c"]

    def h(r):
        yield _create("a")
        if rng.random() < 0.7:
            yield (MS, 0, ("insert_many", "a", (), rng.choice([1, 3, 8])))
        for _ in range(n_calls):
            have = r.bucket_ids()
            b = rng.choice(have) if have and rng.random() < 0.95 else rng.choice(names + ["nope"])
            x = rng.random()
            if profile == "longidle":
                dt = random_gap(rng) if x < 0.35 else rng.choice(SHORT)
            else:
                dt = random_gap(rng) if x < 0.1 else rng.choice(SHORT)
            tick = rng.choice(TICKS) if rng.random() < 0.2 else 0
            if profile == "reopen" and rng.random() < 0.12:
                yield (rng.choice(SHORT), 0, ("reopen", rng.choice(["crash", "crash", "flush"]),
                                              rng.choice([0, 0, 5 * S, HOUR, DAY + 3 * S])))
                have = r.bucket_ids()
                if have and rng.random() < 0.8:     # most often an event write comes first
                    b = rng.choice(have)
                    if rng.random() < 0.3:
                        yield (rng.choice(SHORT), 0, rng.choice([("buckets",), ("get_metadata", b), ("get_events", b, 0)]))
                    ids = r.event_ids(b)
                    w = rng.choice(KINDS)
                    sp = _spec(w, ids) if len(ids) >= 2 else ("insert_one", b)
                    yield (dt, tick, (sp[0], b) + tuple(sp[2:]))
                    continue
            if rng.random() < 0.06:        # the second store of the process does something
                yield (dt, 0, ("companion", rng.choice([("create_bucket", "b"), ("insert_one", "b"), ("insert_one", "b"),
                                                        ("insert_many", "b", rng.choice([1, 20, 51])), ("get_eventcount", "b"),
                                                        ("get_events", "b", 1), ("replace_last", "b"), ("commit",),
                                                        ("delete_bucket", "b")])))
                continue
            ids = r.event_ids(b) if b in have else []
            some_id = (lambda: rng.choice(ids)) if ids and rng.random() < 0.9 else (lambda: rng.randrange(1, 300))
            y = rng.random()
            if y < 0.42:
                yield (dt, tick, ("insert_one", b))
            elif y < 0.54:
                yield (dt, tick, ("delete", b, some_id()))
            elif y < 0.64:
                yield (dt, tick, ("replace", b, some_id()))
            elif y < 0.74:
                yield (dt, tick, ("replace_last", b))
            elif y < 0.82:
                ups = tuple(some_id() for _ in range(rng.choice([0, 0, 1, 3])))
                yield (dt, tick, ("insert_many", b, ups, rng.choice([0, 1, 3, 8, 20, 51])))
            elif y < 0.85:
                yield (dt, tick, ("create_bucket", rng.choice(names)))
            elif y < 0.87:
                yield (dt, tick, ("update_bucket", b, rng.choice([None, 1, 2])))
            elif y < 0.88:
                yield (dt, tick, ("delete_bucket", b))
            elif y < 0.91:
                yield (dt, tick, ("get_events", b, rng.choice([0, 0, 1, -1])) + rng.choice([(), (), (1,)]))
            elif y < 0.93:
                yield (dt, tick, ("get_eventcount", b) + rng.choice([(), (1,)]))
            elif y < 0.95:
                yield (dt, tick, ("get_event", b, some_id()))
            elif y < 0.98:
                yield (dt, tick, ("buckets",))
            else:
                yield (dt, tick, ("get_metadata", b))
    return h
