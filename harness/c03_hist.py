"""C03 (round 2): scripts.  A C03 case is a SCRIPT: write operations of the storage interface
interleaved with window queries, addressed to one of several buckets of one of several storage
INSTANCES of the same back end that are alive in the process at the same time.

  case  = {"stream": str, "nstores": k, "script": [step ...]}
  step  = ["w", s, op]          a write on store s
        | ["q", s, b, query]    Bucket.get / Bucket.get_eventcount on bucket b of store s
  op    = ["create", b] | ["delete_bucket", b] | ["insert", b, ev] | ["insert_many", b, [ev ...]]
        | ["replace", b, h, ev] | ["replace_last", b, ev] | ["delete", b, h]
  ev    = [h | None, ts_us, dur_us, label]      h = ["lab", x]: the id of the event of that bucket
                                                that currently carries label x
  query = ["get", limit, ws|None, we|None, off_min, off_min] | ["count", ws, we, off_min, off_min]
        | ["round", utc, off_us]

Every event ever written in a case carries a label of its own (a replacing event gets a fresh one),
so that what a bucket must hold at any point follows from the writes alone, without reading the
store: the runner keeps that independent account ("ghost", label -> [id, ts, dur, label]; ids are
the ones the store handed out) and snapshots it at every query for the property oracle.  The only
things learnt from reads are the ids of bulk-inserted events and which of several equally new
events a replace_last hit; the script builder puts an unwindowed read right after such a write, and
a read that does not show the event leaves the account with an entry the oracle then misses.

memory / sqlite: the k instances are alive together and the script runs interleaved as written.
peewee has one module-level database handle, so its instances run one after the other (each store's
part of the script in order)."""
import os
from datetime import datetime, timedelta, timezone

from . import store_hist as sh
from .evutil import BASE, dt, us_of_dt, us_of_td

SEC = 1_000_000
DAY = 24 * 3600 * SEC
META = [1, 1, 1, 0, [], 0]
OFFS = [0, 0, 0, -720, 840, 330, 345, -210, 60, 765]


def floor_ms(t):
    return t - t % 1000


def aware(us, off_min):
    return dt(us).astimezone(timezone(timedelta(minutes=off_min)))


def window_queries(ws, we, limits, rng=None):
    o1 = rng.choice(OFFS) if rng else 0
    o2 = rng.choice(OFFS) if rng else 0
    qs = [["get", -1, ws, we, o1, o2], ["count", ws, we, o1, o2]]
    for k in limits:
        qs.append(["get", k, ws, we, o1, o2])
    return qs


# ---------------------------------------------------------------------------
# building scripts


class Script:
    """Script builder with the generator's own book-keeping (which labels are certainly live in
    which bucket, and when they start) - only used to choose targets and window edges."""

    def __init__(self, nstores=1, stream="history"):
        self.n = nstores
        self.stream = stream
        self.steps = []
        self.book = {}          # (s, b) -> {label: ts}      certainly live
        self.unc = {}           # (s, b) -> {label: ts}      live unless a tied replace_last hit them
        self.edges = set()
        self.nlabel = 0

    def case(self):
        return {"stream": self.stream, "nstores": self.n, "script": self.steps}

    def label(self):
        self.nlabel += 1
        return self.nlabel

    def buckets(self, s):
        return sorted(b for (s2, b) in self.book if s2 == s)

    def live(self, s, b):
        return sorted(self.book.get((s, b), {}))

    def _note(self, t, d):
        self.edges.update((t, t + d))

    def create(self, s, b):
        self.steps.append(["w", s, ["create", b]])
        self.book[(s, b)] = {}
        self.unc[(s, b)] = {}

    def delete_bucket(self, s, b):
        self.steps.append(["w", s, ["delete_bucket", b]])
        self.book.pop((s, b), None)
        self.unc.pop((s, b), None)

    def insert(self, s, b, t, d):
        x = self.label()
        self.steps.append(["w", s, ["insert", b, [None, t, d, x]]])
        self.book[(s, b)][x] = t
        self._note(t, d)
        return x

    def learn(self, s, b):
        self.steps.append(["q", s, b, ["get", -1, None, None, 0, 0]])

    def bulk(self, s, b, items):
        """items: [(target label | None, ts, dur)]"""
        evs, out = [], []
        for target, t, d in items:
            x = self.label()
            evs.append([None if target is None else ["lab", target], t, d, x])
            if target is not None:
                self.book[(s, b)].pop(target, None)
            self.book[(s, b)][x] = t
            self._note(t, d)
            out.append(x)
        self.steps.append(["w", s, ["insert_many", b, evs]])
        if any(target is None for target, _, _ in items):
            self.learn(s, b)
        return out

    def replace(self, s, b, target, t, d, how="replace"):
        x = self.label()
        if how == "replace":
            self.steps.append(["w", s, ["replace", b, ["lab", target], [None, t, d, x]]])
        elif how == "insert-id":
            self.steps.append(["w", s, ["insert", b, [["lab", target], t, d, x]]])
        else:
            self.steps.append(["w", s, ["insert_many", b, [[["lab", target], t, d, x]]]])
        self.book[(s, b)].pop(target, None)
        self.book[(s, b)][x] = t
        self._note(t, d)
        return x

    def replace_last(self, s, b, t, d):
        x = self.label()
        bk, un = self.book[(s, b)], self.unc[(s, b)]
        if not bk and not un:
            return None
        m = max(list(bk.values()) + list(un.values()))
        c = [k for k, v in bk.items() if v == m]
        u = [k for k, v in un.items() if v == m]
        if len(c) == 1 and not u:
            bk.pop(c[0])
        else:
            for k in c:
                un[k] = bk.pop(k)
        self.steps.append(["w", s, ["replace_last", b, [None, t, d, x]]])
        bk[x] = t
        self._note(t, d)
        self.learn(s, b)
        return x

    def delete(self, s, b, target):
        self.steps.append(["w", s, ["delete", b, ["lab", target]]])
        self.book[(s, b)].pop(target, None)

    def queries(self, s, b, qs):
        for q in qs:
            self.steps.append(["q", s, b, q])


def simple_script(events, queries, stream):
    """The round-1 shape: one store, one bucket, filled by single inserts, then read."""
    steps = [["w", 0, ["create", 1]]]
    for t, d, x in events:
        steps.append(["w", 0, ["insert", 1, [None, t, d, x]]])
    for q in queries:
        steps.append(["q", 0, 1, q])
    return {"stream": stream, "nstores": 1, "script": steps}


# ---------------------------------------------------------------------------
# deterministic corpora

MOVES = ["replace", "insert-id", "bulk-id", "bulk-mixed", "delete-insert", "replace_last"]


def _move(sc, how, target, t, d, filler):
    """Give the event labelled `target` of bucket 1 of store 0 the new interval [t, t+d] by one of the
    write paths; -> the label it carries afterwards."""
    if how in ("replace", "insert-id", "bulk-id"):
        return sc.replace(0, 1, target, t, d, how)
    if how == "bulk-mixed":
        return sc.bulk(0, 1, [(None, filler, 0), (target, t, d), (None, filler + 1000, 1000)])[1]
    if how == "delete-insert":
        sc.delete(0, 1, target)
        return sc.insert(0, 1, t, d)
    return sc.replace_last(0, 1, t, d)


def history_boundary_cases():
    """Four events 4 ms apart (grid straddling a whole second), inserted out of order; one of them
    is then given every other place on the time axis - before all, on a neighbour (tie), between
    neighbours, after all, far after - by every write path (replace, insert / bulk insert of an event
    that carries the id, a mixed bulk call, delete + re-insert, replace_last for the newest); reads
    before, after the move and after a second move of another event: unwindowed, around the old and
    the new place, open-ended on either side, all limits 1..3."""
    out = []
    T = BASE + SEC - 6000
    G = [T + 4000 * i for i in range(4)]
    durs = [1000, 0, 2500, 400]
    places = [G[0] - 4000] + G + [g + 2000 for g in G[:-1]] + [G[3] + 4000, G[3] + 2 * SEC]
    n = 0
    for i in range(4):
        for p in places:
            for how in MOVES:
                if how == "replace_last" and i != 3:
                    continue
                n += 1
                sc = Script(1, "history")
                sc.create(0, 1)
                labs = {}
                for j in (2, 0, 3, 1):
                    labs[j] = sc.insert(0, 1, G[j], durs[j])
                sc.queries(0, 1, window_queries(None, None, [1, 2]))
                nd = [durs[i], 0, 1500][n % 3]
                _move(sc, how, labs[i], p, nd, G[0] - 9000)
                qs = window_queries(None, None, [1, 2, 3])
                qs += window_queries(p - 1000, p + nd + 1000, [1, 2])
                qs += window_queries(G[i] - 1000, G[i] + 3000, [1])
                qs += window_queries(None, p, [1, 2])
                qs += window_queries(p, None, [1, 3])
                qs += window_queries(G[0] - 5000, G[3] + 5000, [2, 3])
                sc.queries(0, 1, qs)
                # a second move, of another event, across the first one
                j = (i + 1 + n % 3) % 4
                how2 = MOVES[(MOVES.index(how) + 1 + n % 4) % 5]
                p2 = places[(places.index(p) + 3 + n) % len(places)]
                if j != i:
                    _move(sc, how2, labs[j], p2, durs[j], G[0] - 12000)
                    sc.queries(0, 1, window_queries(None, None, [1, 2]) + window_queries(min(p, p2) - 500, max(p, p2) + 500, [1, 2]))
                out.append(sc.case())
    return out


def multi_boundary_cases():
    """Several storage instances of one back end alive together (peewee: one after the other), the
    same bucket ids created in different orders (so that a bucket id has different row numbers in
    the different files), a different number of events per bucket on the same instants; reads
    interleaved between the instances before and after further writes.  Also one instance whose bucket
    is deleted and created again between reads."""
    out = []
    T = BASE + 5 * SEC - 3000
    G = [T + 1000 * i for i in range(8)]
    orders = [([1, 2], [2, 1]), ([1, 2, 3], [3, 1]), ([1], [2, 1]), ([1, 2, -1, 1], [1, 2]), ([1, 2], [2, 1], [2, 3, 1]),
              ([1, 2, 3, -2, 2], [2, 3])]

    def fill(sc, s, b):
        for k in range(2 + (2 * s + b) % 3):
            sc.insert(s, b, G[(k * 3 + s + b) % 8], [1000, 0, 2500][(k + b) % 3])

    def reads(sc, s, b, lims):
        sc.queries(s, b, window_queries(None, None, lims) + window_queries(G[2] - 500, G[5] + 500, lims)
                   + (window_queries(G[4], None, [1]) if (s + b) % 2 else window_queries(None, G[3] + 1, [2])))

    def setup(sc, s, order):
        for b in order:
            if b < 0:
                sc.delete_bucket(s, -b)
            else:
                sc.create(s, b)
                fill(sc, s, b)

    for order in orders:
        k = len(order)
        for pattern in range(3):
            sc = Script(k, "multi")
            if pattern == 0:            # everything is set up, then reads store by store, bucket by bucket
                for s in range(k):
                    setup(sc, s, order[s])
                for s in range(k):
                    for b in sc.buckets(s):
                        reads(sc, s, b, [1, 2])
            elif pattern == 1:          # the first instance is set up and read before the next one exists
                for s in range(k):
                    setup(sc, s, order[s])
                    for b in sc.buckets(s):
                        reads(sc, s, b, [1])
            else:                       # bucket by bucket across the instances
                for s in reversed(range(k)):
                    setup(sc, s, order[s])
                for b in (1, 2, 3):
                    for s in range(k):
                        if b in sc.buckets(s):
                            reads(sc, s, b, [2])
            # writes on every instance, then the reads again in the opposite order
            for s in range(k):
                for b in sc.buckets(s):
                    sc.insert(s, b, G[7] + 1000 * (s + b), 500)
                    lv = sc.live(s, b)
                    sc.replace(s, b, lv[0], G[(s + b) % 8] + 10_000, 1000)
            for s in reversed(range(k)):
                for b in reversed(sc.buckets(s)):
                    reads(sc, s, b, [1, 3])
            out.append(sc.case())
    # one instance: reads, then a bucket is deleted and created again (new row number), reads again
    for victim in (1, 2):
        sc = Script(1, "multi")
        setup(sc, 0, [1, 2])
        for b in (1, 2):
            reads(sc, 0, b, [1])
        sc.delete_bucket(0, victim)
        sc.create(0, 3)
        fill(sc, 0, 3)
        sc.create(0, victim)
        sc.insert(0, victim, G[1], 3000)
        sc.insert(0, victim, G[6], 0)
        for b in (1, 2, 3):
            reads(sc, 0, b, [1, 2])
        out.append(sc.case())
    return out


# ---------------------------------------------------------------------------
# seeded random scripts

SCRIPT_BASES = [BASE, BASE + SEC - 3000, 4102444790 * SEC, 86400 * SEC, 1234567890 * SEC + 123000]
SCRIPT_DURS = [0, 0, 1, 400, 999, 1000, 1500, 2000, 3000, 5000, SEC, 3 * SEC, 3600 * SEC, DAY - 1, DAY]
JITTER = [0, 0, 1, -1, 500, -500, 999, -999, 1000, -1000, 1001, 2000, -2000, 3000]


def random_script(rng, nstores):
    sc = Script(nstores, "history" if nstores == 1 else "multi")
    base = rng.choice(SCRIPT_BASES)
    grid = [base + k * 1000 for k in range(-4, 9)] + [base + SEC, base + 2 * SEC, base - SEC]

    def when():
        return rng.choice(grid), rng.choice(SCRIPT_DURS)

    def fill(s, b):
        for _ in range(rng.choice([1, 2, 3, 4, 5])):
            sc.insert(s, b, *when())

    def window():
        edges = sorted(sc.edges) or [base]

        def edge():
            return rng.choice(edges) + rng.choice(JITTER)
        a, b = edge(), edge()
        k = rng.random()
        if k < 0.2:
            return min(a, b), None
        if k < 0.4:
            return None, max(a, b)
        if k < 0.5:
            return a, a + rng.choice([0, 1, 999])
        return min(a, b), max(a, b)

    for s in range(nstores):
        order = rng.sample([1, 2, 3], rng.choice([1, 2, 2, 3]))
        for b in order:
            sc.create(s, b)
            fill(s, b)
        if nstores > 1 and rng.random() < 0.5:       # an early read, before the other instances are set up
            b = rng.choice(sc.buckets(s))
            sc.queries(s, b, window_queries(*window(), [1], rng))
    for _ in range(rng.choice([3, 4, 5, 6])):
        for _ in range(rng.choice([1, 2, 3, 4])):
            s = rng.randrange(nstores)
            have = sc.buckets(s)
            r = rng.random()
            if not have or (r < 0.10 and len(have) < 3):
                b = rng.choice([x for x in (1, 2, 3) if x not in have])
                sc.create(s, b)
                fill(s, b)
                continue
            if r < 0.14 and len(have) > 1:
                sc.delete_bucket(s, rng.choice(have))
                continue
            b = rng.choice(have)
            live = sc.live(s, b)
            r = rng.random()
            if r < 0.22 or not live:
                sc.insert(s, b, *when())
            elif r < 0.36:
                items = []
                pool = list(live)
                for _ in range(rng.choice([1, 2, 3])):
                    tgt = None
                    if pool and rng.random() < 0.5:
                        tgt = pool.pop(rng.randrange(len(pool)))
                    items.append((tgt,) + when())
                sc.bulk(s, b, items)
            elif r < 0.66:
                sc.replace(s, b, rng.choice(live), *when(), how=rng.choice(["replace", "replace", "insert-id", "bulk-id"]))
            elif r < 0.80:
                sc.replace_last(s, b, *when())
            elif r < 0.92:
                sc.delete(s, b, rng.choice(live))
            else:
                x = rng.choice(live)
                sc.delete(s, b, x)
                sc.insert(s, b, *when())
        for _ in range(rng.choice([2, 3])):
            s = rng.randrange(nstores)
            have = sc.buckets(s)
            if not have:
                continue
            b = rng.choice(have)
            n = len(sc.live(s, b))
            ws, we = window()
            qs = window_queries(ws, we, rng.sample([-5, 0, 1, 2, max(1, n - 1), n + 1], 2), rng)
            sc.queries(s, b, qs)
            if nstores > 1 and rng.random() < 0.6:   # the same bucket id on another instance, same window
                s2 = rng.choice([x for x in range(nstores) if x != s])
                if b in sc.buckets(s2):
                    sc.queries(s2, b, qs[:3])
    for s in range(nstores):
        for b in sc.buckets(s):
            sc.queries(s, b, window_queries(None, None, [1]))
    return sc.case()


# ---------------------------------------------------------------------------
# running a script on the implementation


def _path(backend, tmpdir, n, k):
    return os.path.join(tmpdir, f"{'s' if backend == 'sqlite' else 'p'}{n}_{k}.db")


def open_store(backend, tmpdir, n, k):
    if backend == "memory":
        from aw_datastore.storages import MemoryStorage
        return MemoryStorage(testing=True)
    if backend == "sqlite":
        from aw_datastore.storages import SqliteStorage
        return SqliteStorage(testing=True, filepath=_path(backend, tmpdir, n, k))
    from aw_datastore.storages import PeeweeStorage
    return PeeweeStorage(testing=True, filepath=_path(backend, tmpdir, n, k))


def close_store(backend, st, tmpdir, n, k):
    try:
        if backend == "sqlite":
            st.conn.close()
        elif backend == "peewee":
            st.db.close()
    finally:
        if backend != "memory":
            for suf in ("", "-wal", "-shm", "-journal"):
                try:
                    os.unlink(_path(backend, tmpdir, n, k) + suf)
                except OSError:
                    pass


def _ev_canon(e):
    return [e.id, us_of_dt(e.timestamp), us_of_td(e.duration), sh.label_of_data(e.data)]


def _parse_ms_text(s):
    """'YYYY-MM-DD HH:MM:SS.mmm+00:00' -> microseconds since the epoch."""
    return us_of_dt(datetime.strptime(s[:23], "%Y-%m-%d %H:%M:%S.%f").replace(tzinfo=timezone.utc))


class StoreRun:
    """One storage instance under a script: the real storage behind a Datastore, the account of
    what its buckets must hold (ghost), the concrete steps for the model."""

    def __init__(self, backend, st):
        from aw_datastore import Datastore
        self.backend = backend
        self.st = st
        self.ds = Datastore(lambda testing: st, testing=True)
        self.ghost = {}         # b -> {label: [id | None, ts, dur, label]}
        self.pending = {}       # b -> (candidate labels, new label) of a replace_last among equally new events
        self.steps = []         # [0, wire op] | [1, b, query]
        self.where = []         # script index of each of them
        self.table = {}         # peewee: (ts, dur) -> end instant SQLite prints
        self.raw = {}           # peewee: the raw rows behind the table, see harness/c03_sqldate.py
        self.dirty = True
        self.epoch = 0
        self.rewrites = {}      # b -> number of writes so far that changed or removed a stored event
        self.broken = None
        self.seen = {}
        orig = st.get_events

        def spy(bucket_id, limit, starttime=None, endtime=None):
            self.seen["edges"] = [None if starttime is None else us_of_dt(starttime),
                                  None if endtime is None else us_of_dt(endtime)]
            return orig(bucket_id, limit, starttime, endtime)
        st.get_events = spy

    # -- writes

    def _id(self, b, h):
        if h is None:
            return []
        e = self.ghost.get(b, {}).get(h[1])
        return None if e is None or e[0] is None else [e[0]]

    def _ev(self, b, e):
        i = self._id(b, e[0])
        return None if i is None else [i, e[1], e[2], e[3]]

    def concretise(self, op):
        """-> wire op (store_hist / ExC02 form), or None when the op has nothing to address."""
        name, b = op[0], op[1]
        if name == "create":
            return None if b in self.ghost else [0, b, META]
        if b not in self.ghost:
            return None
        if name == "delete_bucket":
            return [2, b]
        if name == "insert":
            e = self._ev(b, op[2])
            return None if e is None else [5, b, e]
        if name == "insert_many":
            es = [self._ev(b, e) for e in op[2]]
            return None if any(e is None for e in es) else [6, b, es]
        if name == "replace":
            i = self._id(b, op[2])
            e = self._ev(b, op[3])
            return None if not i or e is None else [7, b, i[0], e]
        if name == "replace_last":
            return None if not self.ghost[b] else [8, b, self._ev(b, op[2])]
        if name == "delete":
            i = self._id(b, op[2])
            return None if not i else [9, b, i[0]]
        raise ValueError(name)

    def _upsert(self, b, i, e):
        g = self.ghost[b]
        for k in [k for k, v in g.items() if v[0] == i]:
            del g[k]
        g[e[3]] = [i, floor_ms(e[1]), e[2], e[3]]

    def account(self, wire, res):
        code, b = wire[0], wire[1]
        if res[0] != 0:
            self.broken = f"{sh.describe(wire)} raised {sh.ERRNAME.get(res[1], 'other')}"
            return
        if code == 0:
            self.ghost[b] = {}
        elif code == 2:
            del self.ghost[b]
            self.pending.pop(b, None)
        elif code == 5:
            # the id the call handed back decides: memory / peewee treat a single insert of an event that
            # carries an id as an update of that event, sqlite's insert_one stores a new row (C02 territory)
            e = wire[2]
            got = res[1][1][0] if res[1][0] == 1 and res[1][1] else None
            rid = got[0][0] if got and got[0] else None
            if e[0] and rid == e[0][0]:
                self._upsert(b, rid, e)
            else:
                self.ghost[b][e[3]] = [rid, floor_ms(e[1]), e[2], e[3]]
        elif code == 6:
            for e in wire[2]:
                if e[0]:
                    self._upsert(b, e[0][0], e)
            for e in wire[2]:
                if not e[0]:
                    self.ghost[b][e[3]] = [None, floor_ms(e[1]), e[2], e[3]]
        elif code == 7:
            self._upsert(b, wire[2], wire[3])
        elif code == 8:
            g, e = self.ghost[b], wire[2]
            m = max(v[1] for v in g.values())
            cands = [k for k, v in g.items() if v[1] == m]
            if len(cands) == 1:
                old = g.pop(cands[0])
                g[e[3]] = [old[0], floor_ms(e[1]), e[2], e[3]]
            else:
                g[e[3]] = [None, floor_ms(e[1]), e[2], e[3]]
                self.pending[b] = (cands, e[3])
        elif code == 9:
            g = self.ghost[b]
            for k in [k for k, v in g.items() if v[0] == wire[2]]:
                del g[k]

    def write(self, op, at):
        wire = self.concretise(op)
        if wire is None:
            return ["w", None, None]
        res = sh.apply_op(self.st, wire)
        self.account(wire, res)
        self.steps.append([0, wire])
        self.where.append(at)
        self.dirty = True
        self.epoch += 1
        if wire[0] in (7, 8, 9) or (wire[0] == 5 and wire[2][0]) or (wire[0] == 6 and any(e[0] for e in wire[2])):
            self.rewrites[wire[1]] = self.rewrites.get(wire[1], 0) + 1
        elif wire[0] in (0, 2):
            self.rewrites.pop(wire[1], None)
        return ["w", wire, res]

    # -- reads

    def learn(self, b, events):
        g = self.ghost.get(b)
        if g is None:
            return
        for e in events:
            s = g.get(e[3])
            if s is not None and s[0] is None:
                s[0] = e[0]
        if b in self.pending:
            cands, x = self.pending[b]
            i = g[x][0] if x in g else None
            if i is not None:
                for c in cands:
                    if c in g and g[c][0] == i:
                        del g[c]
                        break
                del self.pending[b]

    def measure(self):
        # every stored row as the engine holds and prints it (harness/c03_sqldate.py): the raw TEXT / DECIMAL
        # cells and the value of the code's own dt_plus_duration expression on them
        from . import c03_sqldate
        for row in c03_sqldate.raw_rows(self.st.db):
            try:
                self.table[(row[0], row[1])] = _parse_ms_text(row[4])
            except (TypeError, ValueError):
                pass        # not the TEXT shape the model prints: reported by the comparison with Model/SqliteDate.v
            self.raw[(row[0], row[1], row[2], str(row[3]))] = row
        self.dirty = False

    def query(self, b, q, at):
        from aw_datastore.datastore import Bucket
        if self.backend == "peewee" and self.dirty:
            self.measure()
        bucket = Bucket(self.ds, sh.s_of(b))
        self.seen.clear()
        try:
            if q[0] == "get":
                _, limit, ws, we, o1, o2 = q
                r = bucket.get(limit, None if ws is None else aware(ws, o1), None if we is None else aware(we, o2))
                ans = ["ok", [_ev_canon(e) for e in r], self.seen.get("edges")]
                self.learn(b, ans[1])
            elif q[0] == "count":
                _, ws, we, o1, o2 = q
                r = bucket.get_eventcount(None if ws is None else aware(ws, o1), None if we is None else aware(we, o2))
                ans = ["ok", int(r)]
            else:
                _, utc, off = q
                d = dt(utc).astimezone(timezone(timedelta(microseconds=off)))
                bucket.get(1, d, d)
                ans = ["ok", self.seen.get("edges")]
        except Exception as ex:  # noqa: BLE001 -- the error class is the observation
            ans = ["err", type(ex).__name__]
        self.steps.append([1, b, q])
        self.where.append(at)
        g = self.ghost.get(b)
        stored = None if g is None else sorted([list(v) for v in g.values()], key=lambda v: v[3])
        return ["q", ans, stored, self.epoch, self.broken, self.rewrites.get(b, 0)]


def run_impl_script(case, backend, tmpdir, n):
    """-> {"recs": one per script step (["w", wire | None, res] | ["q", answer, stored, epoch, broken, rewrites]),
           "stores": [{"steps": concrete steps, "where": script indices, "table": [[ts, dur, end_ms] ...]} ...]}"""
    k = case["nstores"]
    script = case["script"]
    recs = [None] * len(script)
    runs = [None] * k
    opened = []

    def store(s):
        if runs[s] is None:
            runs[s] = StoreRun(backend, open_store(backend, tmpdir, n, s))
            opened.append(s)
        return runs[s]

    def do(i):
        step = script[i]
        r = store(step[1])
        recs[i] = r.write(step[2], i) if step[0] == "w" else r.query(step[2], step[3], i)
    try:
        if backend == "peewee" and k > 1:
            for s in range(k):
                for i, step in enumerate(script):
                    if step[1] == s:
                        do(i)
                if runs[s] is not None:
                    close_store(backend, runs[s].st, tmpdir, n, s)
                    opened.remove(s)
        else:
            for i in range(len(script)):
                do(i)
        return {"recs": recs,
                "stores": [None if r is None else
                           {"steps": r.steps, "where": r.where, "broken": r.broken,
                            "table": [[t, d, em] for (t, d), em in sorted(r.table.items())],
                            "raw": [r.raw[k] for k in sorted(r.raw)]} for r in runs]}
    finally:
        for s in list(opened):
            try:
                close_store(backend, runs[s].st, tmpdir, n, s)
            except Exception:  # noqa: BLE001
                pass
