"""Replay helper: prints a replay file and re-runs what it names.
usage: python -m harness.replay <replay.json>"""
import json
import subprocess
import sys


def main():
    obj = json.load(open(sys.argv[1]))
    print(json.dumps(obj, indent=1)[:4000])
    cmds = []
    r = obj.get("replay")
    if isinstance(r, dict) and r.get("rerun"):
        cmds.append(r["rerun"])
    if obj.get("rerun"):
        cmds.append(obj["rerun"])
    rc = 0
    for c in cmds[:1]:
        print("re-running:", c)
        rc = subprocess.call(c, shell=True, cwd="/verif")
    return rc


if __name__ == "__main__":
    sys.exit(main())
