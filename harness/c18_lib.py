"""C18 only: sessions of SEVERAL store instances on one database file (round 2), driven at
the storage object or THROUGH THE PUBLIC LAYER Datastore / Bucket (round 3).

harness/c06_lib.py (shared with C06, unchanged) runs one history on one freshly created
store.  A property about "the previous flush" also speaks about the flush done while a store
is OPENED on a file that already has buckets and events: then no bucket-level call has to
precede the first event write, and the only thing that dates "the previous flush" is what
the constructor left behind.  A session here is a history whose steps may contain

    (dt_us, 0, ("reopen", mode, down_us))

= the clock advances dt, the current store goes away (mode "crash": the connection is closed
with whatever is pending, as at process exit; mode "flush": commit() first), the clock
advances down_us, and a new store instance is opened on the same file.  Every instance
("segment") is recorded and judged exactly like a c06_lib history: the shadow database is
seeded with the committed content of the file at opening, tokens count from 0, and the model
trace starts from `init [] t0`.

Round 3.  The property speaks about "an event write issued ...": the write a PROGRAM issues
is a call of the public layer (`ds = Datastore(SqliteStorage, testing, filepath=..,
enable_lazy_commit=..)`, `ds.create_bucket`, `ds[b].insert / replace / replace_last / delete /
get / get_by_id / get_eventcount / metadata`), not a method of the storage object.  A session
therefore has a LAYER:

    "storage"   the calls go to the storage object (as before)
    "api"       the store is opened through Datastore(...) and every call of the history is
                made through Datastore / Bucket; one API call = one call of the history, so
                "issued at t, more than 10 s after the previous flush" is dated at the entry
                of the API call, and "durable before it returns" is judged when the API call
                returns - whatever the wrapper does in between (read first, write twice,
                write in pieces, use another connection)

and two further kinds of step give a history a CONTEXT inside the process:

    (dt_us, 0, ("companion", (call, args...)))   a call on a SECOND store (another file, opened
                through Datastore on first use, never closed before the session ends) that is
                alive beside the store under test and shares its clock: whatever it does is
                no flush of the store under test

Everything the oracles use is taken from the OUTSIDE (fake clock, second connection): the
opening instant t0 is the clock's value when the constructor returned, not the store's
`last_commit` attribute; the store's attributes are read tolerantly (a missing / None /
non-datetime value is recorded as None and shows up as a model disagreement, never as a
harness failure).  Besides the trace-based statements of c06_lib.oracles there is a purely
content-based one (`effect_violations`): the harness knows what every event write has to
leave in the table (a row with the call's own label; the deleted id gone) and looks for
exactly that through the second connection when the call has returned."""
import json
import os
import shutil
from datetime import datetime as _real_datetime
from datetime import timedelta

from . import common
from . import c06_lib as lib

REOPEN = "reopen"
COMPANION = "companion"
LAYERS = ("storage", "api")
REPLAY_CMD = "PYTHONPATH=%s:%s /venv/bin/python -m harness.c18_replay '%s'"
SIG_OLD = "C18:old-write-not-flushed"

# calls made on a Bucket object at the API layer (ds[b].<method>)
BUCKET_METHODS = lib.EVENT_WRITE_CALLS + ("insert_many_bad", "insert_many_badup", "get_event", "get_events", "get_eventcount", "get_metadata")


def _fake_us_or_none(d):
    try:
        if isinstance(d, _real_datetime):
            return lib.fake_us(d)
    except Exception:
        pass
    return None


def _int_or_none(x):
    return x if isinstance(x, int) and not isinstance(x, bool) else None


def _window(w):
    """optional time window of a read (Bucket.get / get_eventcount take starttime, endtime)"""
    if not w:
        return None, None
    return lib.T0 + timedelta(seconds=1, microseconds=500), lib.T0 + timedelta(hours=1, microseconds=999_999)


def _label(n):
    return json.dumps({"n": n})


class Recorder18(lib.Recorder):
    """Recorder whose shadow starts from the committed content of an existing file and whose
    reading of the store's private attributes cannot fail."""

    def __init__(self, storage, path, clock):
        super().__init__(storage, path, clock)
        # same pages as the file as the observer sees it (rows, rowids, sqlite_sequence)
        self.c2.backup(self.shadow.db)
        d0 = lib.dump(self.shadow.db)
        self.shadow.digests = [d0]
        self.shadow.index = {d0: [0]}
        self.base = d0

    def observe(self, kind):
        st = self.st
        self.obs.append({"i": len(self.micro), "kind": kind, "digest": lib.dump(self.c2),
                         "n": _int_or_none(getattr(st, "num_uncommitted_statements", None)),
                         "last": _fake_us_or_none(getattr(st, "last_commit", None)),
                         "issued": len(self.issue_time), "call": len(self.calls), "t": self.clock.now})


class Runner18(lib.Runner):
    """One store instance of a session (c06_lib.Runner interface: st, rec, t0, lazy, call())."""

    recorder_class = Recorder18       # harness/c18_fault.py: a recorder that keeps commit steps that raise

    def wrap_connection(self):
        """hook (harness/c18_fault.py puts a delegating connection that can raise in front of the engine)"""

    def __init__(self, session, lazy):
        self.session = session
        self.layer = session.layer
        self.sq, self.Event, self.lazy = session.sq, session.Event, lazy
        self.dir, self.path, self.clock = session.dir, session.path, session.clock
        self.existing = os.path.exists(self.path)
        self.clock.tick = 0
        cls = lib.instrumented_class(self.sq)
        if self.layer == "api":
            # the way a program opens the store
            self.ds = session.Datastore(cls, testing=True, filepath=self.path, enable_lazy_commit=lazy)
            self.st = self.ds.storage_strategy
        else:
            self.ds = None
            self.st = cls(testing=True, filepath=self.path, enable_lazy_commit=lazy)
        # a lock held by somebody else (there is nobody else unless a wrapper opens a connection of its own)
        # is reported after 50 ms instead of sqlite3's default 5 s of real time
        try:
            self.st.conn.execute("PRAGMA busy_timeout = 50")
        except Exception:
            pass
        # the flush done while opening, dated from the outside
        self.t0 = self.clock.now
        self.t0_store = _fake_us_or_none(getattr(self.st, "last_commit", None))
        self.wrap_connection()
        self.rec = self.recorder_class(self.st, self.path, self.clock)
        self.steps = []
        self.own_ok = True
        self.cached = set()       # the harness's own account of Datastore.bucket_instances

    def fresh(self):                      # event labels stay unique over the whole file
        self.session.counter += 1
        return self.session.counter

    # -- what a call has to leave in the table (decided BEFORE the call, from the shadow)
    def plan(self, spec):
        """-> (arguments, effect): effect = None or {"present": [labels], "absent": [ids],
        "first": label | None (the row of the first upsert of a list; kept for replays, the statement
        is about every row of the call since the call-level reading of the property)}"""
        E, name = self.Event, spec[0]
        if name not in lib.EVENT_WRITE_CALLS and name not in ("insert_many_bad", "insert_many_badup"):
            return None, None
        b = spec[1]
        have = b in self.bucket_ids()
        ids = set(self.event_ids(b)) if have else set()
        if name == "insert_one":
            n = self.fresh()
            return lib._ev(E, n), ({"present": [n], "absent": [], "first": None} if have else None)
        if name == "insert_many_badup":
            evs = [E(id=i, timestamp=lib.T0, duration=timedelta(days=200_000_000), data={"n": self.fresh()})
                   if k == spec[3] else lib._ev(E, self.fresh(), eid=i) for k, i in enumerate(spec[2])]
            return evs + [lib._ev(E, self.fresh()) for _ in range(spec[4])], None
        if name in ("insert_many", "insert_many_bad"):
            ups = [(i, self.fresh()) for i in spec[2]]
            rows = [self.fresh() for _ in range(spec[3])]
            evs = [lib._ev(E, n, eid=i) for i, n in ups] + [lib._ev(E, n) for n in rows]
            if name == "insert_many_bad":
                evs.append(E(timestamp=lib.T0, duration=timedelta(days=200_000_000), data={"n": self.fresh()}))
                return evs, None
            last = {}
            for i, n in ups:
                if i in ids:
                    last[i] = n
            present = sorted(last.values()) + (rows if have else [])
            first = None
            if ups and ups[0][0] in ids and last.get(ups[0][0]) == ups[0][1]:
                first = ups[0][1]
            return evs, {"present": present, "absent": [], "first": first, "blocks": 1, "statements": len(ups) + 1}
        if name == "replace":
            n = self.fresh()
            return lib._ev(E, n), ({"present": [n], "absent": [], "first": None} if spec[2] in ids else None)
        if name == "replace_last":
            n = self.fresh()
            return lib._ev(E, n), ({"present": [n], "absent": [], "first": None} if ids else None)
        if name == "delete":
            return None, ({"present": [], "absent": [spec[2]], "first": None} if spec[2] in ids else None)
        return None, None

    def seen(self, eff):
        """what the second connection shows of the planned effect, right after the call"""
        c2 = self.rec.c2
        missing, still = [], []
        labels = list(eff["present"])
        for k in range(0, len(labels), 400):
            part = labels[k:k + 400]
            got = {r[0] for r in c2.execute("SELECT datastr FROM events WHERE datastr IN (%s)" % ",".join("?" * len(part)),
                                            [_label(n) for n in part])}
            missing += [n for n in part if _label(n) not in got]
        if eff["absent"]:
            still = [r[0] for r in c2.execute("SELECT id FROM events WHERE id IN (%s)" % ",".join("?" * len(eff["absent"])),
                                              list(eff["absent"]))]
        return {"missing": missing, "still": still, "n_expected": len(labels) + len(eff["absent"]),
                "first_missing": eff.get("first") is not None and eff["first"] in missing,
                "blocks": eff.get("blocks", 1)}

    # -- the two ways of issuing a call
    def _storage_call(self, spec, arg):
        st, name = self.st, spec[0]
        if name == "create_bucket":
            st.create_bucket(spec[1], "t", "c", "h", lib.T0.isoformat(), None, None)
        elif name == "update_bucket":
            st.update_bucket(spec[1], **({} if spec[2] is None else {"data": {"v": spec[2]}}))
        elif name == "delete_bucket":
            st.delete_bucket(spec[1])
        elif name == "insert_one":
            st.insert_one(spec[1], arg)
        elif name in ("insert_many", "insert_many_bad", "insert_many_badup"):
            st.insert_many(spec[1], arg)
        elif name == "replace":
            st.replace(spec[1], spec[2], arg)
        elif name == "replace_last":
            st.replace_last(spec[1], arg)
        elif name == "delete":
            st.delete(spec[1], spec[2])
        elif name == "get_event":
            st.get_event(spec[1], spec[2])
        elif name == "get_events":
            st.get_events(spec[1], spec[2], *_window(spec[3] if len(spec) > 3 else None))
        elif name == "get_eventcount":
            st.get_eventcount(spec[1], *_window(spec[2] if len(spec) > 2 else None))
        elif name == "buckets":
            st.buckets()
        elif name == "get_metadata":
            st.get_metadata(spec[1])
        else:
            raise RuntimeError("unknown call " + name)

    def _api_call(self, spec, arg):
        ds, name = self.ds, spec[0]
        if name == "create_bucket":
            ds.create_bucket(spec[1], "t", "c", "h", created=lib.T0, name=None, data=None)
        elif name == "update_bucket":
            ds.update_bucket(spec[1], **({} if spec[2] is None else {"data": {"v": spec[2]}}))
        elif name == "delete_bucket":
            ds.delete_bucket(spec[1])
        elif name == "buckets":
            ds.buckets()
        elif name in BUCKET_METHODS:
            bk = ds[spec[1]]
            if name in ("insert_one", "insert_many", "insert_many_bad", "insert_many_badup"):
                bk.insert(arg)                       # an Event or a list of Events
            elif name == "replace":
                bk.replace(spec[2], arg)
            elif name == "replace_last":
                bk.replace_last(arg)
            elif name == "delete":
                bk.delete(spec[2])
            elif name == "get_event":
                bk.get_by_id(spec[2])
            elif name == "get_events":
                bk.get(spec[2], *_window(spec[3] if len(spec) > 3 else None))
            elif name == "get_eventcount":
                bk.get_eventcount(*_window(spec[2] if len(spec) > 2 else None))
            elif name == "get_metadata":
                bk.metadata()
        else:
            raise RuntimeError("unknown call " + name)

    def call(self, dt, tick, spec):
        """spec: tuple (name, *args) with concrete arguments; returns the exception class name or None"""
        self.clock.now += dt
        self.clock.tick = tick
        arg, eff = self.plan(spec)
        self.rec.begin_call(spec)
        out = None
        try:
            if self.layer == "api":
                self._api_call(spec, arg)
            else:
                self._storage_call(spec, arg)
        except Exception as ex:
            out = type(ex).__name__
        self.clock.tick = 0
        self.rec.end_call(out)
        c = self.rec.calls[-1]
        c["layer"] = self.layer
        if eff is not None and out is None:
            c["effect"] = self.seen(eff)
        return out

    def shut(self, mode):
        self.own_ok = self.rec.close()
        try:
            if mode == "flush":
                self.st.commit()
            self.st.conn.close()
        except Exception:
            pass
        return self.own_ok


def expectation18(r, spec):
    """c06_lib.expectation for the layer of the runner; at the API layer also which lookup
    `ds[b]` does.  -> (expect, raises, api): api = None (storage layer) or the wire form of the
    Model/CommitApi.v `api` constructor without its op (filled in by model_case)."""
    exp, raises = lib.expectation(r, spec)
    if r.layer != "api":
        return exp, raises, None
    name = spec[0]
    have = set(r.bucket_ids())
    if name == "create_bucket":
        if exp == "rejected":
            return exp, raises, ("ds",)
        return exp, raises, ("create", spec[1] in r.cached)
    if name in ("update_bucket", "delete_bucket", "buckets"):
        return exp, raises, ("ds",)
    b = spec[1]
    cached = b in r.cached
    if b not in have:
        # ds[b]: KeyError after the bucket listing, the storage method is never reached
        return "api-no-bucket", True, ("bucket", cached)
    if name in ("insert_many_bad", "insert_many_badup"):
        # Bucket.insert adds timestamp + duration of every event before it calls the storage
        return "api-wrapper-raises", True, ("bucket", cached)
    return exp, raises, ("bucket", cached)


def model_case(c):
    """wire case of one recorded call: the script the model gives it"""
    api = c.get("api")
    exp = c.get("expect")
    if api is None:
        return lib.wire_script(lib.model_op(c))
    if api[0] == "create":
        return common.sx([5, [1, 0, api[1]]])
    op = [13] if exp in ("api-no-bucket", "api-wrapper-raises") else lib.model_op(c)
    if api[0] == "ds":
        return common.sx([5, [0, op]])
    return common.sx([5, [2, api[1], op]])


class Session:
    runner_class = None               # default Runner18 (harness/c18_fault.py: RunnerF)

    def __init__(self, sq, Event, lazy, layer="storage"):
        if layer not in LAYERS:
            raise ValueError("layer " + repr(layer))
        self.sq, self.Event, self.lazy, self.layer = sq, Event, lazy, layer
        from aw_datastore import Datastore
        self.Datastore = Datastore
        self.dir = lib.scratch_dir()
        self.path = os.path.join(self.dir, "h.db")
        self.clock = lib.Clock()
        self.real_dt = lib.install_fake_datetime(sq, self.clock)
        self.counter = 0
        self.segments = []
        self.steps = []
        self.cur = None
        self.companion = None
        self.companion_calls = 0

    # the generator's view (as c06_lib.Runner)
    def event_ids(self, b):
        return self.cur.event_ids(b)

    def bucket_ids(self):
        return self.cur.bucket_ids()

    def open(self):
        self.cur = (self.runner_class or Runner18)(self, self.lazy)
        self.cur.index = len(self.segments)
        self.segments.append(self.cur)

    def companion_call(self, spec):
        """A call on the second store of the process (another file; plain class, not recorded).
        Exceptions are the companion's business."""
        if self.companion is None:
            self.companion = self.Datastore(self.sq.SqliteStorage, testing=True,
                                            filepath=os.path.join(self.dir, "companion.db"),
                                            enable_lazy_commit=self.lazy)
            self.companion_n = 0
        ds, E = self.companion, self.Event
        self.companion_calls += 1
        name = spec[0]
        try:
            if name == "create_bucket":
                ds.create_bucket(spec[1], "t", "c", "h", created=lib.T0)
            elif name == "delete_bucket":
                ds.delete_bucket(spec[1])
            elif name == "insert_one":
                self.companion_n += 1
                ds[spec[1]].insert(lib._ev(E, self.companion_n))
            elif name == "insert_many":
                evs = []
                for _ in range(spec[2]):
                    self.companion_n += 1
                    evs.append(lib._ev(E, self.companion_n))
                ds[spec[1]].insert(evs)
            elif name == "replace_last":
                self.companion_n += 1
                ds[spec[1]].replace_last(lib._ev(E, self.companion_n))
            elif name == "get_events":
                ds[spec[1]].get(spec[2])
            elif name == "get_eventcount":
                ds[spec[1]].get_eventcount()
            elif name == "commit":
                ds.storage_strategy.commit()
            else:
                raise RuntimeError("unknown companion call " + name)
        except RuntimeError:
            raise
        except Exception:
            pass

    def step(self, dt, tick, spec):
        spec = tuple(tuple(x) if isinstance(x, list) else x for x in spec)
        self.steps.append([dt, tick, list(spec)])
        if spec[0] == REOPEN:
            mode = spec[1] if len(spec) > 1 else "crash"
            down = spec[2] if len(spec) > 2 else 0
            self.clock.now += dt
            self.cur.shut(mode)
            self.clock.now += down
            self.open()
            return
        if spec[0] == COMPANION:
            self.clock.now += dt
            self.clock.tick = 0
            self.companion_call(spec[1])
            return
        r = self.cur
        exp, raises, api = expectation18(r, spec)
        r.steps.append([dt, tick, list(spec)])
        r.call(dt, tick, spec)
        c = r.rec.calls[-1]
        c["expect"], c["raises"], c["api"] = exp, raises, api
        if api is not None:
            name = spec[0]
            if name == "delete_bucket":
                r.cached.discard(spec[1])
            elif (name == "create_bucket" and exp != "rejected") or (name in BUCKET_METHODS and exp != "api-no-bucket"):
                r.cached.add(spec[1])

    def finish(self):
        try:
            if self.cur is not None and self.cur.rec.clock.hook is not None:
                self.cur.shut("crash")
            if self.companion is not None:
                try:
                    self.companion.storage_strategy.conn.close()
                except Exception:
                    pass
        finally:
            self.sq.datetime = self.real_dt
            shutil.rmtree(self.dir, ignore_errors=True)


def run_session(sq, Event, lazy, history, layer="storage"):
    """history: list of steps or generator function taking the Session.  -> finished Session"""
    s = Session(sq, Event, lazy, layer)
    try:
        s.open()
        for dt, tick, spec in (history(s) if callable(history) else history):
            s.step(dt, tick, spec)
    finally:
        s.finish()
    return s


def effect_violations(r):
    """The property statement on table CONTENT alone (call after lib.oracles(r), which dates
    the flushes): a successful event write issued more than 10 s after the last instant at
    which nothing was pending has left, when it returns, what it had to leave - visible to
    the second connection.  Independent of the statement trace, so it also speaks about a
    write that reaches the file by another route."""
    if not r.lazy:
        return []
    rec, out = r.rec, []
    F, oi = r.t0, 0
    for ci, c in enumerate(rec.calls):
        F_start = F
        while oi < len(rec.obs) and rec.obs[oi]["call"] <= ci:
            o = rec.obs[oi]
            oi += 1
            if o.get("J") and o["issued"] in o["J"]:
                F = max(F, o["t"])
        eff = c.get("effect")
        if not eff or c["outcome"] is not None or c["t_start"] - F_start <= lib.MAX_AGE:
            continue
        age = (c["t_start"] - F_start) / lib.S
        # every event write is ONE call, whatever the number of statements it takes (a list with
        # id-carrying events: one UPDATE each + the bulk INSERT): all it had to leave must be there
        if eff["missing"] or eff["still"]:
            what = []
            if eff["missing"]:
                what.append(f"{len(eff['missing'])} of its {eff['n_expected']} rows (labels {eff['missing'][:3]}) are not in the file")
            if eff["still"]:
                what.append(f"the deleted ids {eff['still'][:3]} are still in the file")
            out.append((SIG_OLD, f"call #{ci} {c['spec']} ({c.get('layer')} layer) issued {age:.6f} s after the last instant at "
                                 f"which nothing was pending has returned, and through a second connection " + "; ".join(what)))
    return out


def c18_violations(s):
    """The C18 statements of c06_lib.oracles (statement trace) and effect_violations (table
    content) on every store instance of the session; the opening of an instance counts as a
    flush at the instant the constructor returned."""
    out = []
    for r in s.segments:
        v = list(lib.oracles(r)[1])
        have = {sig for sig, _ in v}
        v += [x for x in effect_violations(r) if x[0] not in have]
        for sig, desc in v:
            where = f"store instance #{r.index}" + (" (opened on the existing file)" if r.existing else "")
            if s.layer == "api":
                where += " opened and driven through Datastore/Bucket"
            out.append((sig, f"{where}, opened at t={r.t0 / lib.S:.6f} s: {desc}"))
    return out


def replay_obj(s, extra=None):
    case = {"lazy": s.lazy, "layer": s.layer, "steps": s.steps}
    o = {"history": case, "rerun": REPLAY_CMD % (common.REPO, common.VERIF, json.dumps(case))}
    if extra:
        o.update(extra)
    return o


def shrink_session(sq, Event, lazy, steps, signature, layer="storage"):
    def still(cand):
        try:
            s = run_session(sq, Event, lazy, cand, layer)
        except Exception:
            return False
        return any(sig == signature for sig, _ in c18_violations(s))
    if len(steps) > 400:
        return steps
    return common.shrink_list(steps, still, max_steps=150)


def run_sessions(ck, sq, Event, histories):
    """Runs the sessions, evaluates the C18 oracle, queues the model cases.
    histories: (name, lazy, history[, layer]).
    -> (pending, wire): pending = list of (session, segment runner, trace index, script indexes)"""
    pending, wire = [], []
    seen = ck.__dict__.setdefault("_reported_signatures", set())
    import time
    started, budget = time.time(), (420 if ck.tier == "quick" else 7200)
    for h4 in histories:
        name, lazy, h = h4[:3]
        if time.time() - started > budget:
            ck.disagreement("harness", f"the histories take more than {budget} s of real time (stopped before {name}; "
                                       f"{len(histories)} histories in all): calls that wait on a lock?", {"history": name})
            break
        layer = h4[3] if len(h4) > 3 else "storage"
        try:
            s = run_session(sq, Event, lazy, h, layer)
        except Exception as ex:
            ck.disagreement("harness", f"history {name} ({layer} layer) could not be run: {type(ex).__name__}: {ex}",
                            {"history": name, "layer": layer})
            continue
        s.name = name
        for sig, desc in c18_violations(s):
            key = (sig, layer)
            if key in seen:
                ck.count("further-failing-histories:" + sig)
                continue
            seen.add(key)
            steps = shrink_session(sq, Event, lazy, s.steps, sig, layer)
            ss = run_session(sq, Event, lazy, steps, layer)
            vv = [d for g, d in c18_violations(ss) if g == sig]
            ck.failing_input(sig, f"{name}: {vv[0] if vv else desc}", replay_obj(ss, {"found_in": name}))
        for r in s.segments:
            r.name = f"{name}[instance {r.index}]"
            i_trace = len(wire)
            wire.append(lib.wire_trace(lazy, r.t0, r.rec.micro))
            i_scripts = []
            for c in r.rec.calls:
                i_scripts.append(len(wire))
                wire.append(model_case(c))
                ck.count(f"call:{layer}:" + c["spec"][0])
                if c.get("expect"):
                    ck.count("call-variant:" + c["expect"])
                if c.get("api") and c["api"][0] == "bucket":
                    ck.count("api:bucket-object-" + ("reused" if c["api"][1] else "created-by-the-call"))
                if c.get("effect"):
                    ck.count("event-writes-checked-by-content")
            pending.append((s, r, i_trace, i_scripts))
            ck.count("store-instances")
            ck.count("store-instances:" + layer)
            if r.existing:
                ck.count("store-instances-opened-on-existing-file")
                first = next((c for c in r.rec.calls if c["end_token"] > c["first_token"]), None)
                if first is not None and first["spec"][0] in lib.EVENT_WRITE_CALLS:
                    ck.count("reopened:first-write-is-an-event-write")
                    if first["t_start"] - r.t0 > lib.MAX_AGE:
                        ck.count("reopened:first-event-write-older-than-10s")
            ck.count("micro-steps", len(r.rec.micro))
            ck.count("crash-points-observed", len(r.rec.obs))
            ck.count("write-statements", len(r.rec.issue_time))
            ck.count("rejected-statements", r.rec.failed_stmts)
        ck.count("histories")
        ck.count("histories:" + layer)
        if s.companion_calls:
            ck.count("histories-with-a-second-store-alive")
            ck.count("calls-on-the-second-store", s.companion_calls)
        gaps = [st[0] for st in s.steps]
        if any(g >= 86400 * lib.S for g in gaps):
            ck.count("histories-with-a-gap-of-days")
    return pending, wire


def compare_with_model(ck, prop, pending, wire):
    if not pending:
        return
    out = common.run_driver(prop, wire)
    by_session = {}
    for s, r, i_trace, i_scripts in pending:
        acc = by_session.setdefault(id(s), {"s": s, "br": {}, "bad": []})
        if out[i_trace] == [-999] or any(out[i] == [-999] for i in i_scripts):
            ck.disagreement("commit-model", f"{r.name}: the driver could not decode the case", replay_obj(s))
            continue
        bad = lib.compare_model(r, out[i_trace], [out[i] for i in i_scripts])
        if r.t0_store != r.t0:
            bad.insert(0, f"after opening: last_commit model {r.t0} (the instant the constructor returned) "
                          f"implementation {r.t0_store}")
        for k, v in lib.model_branches(r, out[i_trace]).items():
            acc["br"][k] = acc["br"].get(k, 0) + v
            ck.count(k, v)
        for b in bad[:3]:
            ck.disagreement("commit-model", f"{r.name} ({s.layer} layer): {b}",
                            replay_obj(s, {"disagreement": b, "instance": r.index}))
    for acc in by_session.values():
        s, br = acc["s"], acc["br"]
        canon = [s.lazy, s.layer, [(dt, tick, sp[0], len(sp[2]) if sp[0] == "insert_many" else 0,
                                    sp[3] if sp[0] == "insert_many" else (sp[1:] if sp[0] in (REOPEN, COMPANION) else 0))
                                   for dt, tick, sp in s.steps]]
        nontrivial = (br.get("cc:none", 0) > 0 and (br.get("cc:count", 0) + br.get("cc:age", 0) + br.get("cc:count+age", 0)) > 0)
        ck.note_case(canon, nontrivial=nontrivial)
        if len(ck.samples) < 4 and nontrivial and len(s.steps) < 70:
            ck.sample({"history": s.name, "lazy": s.lazy, "layer": s.layer, "calls": len(s.steps),
                       "store_instances": len(s.segments),
                       "write_statements": sum(len(r.rec.issue_time) for r in s.segments),
                       "crash_points_observed": sum(len(r.rec.obs) for r in s.segments),
                       "cond_commit_branches": br, "first_steps": s.steps[:6]})


# ---------------------------------------------------------------------------
# writes larger than any plausible chunk constant (black box: fake clock + second connection)

BIG_N = 10_001


def big_writes_run(sq, Event, layer, n=BIG_N):
    """One store, one bucket; every step is (gap before the call, call, what the second
    connection must show when it has returned).  -> list of (signature, description)"""
    import sqlite3
    from aw_datastore import Datastore
    d = lib.scratch_dir()
    clock = lib.Clock()
    real = lib.install_fake_datetime(sq, clock)
    out = []
    try:
        path = os.path.join(d, "big.db")
        if layer == "api":
            ds = Datastore(sq.SqliteStorage, testing=True, filepath=path, enable_lazy_commit=True)
            st = ds.storage_strategy
            ds.create_bucket("b", "t", "c", "h", created=lib.T0)
            ins_many = lambda evs: ds["b"].insert(evs)
            ins_one = lambda e: ds["b"].insert(e)
            rep_last = lambda e: ds["b"].replace_last(e)
            count = lambda: ds["b"].get_eventcount()
        else:
            st = sq.SqliteStorage(testing=True, filepath=path, enable_lazy_commit=True)
            st.create_bucket("b", "t", "c", "h", lib.T0.isoformat(), None, None)
            ins_many = lambda evs: st.insert_many("b", evs)
            ins_one = lambda e: st.insert_one("b", e)
            rep_last = lambda e: st.replace_last("b", e)
            count = lambda: st.get_eventcount("b")
        c2 = sqlite3.connect(path, isolation_level=None)
        k = [0]

        def evs(m, ids=()):
            r = []
            for i in ids:
                k[0] += 1
                r.append(lib._ev(Event, k[0], eid=i))
            for _ in range(m):
                k[0] += 1
                r.append(lib._ev(Event, k[0]))
            return r

        def visible(lo, hi):
            """how many of the labels lo+1..hi the second connection sees"""
            return c2.execute("SELECT count(*) FROM events WHERE cast(substr(datastr, 7) AS INTEGER) BETWEEN ? AND ?",
                              [lo + 1, hi]).fetchone()[0]

        ins_many(evs(3))
        count()                                               # a read: the previous flush
        steps = [(11 * lib.S, "insert of a list of %d events" % n, lambda: ins_many(evs(n)), n),
                 (4 * lib.S, "insert of one event (young: may stay buffered)", lambda: ins_one(evs(1)[0]), None),
                 (10 * lib.S + 1, "replace_last", lambda: rep_last(evs(1)[0]), 1),
                 (DAY_US + 3 * lib.S, "insert of a list of %d events" % (n + 4999), lambda: ins_many(evs(n + 4999)), n + 4999),
                 (10_600_000, "insert of a list of 2 events with ids and %d without" % n, lambda: ins_many(evs(n, (2, 3))), n + 2),
                 (3 * lib.S, "insert of one event (young: may stay buffered)", lambda: ins_one(evs(1)[0]), None),
                 (11 * lib.S, "insert of a list of 3 events with ids and none without", lambda: ins_many(evs(0, (1, 2, 3))), 3)]
        for gap, what, thunk, must in steps:
            clock.now += gap
            lo = k[0]
            thunk()
            hi = k[0]
            if must is None:
                continue
            got = visible(lo, lo + must) if must < hi - lo else visible(lo, hi)
            if got != must:
                out.append((SIG_OLD, f"{layer} layer, bucket with {lo} events written: {what}, issued {gap / lib.S:.6f} s after the "
                                     f"previous flush, has returned and a second connection sees {got} of the {must} rows "
                                     f"that have to be durable"))
        c2.close()
        st.conn.close()
    finally:
        sq.datetime = real
        shutil.rmtree(d, ignore_errors=True)
    return out


DAY_US = 86400 * lib.S


def big_writes(ck, sq, Event, n=BIG_N):
    for layer in LAYERS:
        try:
            v = big_writes_run(sq, Event, layer, n)
        except Exception as ex:
            ck.disagreement("harness", f"large-write run ({layer} layer) could not be run: {type(ex).__name__}: {ex}",
                            {"layer": layer, "n": n})
            continue
        ck.evaluations += 5
        ck.count("large-writes:" + layer, 3)
        ck.coverage.setdefault("largest_single_write", {})[layer] = n + 4999
        for sig, desc in v[:1]:
            ck.failing_input(sig, desc, {"big": {"layer": layer, "n": n},
                                         "rerun": REPLAY_CMD % (common.REPO, common.VERIF, json.dumps({"big": {"layer": layer, "n": n}}))})
