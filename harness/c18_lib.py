"""C18 only (round 2): sessions of SEVERAL store instances on one database file.

harness/c06_lib.py (shared with C06, unchanged) runs one history on one freshly created
store.  A property about "the previous flush" also speaks about the flush done while a store
is OPENED on a file that already has buckets and events: then no bucket-level call has to
precede the first event write, and the only thing that dates "the previous flush" is what
the constructor left behind.  A session here is a history whose steps may contain

    (dt_us, 0, ("reopen", mode, down_us))

= the clock advances dt, the current store goes away (mode "crash": the connection is closed
with whatever is pending, as at process exit; mode "flush": commit() first), the clock
advances down_us, and a new store instance is opened on the same file.  Every instance
("segment") is recorded and judged exactly like a c06_lib history: the shadow database is
seeded with the committed content of the file at opening, tokens count from 0, and the model
trace starts from `init [] t0`.

Everything the oracles use is taken from the OUTSIDE (fake clock, second connection): the
opening instant t0 is the clock's value when the constructor returned, not the store's
`last_commit` attribute; the store's attributes are read tolerantly (a missing / None /
non-datetime value is recorded as None and shows up as a model disagreement, never as a
harness failure)."""
import json
import os
import shutil
from datetime import datetime as _real_datetime

from . import common
from . import c06_lib as lib

REOPEN = "reopen"
REPLAY_CMD = "PYTHONPATH=%s:%s /venv/bin/python -m harness.c18_replay '%s'"


def _fake_us_or_none(d):
    try:
        if isinstance(d, _real_datetime):
            return lib.fake_us(d)
    except Exception:
        pass
    return None


def _int_or_none(x):
    return x if isinstance(x, int) and not isinstance(x, bool) else None


class Recorder18(lib.Recorder):
    """Recorder whose shadow starts from the committed content of an existing file and whose
    reading of the store's private attributes cannot fail."""

    def __init__(self, storage, path, clock):
        super().__init__(storage, path, clock)
        # same pages as the file as the observer sees it (rows, rowids, sqlite_sequence)
        self.c2.backup(self.shadow.db)
        d0 = lib.dump(self.shadow.db)
        self.shadow.digests = [d0]
        self.shadow.index = {d0: [0]}
        self.base = d0

    def observe(self, kind):
        st = self.st
        self.obs.append({"i": len(self.micro), "kind": kind, "digest": lib.dump(self.c2),
                         "n": _int_or_none(getattr(st, "num_uncommitted_statements", None)),
                         "last": _fake_us_or_none(getattr(st, "last_commit", None)),
                         "issued": len(self.issue_time), "call": len(self.calls), "t": self.clock.now})


class Runner18(lib.Runner):
    """One store instance of a session (c06_lib.Runner interface: st, rec, t0, lazy, call())."""

    def __init__(self, session, lazy):
        self.session = session
        self.sq, self.Event, self.lazy = session.sq, session.Event, lazy
        self.dir, self.path, self.clock = session.dir, session.path, session.clock
        self.existing = os.path.exists(self.path)
        self.clock.tick = 0
        self.st = lib.instrumented_class(self.sq)(testing=True, filepath=self.path, enable_lazy_commit=lazy)
        # the flush done while opening, dated from the outside
        self.t0 = self.clock.now
        self.t0_store = _fake_us_or_none(getattr(self.st, "last_commit", None))
        self.rec = Recorder18(self.st, self.path, self.clock)
        self.steps = []
        self.own_ok = True

    def fresh(self):                      # event labels stay unique over the whole file
        self.session.counter += 1
        return self.session.counter

    def shut(self, mode):
        self.own_ok = self.rec.close()
        try:
            if mode == "flush":
                self.st.commit()
            self.st.conn.close()
        except Exception:
            pass
        return self.own_ok


class Session:
    def __init__(self, sq, Event, lazy):
        self.sq, self.Event, self.lazy = sq, Event, lazy
        self.dir = lib.scratch_dir()
        self.path = os.path.join(self.dir, "h.db")
        self.clock = lib.Clock()
        self.real_dt = lib.install_fake_datetime(sq, self.clock)
        self.counter = 0
        self.segments = []
        self.steps = []
        self.cur = None

    # the generator's view (as c06_lib.Runner)
    def event_ids(self, b):
        return self.cur.event_ids(b)

    def bucket_ids(self):
        return self.cur.bucket_ids()

    def open(self):
        self.cur = Runner18(self, self.lazy)
        self.cur.index = len(self.segments)
        self.segments.append(self.cur)

    def step(self, dt, tick, spec):
        spec = tuple(tuple(x) if isinstance(x, list) else x for x in spec)
        self.steps.append([dt, tick, list(spec)])
        if spec[0] == REOPEN:
            mode = spec[1] if len(spec) > 1 else "crash"
            down = spec[2] if len(spec) > 2 else 0
            self.clock.now += dt
            self.cur.shut(mode)
            self.clock.now += down
            self.open()
            return
        r = self.cur
        exp, raises = lib.expectation(r, spec)
        r.steps.append([dt, tick, list(spec)])
        r.call(dt, tick, spec)
        c = r.rec.calls[-1]
        c["expect"], c["raises"] = exp, raises

    def finish(self):
        try:
            if self.cur is not None and self.cur.rec.clock.hook is not None:
                self.cur.shut("crash")
        finally:
            self.sq.datetime = self.real_dt
            shutil.rmtree(self.dir, ignore_errors=True)


def run_session(sq, Event, lazy, history):
    """history: list of steps or generator function taking the Session.  -> finished Session"""
    s = Session(sq, Event, lazy)
    try:
        s.open()
        for dt, tick, spec in (history(s) if callable(history) else history):
            s.step(dt, tick, spec)
    finally:
        s.finish()
    return s


def c18_violations(s):
    """The C18 statements of c06_lib.oracles on every store instance of the session; the
    opening of an instance counts as a flush at the instant the constructor returned."""
    out = []
    for r in s.segments:
        for sig, desc in lib.oracles(r)[1]:
            where = f"store instance #{r.index}" + (" (opened on the existing file)" if r.existing else "")
            out.append((sig, f"{where}, opened at t={r.t0 / lib.S:.6f} s: {desc}"))
    return out


def replay_obj(s, extra=None):
    case = {"lazy": s.lazy, "steps": s.steps}
    o = {"history": case, "rerun": REPLAY_CMD % (common.REPO, common.VERIF, json.dumps(case))}
    if extra:
        o.update(extra)
    return o


def shrink_session(sq, Event, lazy, steps, signature):
    def still(cand):
        try:
            s = run_session(sq, Event, lazy, cand)
        except Exception:
            return False
        return any(sig == signature for sig, _ in c18_violations(s))
    if len(steps) > 400:
        return steps
    return common.shrink_list(steps, still, max_steps=150)


def run_sessions(ck, sq, Event, histories):
    """Runs the sessions, evaluates the C18 oracle, queues the model cases.
    -> (pending, wire): pending = list of (session, segment runner, trace index, script indexes)"""
    pending, wire = [], []
    seen = ck.__dict__.setdefault("_reported_signatures", set())
    for name, lazy, h in histories:
        try:
            s = run_session(sq, Event, lazy, h)
        except Exception as ex:
            ck.disagreement("harness", f"history {name} could not be run: {type(ex).__name__}: {ex}", {"history": name})
            continue
        s.name = name
        for sig, desc in c18_violations(s):
            if sig in seen:
                ck.count("further-failing-histories:" + sig)
                continue
            seen.add(sig)
            steps = shrink_session(sq, Event, lazy, s.steps, sig)
            ss = run_session(sq, Event, lazy, steps)
            vv = [d for g, d in c18_violations(ss) if g == sig]
            ck.failing_input(sig, f"{name}: {vv[0] if vv else desc}", replay_obj(ss, {"found_in": name}))
        for r in s.segments:
            r.name = f"{name}[instance {r.index}]"
            i_trace = len(wire)
            wire.append(lib.wire_trace(lazy, r.t0, r.rec.micro))
            i_scripts = []
            for c in r.rec.calls:
                i_scripts.append(len(wire))
                wire.append(lib.wire_script(lib.model_op(c)))
                ck.count("call:" + c["spec"][0])
                if c.get("expect"):
                    ck.count("call-variant:" + c["expect"])
            pending.append((s, r, i_trace, i_scripts))
            ck.count("store-instances")
            if r.existing:
                ck.count("store-instances-opened-on-existing-file")
                first = next((c for c in r.rec.calls if c["end_token"] > c["first_token"]), None)
                if first is not None and first["spec"][0] in lib.EVENT_WRITE_CALLS:
                    ck.count("reopened:first-write-is-an-event-write")
                    if first["t_start"] - r.t0 > lib.MAX_AGE:
                        ck.count("reopened:first-event-write-older-than-10s")
            ck.count("micro-steps", len(r.rec.micro))
            ck.count("crash-points-observed", len(r.rec.obs))
            ck.count("write-statements", len(r.rec.issue_time))
            ck.count("rejected-statements", r.rec.failed_stmts)
        ck.count("histories")
        gaps = [st[0] for st in s.steps]
        if any(g >= 86400 * lib.S for g in gaps):
            ck.count("histories-with-a-gap-of-days")
    return pending, wire


def compare_with_model(ck, prop, pending, wire):
    if not pending:
        return
    out = common.run_driver(prop, wire)
    by_session = {}
    for s, r, i_trace, i_scripts in pending:
        acc = by_session.setdefault(id(s), {"s": s, "br": {}, "bad": []})
        if out[i_trace] == [-999] or any(out[i] == [-999] for i in i_scripts):
            ck.disagreement("commit-model", f"{r.name}: the driver could not decode the case", replay_obj(s))
            continue
        bad = lib.compare_model(r, out[i_trace], [out[i] for i in i_scripts])
        if r.t0_store != r.t0:
            bad.insert(0, f"after opening: last_commit model {r.t0} (the instant the constructor returned) "
                          f"implementation {r.t0_store}")
        for k, v in lib.model_branches(r, out[i_trace]).items():
            acc["br"][k] = acc["br"].get(k, 0) + v
            ck.count(k, v)
        for b in bad[:3]:
            ck.disagreement("commit-model", f"{r.name}: {b}", replay_obj(s, {"disagreement": b, "instance": r.index}))
    for acc in by_session.values():
        s, br = acc["s"], acc["br"]
        canon = [s.lazy, [(dt, tick, sp[0], len(sp[2]) if sp[0] == "insert_many" else 0,
                           sp[3] if sp[0] == "insert_many" else (sp[1:] if sp[0] == REOPEN else 0))
                          for dt, tick, sp in s.steps]]
        nontrivial = (br.get("cc:none", 0) > 0 and (br.get("cc:count", 0) + br.get("cc:age", 0) + br.get("cc:count+age", 0)) > 0)
        ck.note_case(canon, nontrivial=nontrivial)
        if len(ck.samples) < 4 and nontrivial and len(s.steps) < 70:
            ck.sample({"history": s.name, "lazy": s.lazy, "calls": len(s.steps), "store_instances": len(s.segments),
                       "write_statements": sum(len(r.rec.issue_time) for r in s.segments),
                       "crash_points_observed": sum(len(r.rec.obs) for r in s.segments),
                       "cond_commit_branches": br, "first_steps": s.steps[:6]})
