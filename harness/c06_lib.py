"""Shared machinery of the C06 / C18 checks: drives the real SqliteStorage under a fake
clock, records its micro-steps (SQL statements via the connection's trace callback,
commit()/conditional_commit(k) via a logging subclass, clock readings via the fake
datetime), reads the committed state through a SECOND connection at every statement
boundary and after every commit step, and replays every write statement on a shadow
database so that "the effects of the first j writes" is a concrete table dump.

Observations are compared (a) with the extracted Coq model run on the same timed
micro-step trace (correspondence), and (b) with the property statements themselves
(oracles), independently of the model."""
import os
import shutil
import sqlite3
import tempfile
from datetime import datetime as _real_datetime
from datetime import timedelta, timezone

from .common import sx

US = timedelta(microseconds=1)
FAKE_BASE = _real_datetime(2024, 1, 1, 12, 0, 0)           # naive, like datetime.now()
T0 = _real_datetime(2020, 1, 1, tzinfo=timezone.utc)
S = 1_000_000                                               # one second in µs
MAX_AGE = 10 * S
THRESHOLD = 50
WRITE_KW = ("INSERT", "UPDATE", "DELETE", "REPLACE")

BUCKET_CALLS = ("create_bucket", "update_bucket", "delete_bucket")
SINGLE_EVENT_CALLS = ("insert_one", "replace", "replace_last", "delete")
EVENT_WRITE_CALLS = SINGLE_EVENT_CALLS + ("insert_many",)
# ("insert_many_bad", bucket, upsert ids, n_good): n_good fine rows followed by one whose end
# does not fit SQLite's INTEGER -> executemany raises OverflowError after n_good rows
# ("insert_many_badup", bucket, upsert ids, k, n_rows): the id-carrying event number k (0-based) has such an
# end -> its UPDATE raises OverflowError at bind time after k upserts, the bulk statement is never reached; since
# a00ceb1 the loop is inside insert_many's try, so the finally clause counts len(ids) + n_rows
READ_CALLS = ("get_event", "get_events", "get_eventcount")


def scratch_dir():
    """Database files live on tmpfs when there is one (fsync of every commit is then cheap;
    the checks are about process death, not power loss)."""
    base = "/dev/shm" if os.path.isdir("/dev/shm") and os.access("/dev/shm", os.W_OK) else None
    return tempfile.mkdtemp(prefix="awc06-", dir=base)


# ---------------------------------------------------------------------------
# fake clock


class Clock:
    def __init__(self):
        self.now = 0          # µs since FAKE_BASE
        self.tick = 0         # µs the clock advances after every reading
        self.hook = None      # called with the reading (the recorder classifies it)

    def read(self):
        v = self.now
        self.now += self.tick
        if self.hook:
            self.hook(v)
        return v


def install_fake_datetime(sq, clock):
    """aw_datastore.storages.sqlite.datetime = subclass whose now() reads `clock`."""
    class FakeDT(_real_datetime):
        @classmethod
        def now(cls, tz=None):
            return FAKE_BASE + timedelta(microseconds=clock.read())
    real = sq.datetime
    sq.datetime = FakeDT
    return real


def fake_us(d):
    return (d - FAKE_BASE) // US


# ---------------------------------------------------------------------------
# table dumps


def dump(conn):
    """Digest of the two tables.  Small tables are dumped whole; above 150 events the events
    table is summarised by order-sensitive aggregates (every event's datastr is {"n": N}
    with a harness-unique N), which keeps long histories linear."""
    bk = conn.execute("SELECT rowid, id, name, type, client, hostname, created, datastr FROM buckets ORDER BY rowid").fetchall()
    n = conn.execute("SELECT count(*) FROM events").fetchone()[0]
    if n <= 150:
        ev = conn.execute("SELECT id, bucketrow, starttime, endtime, datastr FROM events ORDER BY id").fetchall()
    else:
        ev = conn.execute("SELECT sum(id), sum(id * bucketrow), sum(id * (starttime % 1000003)), "
                          "sum(id * ((endtime - starttime) % 1000003)), "
                          "sum(id * (cast(substr(datastr, 7) AS INTEGER) % 1000003)), max(id), min(id) FROM events").fetchall()
    return (n, len(bk), hash((tuple(ev), tuple(bk))))


def schema_of(conn):
    return [r[0] for r in conn.execute("SELECT sql FROM sqlite_master WHERE sql IS NOT NULL "
                                       "AND name NOT LIKE 'sqlite_%' ORDER BY rowid")]


class Shadow:
    """Every write statement issued so far, applied to an autocommit in-memory database;
    digests[j] = dump after the first j writes."""

    def __init__(self, schema, dumper=dump):
        self.db = sqlite3.connect(":memory:", isolation_level=None)
        for s in schema:
            self.db.execute(s)
        self.dumper = dumper
        self.digests = [dumper(self.db)]
        self.index = {self.digests[0]: [0]}

    def apply(self, sql, digest=True):
        """-> rowcount, or None when the engine rejects the statement"""
        try:
            cur = self.db.execute(sql)
        except (sqlite3.Error, OverflowError):
            return None
        d = self.dumper(self.db) if digest else None
        self.digests.append(d)
        if digest:
            self.index.setdefault(d, []).append(len(self.digests) - 1)
        return cur.rowcount

    def matches(self, digest, upto):
        """all j <= upto with digests[j] == digest"""
        return [j for j in self.index.get(digest, []) if j <= upto]


# ---------------------------------------------------------------------------
# the instrumented store


def instrumented_class(sq):
    class Instrumented(sq.SqliteStorage):
        _rec = None

        def commit(self):
            rec = self._rec
            if rec is None:
                return sq.SqliteStorage.commit(self)
            return rec.on_commit(lambda: sq.SqliteStorage.commit(self))

        def conditional_commit(self, num_statements):
            rec = self._rec
            if rec is None:
                return sq.SqliteStorage.conditional_commit(self, num_statements)
            return rec.on_cc(num_statements, lambda: sq.SqliteStorage.conditional_commit(self, num_statements))
    return Instrumented


class Recorder:
    def __init__(self, storage, path, clock):
        self.st = storage
        self.clock = clock
        self.c2 = sqlite3.connect(path, isolation_level=None)     # the observer
        self.shadow = Shadow(schema_of(self.c2))
        self.micro = []          # (kind, arg, (r1, r2, r3)); kind in E R C K
        self.issue_time = []     # per write token
        self.obs = []
        self.commit_stmts = []   # micro index during which a COMMIT statement ran
        self.calls = []          # per call: dict(spec, first_micro, end_micro, first_token, end_token, outcome, t_start, t_end)
        self.failed_stmts = 0
        self.failed_at = []      # micro index at which the engine rejected a statement
        self.begin_at = []       # micro index at which BEGIN was traced (sqlite3 opens the transaction)
        self.anomalies = []
        self.in_cc = False
        self.in_commit = False
        self.test_done = False
        self.slots = {}
        self.stray_readings = 0
        clock.hook = self.on_reading
        storage._rec = self
        storage.conn.set_trace_callback(self.on_stmt)

    # -- clock readings
    def on_reading(self, v):
        if self.in_cc:
            if self.in_commit:
                self.slots["r3" if self.test_done else "r1"] = v
            else:
                if self.test_done:
                    self.anomalies.append("two age-test readings in one conditional_commit")
                self.slots["r2"] = v
                self.test_done = True
        elif self.in_commit:
            self.slots["r1"] = v
        else:
            self.stray_readings += 1

    # -- commit steps
    def on_commit(self, thunk):
        if self.in_cc or self.in_commit:
            self.in_commit = True
            try:
                return thunk()
            finally:
                self.in_commit = False
        entry = self.clock.now
        self.slots = {}
        self.in_commit = True
        try:
            r = thunk()
        finally:
            self.in_commit = False
        r1 = self.slots.get("r1", entry)
        self.micro.append(("C", None, (r1, r1, r1)))
        self.observe("after-commit")
        return r

    def on_cc(self, k, thunk):
        entry = self.clock.now
        self.slots = {}
        self.in_cc, self.test_done = True, False
        try:
            r = thunk()
        finally:
            self.in_cc = False
        r1 = self.slots.get("r1", entry)
        r2 = self.slots.get("r2", max(r1, entry))
        r3 = self.slots.get("r3", r2)
        self.micro.append(("K", k, (r1, r2, r3)))
        self.observe("after-cc")
        return r

    # -- SQL statements (the callback runs before the statement executes)
    def on_stmt(self, sql):
        try:
            head = sql.lstrip().split(None, 1)[0].upper()
            now = self.clock.now
            if head == "BEGIN":
                self.begin_at.append(len(self.micro))
                return
            if head == "COMMIT":
                self.commit_stmts.append(len(self.micro))
                return
            if head == "SELECT":
                self.micro.append(("R", None, (now, now, now)))
                return
            if head in WRITE_KW:
                self.observe("before-stmt")
                if self.shadow.apply(sql) is None:
                    self.failed_stmts += 1
                    self.failed_at.append(len(self.micro))
                    return
                self.micro.append(("E", len(self.issue_time), (now, now, now)))
                self.issue_time.append(now)
                return
            self.anomalies.append("unexpected statement " + head)
        except Exception as ex:  # sqlite3 swallows exceptions of trace callbacks
            self.anomalies.append(f"recorder error {type(ex).__name__}: {ex}")

    def observe(self, kind):
        self.obs.append({"i": len(self.micro), "kind": kind, "digest": dump(self.c2),
                         "n": self.st.num_uncommitted_statements, "last": fake_us(self.st.last_commit),
                         "issued": len(self.issue_time), "call": len(self.calls), "t": self.clock.now})

    # -- calls
    def begin_call(self, spec):
        self.cur = {"spec": spec, "first_micro": len(self.micro), "first_token": len(self.issue_time),
                    "t_start": self.clock.now, "failed_before": self.failed_stmts}

    def end_call(self, outcome):
        c = self.cur
        c.update(end_micro=len(self.micro), end_token=len(self.issue_time), outcome=outcome,
                 t_end=self.clock.now, failed=self.failed_stmts - c["failed_before"])
        self.observe("call-end")
        self.calls.append(c)

    def close(self):
        """-> the store's own view equals the shadow after all issued writes?"""
        self.st.conn.set_trace_callback(None)
        self.st._rec = None
        own = dump(self.st.conn)
        ok = own == self.shadow.digests[len(self.issue_time)]
        self.c2.close()
        self.shadow.db.close()
        self.clock.hook = None
        return ok


# ---------------------------------------------------------------------------
# histories: lists of (dt_us, tick_us, call) — the clock advances dt before the call


def _ev(Event, i, eid=None):
    return Event(id=eid, timestamp=T0 + timedelta(seconds=i % 100000), duration=timedelta(seconds=1),
                 data={"n": i})


class Runner:
    """Executes one history on a fresh file-backed SqliteStorage."""

    def __init__(self, sq, Event, lazy=True):
        self.sq, self.Event, self.lazy = sq, Event, lazy
        self.dir = scratch_dir()
        self.path = os.path.join(self.dir, "h.db")
        self.clock = Clock()
        self.real_dt = install_fake_datetime(sq, self.clock)
        self.st = instrumented_class(sq)(testing=True, filepath=self.path, enable_lazy_commit=lazy)
        self.t0 = fake_us(self.st.last_commit)
        self.rec = Recorder(self.st, self.path, self.clock)
        self.counter = 0

    # what exists, as the store's own connection sees it (= the shadow)
    def event_ids(self, b):
        return [r[0] for r in self.rec.shadow.db.execute(
            "SELECT id FROM events WHERE bucketrow = (SELECT rowid FROM buckets WHERE id = ?) ORDER BY id", [b])]

    def bucket_ids(self):
        return [r[0] for r in self.rec.shadow.db.execute("SELECT id FROM buckets ORDER BY rowid")]

    def fresh(self):
        self.counter += 1
        return self.counter

    def call(self, dt, tick, spec):
        """spec: tuple (name, *args) with concrete arguments; returns the exception class name or None"""
        st, E = self.st, self.Event
        self.clock.now += dt
        self.clock.tick = tick
        self.rec.begin_call(spec)
        name = spec[0]
        out = None
        try:
            if name == "create_bucket":
                st.create_bucket(spec[1], "t", "c", "h", T0.isoformat(), None, None)
            elif name == "update_bucket":
                st.update_bucket(spec[1], **({} if spec[2] is None else {"data": {"v": spec[2]}}))
            elif name == "delete_bucket":
                st.delete_bucket(spec[1])
            elif name == "insert_one":
                st.insert_one(spec[1], _ev(E, self.fresh()))
            elif name == "insert_many":
                evs = [_ev(E, self.fresh(), eid=i) for i in spec[2]] + [_ev(E, self.fresh()) for _ in range(spec[3])]
                st.insert_many(spec[1], evs)
            elif name == "insert_many_bad":
                evs = [_ev(E, self.fresh(), eid=i) for i in spec[2]] + [_ev(E, self.fresh()) for _ in range(spec[3])]
                evs.append(E(timestamp=T0, duration=timedelta(days=200_000_000), data={"n": self.fresh()}))
                st.insert_many(spec[1], evs)
            elif name == "insert_many_badup":
                evs = [E(id=i, timestamp=T0, duration=timedelta(days=200_000_000), data={"n": self.fresh()})
                       if k == spec[3] else _ev(E, self.fresh(), eid=i) for k, i in enumerate(spec[2])]
                evs += [_ev(E, self.fresh()) for _ in range(spec[4])]
                st.insert_many(spec[1], evs)
            elif name == "replace":
                st.replace(spec[1], spec[2], _ev(E, self.fresh()))
            elif name == "replace_last":
                st.replace_last(spec[1], _ev(E, self.fresh()))
            elif name == "delete":
                st.delete(spec[1], spec[2])
            elif name == "get_event":
                st.get_event(spec[1], spec[2])
            elif name == "get_events":
                st.get_events(spec[1], spec[2])
            elif name == "get_eventcount":
                st.get_eventcount(spec[1])
            elif name == "buckets":
                st.buckets()
            elif name == "get_metadata":
                st.get_metadata(spec[1])
            else:
                raise RuntimeError("unknown call " + name)
        except Exception as ex:
            out = type(ex).__name__
        self.clock.tick = 0
        self.rec.end_call(out)
        return out

    def finish(self):
        own_ok = self.rec.close()
        try:
            self.st.conn.close()
        except Exception:
            pass
        self.sq.datetime = self.real_dt
        shutil.rmtree(self.dir, ignore_errors=True)
        return own_ok


# ---------------------------------------------------------------------------
# the model's view of a recorded run


def model_op(call):
    """The model `op` (wire form of Model/CommitDriver.v) a call is expected to be, from its
    arguments and whether the engine was expected to reject it; tokens are placeholders."""
    spec, exp = call["spec"], call.get("expect")
    name = spec[0]
    if exp == "rejected":
        return [13]
    if name == "create_bucket":
        return [0, 0]
    if name == "update_bucket":
        return [1, 0]
    if name == "delete_bucket":
        return [2, 0, 0]
    if name == "insert_one":
        return [3, 0]
    if name == "insert_many":
        if exp == "bulk-rejected":      # unknown bucket: the first of spec[3] rows is rejected
            return [14, [0] * len(spec[2]), [], spec[3]]
        return [4, [0] * len(spec[2]), [0] * spec[3]]
    if name == "insert_many_bad":       # spec[3] good rows then one that overflows
        done = spec[3] if exp == "bulk-failed" else 0
        return [14, [0] * len(spec[2]), [0] * done, spec[3] + 1 - done]
    if name == "insert_many_badup":     # spec[3] upserts ran, no bulk statement: InsertManyFailed ups [] rest
        return [14, [0] * spec[3], [], len(spec[2]) - spec[3] + spec[4]]
    if name == "replace_last":
        return [5, 0]
    if name == "replace":
        return [6, 0]
    if name == "delete":
        return [7, 0]
    if name == "get_event":
        return [8]
    if name == "get_events":
        return [9, spec[2] == 0]
    if name == "get_eventcount":
        return [10]
    if name == "buckets":
        return [11]
    if name == "get_metadata":
        return [12]
    raise RuntimeError(name)


def shape_of_model_script(script):
    """wire micro list -> flattened shape (executemany = one Exec per row)"""
    out = []
    for m in script:
        if m[0] == 0:
            out.append("E")
        elif m[0] == 1:
            out += ["E"] * len(m[1])
        elif m[0] == 2:
            out.append("R")
        elif m[0] == 3:
            out.append("C")
        elif m[0] == 4:
            out.append(f"K{m[1]}")
    return out


def shape_of_observed(micro):
    return [k if k != "K" else f"K{a}" for k, a, _ in micro]


def wire_trace(lazy, t0, micro):
    tr = []
    for k, a, c in micro:
        m = {"E": [0, a], "R": [2], "C": [3], "K": [4, a]}[k]
        tr.append([m, list(c)])
    return sx([0, lazy, t0, tr])


def wire_script(op):
    return sx([1, op])


# ---------------------------------------------------------------------------
# expectations (which script variant a call should take, given what exists)


def expectation(runner, spec):
    """-> (expect, raises): expect in None | 'rejected' | 'bulk-rejected'"""
    name = spec[0]
    have = set(runner.bucket_ids())
    if name == "create_bucket":
        return ("rejected", True) if spec[1] in have else (None, False)
    if name == "update_bucket":
        if spec[2] is None:
            return "rejected", True
        return None, spec[1] not in have
    if name == "delete_bucket":
        return None, spec[1] not in have
    if name == "insert_one":
        return ("rejected", True) if spec[1] not in have else (None, False)
    if name == "insert_many":
        if spec[1] not in have and spec[3] > 0:
            return "bulk-rejected", True
        return None, False
    if name == "insert_many_bad":
        return ("bulk-failed" if spec[1] in have else "bulk-rejected"), True
    if name == "insert_many_badup":
        return "upsert-failed", True        # an UPDATE addressed to an unknown bucket matches no row, it is not rejected
    if name == "get_metadata":
        return None, spec[1] not in have
    return None, False


def run_history(sq, Event, lazy, history):
    """history: a list of concrete steps (dt_us, tick_us, spec), or a generator function
    taking the Runner and yielding such steps.  -> finished Runner (r.steps = what ran)"""
    r = Runner(sq, Event, lazy)
    r.steps = []
    try:
        for dt, tick, spec in (history(r) if callable(history) else history):
            spec = tuple(tuple(x) if isinstance(x, list) else x for x in spec)
            exp, raises = expectation(r, spec)
            r.steps.append([dt, tick, list(spec)])
            r.call(dt, tick, spec)
            c = r.rec.calls[-1]
            c["expect"], c["raises"] = exp, raises
    finally:
        r.own_ok = r.finish()
    return r


# ---------------------------------------------------------------------------
# the property statements on the observations (no model involved)


def oracles(r):
    """-> (C06 violations, C18 violations): lists of (signature, description)"""
    rec, lazy = r.rec, r.lazy
    sh = rec.shadow
    v06, v18 = [], []
    calls = rec.calls
    # a bulk insert that failed after some rows leaves them uncounted: its own signature
    partial = ":failed-bulk-insert" if any(c["spec"][0] == "insert_many_bad" and c["end_token"] > c["first_token"]
                                           for c in calls) else ""
    for o in rec.obs:
        o["J"] = sh.matches(o["digest"], o["issued"])
    end_obs = {}
    for o in rec.obs:
        if o["kind"] == "call-end":
            end_obs[o["call"]] = o
    for o in rec.obs:
        J = o["J"]
        where = f"observation {o['kind']} in call #{o['call']} {calls[o['call']]['spec'] if o['call'] < len(calls) else ''}"
        if not J:
            v06.append(("C06:not-a-prefix", f"{where}: the committed database is not the effect of any prefix "
                        f"of the {o['issued']} writes issued so far"))
            continue
        c = calls[o["call"]]
        done_before = o["issued"] if o["kind"] == "call-end" else c["first_token"]
        if done_before - max(J) > THRESHOLD:
            v06.append(("C06:unbounded-loss" + partial, f"{where}: {done_before} writes of completed calls issued, only the "
                        f"first {max(J)} are committed ({done_before - max(J)} > 50 would be lost)"))
        if o["kind"] == "call-end" and c["spec"][0] in BUCKET_CALLS and c["outcome"] is None and o["issued"] not in J:
            v06.append(("C06:bucket-op-not-durable", f"{where}: returned with {o['issued'] - max(J)} writes uncommitted"))
    for ci, c in enumerate(calls):
        a, b = c["first_token"], c["end_token"]
        if c["spec"][0] in BUCKET_CALLS + SINGLE_EVENT_CALLS and b - a >= 2:
            for o in rec.obs:
                if o["J"] and not any(j <= a or j >= b for j in o["J"]):
                    v06.append(("C06:operation-split", f"call #{ci} {c['spec']} issued writes {a}..{b - 1}; at "
                                f"observation {o['kind']} (call #{o['call']}) exactly the first {o['J']} writes are committed"))
                    break
    # C18.  F = the latest instant at which an observation found nothing pending (so F is
    # at or after the store's last commit, whatever the store believes)
    if lazy:
        F = r.t0
        oi = 0
        for ci, c in enumerate(calls):
            F_start = F
            while oi < len(rec.obs) and rec.obs[oi]["call"] <= ci:
                o = rec.obs[oi]
                oi += 1
                if o["J"] and o["issued"] in o["J"]:
                    F = max(F, o["t"])
            o = end_obs[ci]
            J = o["J"]
            if not J:
                continue
            name = c["spec"][0]
            wrote = c["end_token"] > c["first_token"]
            if name in EVENT_WRITE_CALLS and wrote and c["outcome"] is None and c["t_start"] - F_start > MAX_AGE:
                # "the write ... before it returns" is the CALL, also for a list with id-carrying events
                # (several UPDATE statements and a bulk INSERT): nothing of it may be pending on return
                if o["issued"] not in J:
                    v18.append(("C18:old-write-not-flushed",
                                f"call #{ci} {c['spec']} issued {(c['t_start'] - F_start) / S:.6f} s after the last instant at "
                                f"which nothing was pending returned with {o['issued'] - max(J)} of its "
                                f"{c['end_token'] - c['first_token']} writes uncommitted"
                                if o['issued'] - max(J) <= c['end_token'] - c['first_token'] else
                                f"call #{ci} {c['spec']} issued {(c['t_start'] - F_start) / S:.6f} s after the last instant at "
                                f"which nothing was pending returned with {o['issued'] - max(J)} writes uncommitted"))
            for w in range(max(J), o["issued"]):
                if rec.issue_time[w] - F > MAX_AGE:
                    v18.append(("C18:pending-write-too-old" + partial,
                                f"after call #{ci} {c['spec']}: write {w}, issued {(rec.issue_time[w] - F) / S:.6f} s "
                                f"after the last instant at which nothing was pending, is still uncommitted"))
                    break
    return v06, v18


# ---------------------------------------------------------------------------
# correspondence with the extracted model


def compare_model(r, model_out, script_outs):
    """model_out: driver answer to wire_trace; script_outs: driver answers to wire_script of
    every call.  -> list of disagreement descriptions"""
    rec = r.rec
    bad = []
    states, fin_c, fin_p = model_out
    states = [[0, 0, 0, r.t0]] + states
    if rec.anomalies:
        bad.append("recorder anomalies: " + "; ".join(rec.anomalies[:3]))
    if not r.own_ok:
        bad.append("the store's own connection does not see the effect of all issued writes (shadow replay differs)")
    for c, so in zip(rec.calls, script_outs):
        want = shape_of_model_script(so)
        got = shape_of_observed(rec.micro[c["first_micro"]:c["end_micro"]])
        if want != got:
            bad.append(f"script of {c['spec']} (expect={c.get('expect')}): model {want} implementation {got}")
        if bool(c["outcome"]) != bool(c.get("raises")):
            bad.append(f"{c['spec']}: exception {c['outcome']} (expected to raise: {c.get('raises')})")
    for o in rec.obs:
        clen, plen, n, last = states[o["i"]]
        if clen >= len(rec.shadow.digests) or rec.shadow.digests[clen] != o["digest"]:
            bad.append(f"{o['kind']} after {o['i']} micro-steps: model has {clen} writes committed, the second "
                       f"connection sees the effect of {o['J'] if 'J' in o else '?'}")
        if clen + plen != o["issued"]:
            bad.append(f"{o['kind']} after {o['i']} micro-steps: model committed+pending = {clen + plen}, issued {o['issued']}")
        if n != o["n"]:
            bad.append(f"{o['kind']} after {o['i']} micro-steps: num_uncommitted_statements model {n} implementation {o['n']}")
        if last != o["last"]:
            bad.append(f"{o['kind']} after {o['i']} micro-steps: last_commit model {last} implementation {o['last']}")
        if len(bad) > 6:
            break
    prev_commit = -1
    for i, (k, a, c) in enumerate(rec.micro):
        if k in "CK":
            grew = states[i + 1][0] > states[i][0]
            seen = i in rec.commit_stmts
            # a rejected statement or an executemany over no rows leaves an open, empty
            # transaction (BEGIN traced, nothing written): COMMIT without a flush
            if seen and not grew and any(prev_commit < f <= i for f in rec.begin_at):
                grew = True
            if grew != seen:
                bad.append(f"micro-step {i} ({k}{a if a is not None else ''}): model flushes {grew}, COMMIT statement "
                           f"traced {seen} (transaction-open oracle)")
                break
            if seen:
                prev_commit = i
    if fin_c + fin_p != list(range(len(rec.issue_time))):
        bad.append("final committed ++ pending is not the issue-ordered token list")
    return bad


def model_branches(r, model_out):
    """which branches of cond_commit the run reached (coverage of the model)"""
    states = [[0, 0, 0, r.t0]] + model_out[0]
    out = {}
    for i, (k, a, c) in enumerate(r.rec.micro):
        if k != "K":
            continue
        if not r.lazy:
            key = "cc:non-lazy"
        else:
            count = states[i][2] + a > THRESHOLD
            last = c[0] if count else states[i][3]
            age = c[1] - last > MAX_AGE
            key = "cc:" + ("count+age" if count and age else "count" if count else "age" if age else "none")
        out[key] = out.get(key, 0) + 1
    return out
