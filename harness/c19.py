"""C19 — categorize / tag / split_url_events / simplify_string: correspondence with
Model/Classify.v (through labels and tabulated engines) and the property statement
evaluated on the implementation's own outputs."""
import copy
import itertools
import re
import sys
import time
from urllib.parse import urlparse as real_urlparse

from . import common
from .common import Check, opt, sx
from .evutil import BASE, mk_event, us_of_dt, us_of_td

RULE = ("boundary corpus (every sequence of up to 4 matching category depths 0..3 with non-matching rules "
        "interleaved; every regex x ignore_case x select_keys variant x data variant through Rule.match; every url "
        "and every title of the pools, with/without app, other keys, missing and non-string values; round 2: every "
        "transform on events whose OTHER keys - in particular the keys the code names literally: app, title, url - "
        "hold every string of the title/url pools that some substitution of the package rewrites, for every choice "
        "of the simplified key among title/app/url/name/label, with/without app and title) then seeded "
        "random event lists x rule lists; non-trivial = distinct canonical case in which a rule matched / a url was "
        "split / a title was rewritten / an exception class was compared; round 3: sessions of calls in one process "
        "through the three routes direct / aw_query.functions registry / aw_query.query program (every ordered pair of "
        "(select_keys, ignore_case) variants of one regex, one call each and both in one rule list; every pair of "
        "transforms with the first result and its arguments edited in place in between; rule objects edited in place "
        "between calls; two-stage programs; seeded random sessions) and 10 001-event inputs; round 5 "
        "(harness/c19_edge.py): every transform with `events` (and the rule list) handed over as list / tuple / deque / list "
        "subclass / generator / iter / reversed / map / filter (judged where the unchanged tree treats the kind like a list, "
        "counted otherwise), with data dicts that are defaultdict(str|list|int) / Counter / OrderedDict / a dict with "
        "__missing__ / hold Str, Int, tuple values, int keys and nested dict subclasses, for events WITH and WITHOUT the key "
        "the transform looks for (url, the simplified key, the select_keys of a rule whose regex would match the default), "
        "with durations at and around 2**53 us, negative, zero, timedelta.min / max and timestamps over years 1..9999, with "
        "unrelated data nested 300..900 deep under the default recursion limit and a MemoryError injected into the deep copy")

KEYS = {"url": 1, "title": 2, "app": 3, "$category": 4, "$tags": 5, "$protocol": 6, "$domain": 7,
        "$path": 8, "$params": 9, "$options": 10, "$identifier": 11}
URL_KEYS = ["$protocol", "$domain", "$path", "$params", "$options", "$identifier"]
ERR = {"KeyError": 4, "ValueError": 5, "IndexError": 6, "AttributeError": 7, "TypeError": 8}
ERRNAME = {v: k for k, v in ERR.items()}


def same(a, b):
    """Typed deep equality (1 != 1.0 != True here; dict order matters)."""
    if type(a) is not type(b):
        return False
    if isinstance(a, (list, tuple)):
        return len(a) == len(b) and all(same(x, y) for x, y in zip(a, b))
    if isinstance(a, dict):
        return list(a.keys()) == list(b.keys()) and all(same(a[k], b[k]) for k in a)
    return a == b


class Tab:
    """Label tables of one case: strings (0 = "", 1 = "Uncategorized"), keys (literal keys of the
    code fixed, others from 100), other values (one label per typed-deep-equality class)."""

    def __init__(self):
        self.strs = ["", "Uncategorized"]
        self.sidx = {"": 0, "Uncategorized": 1}
        self.keys = dict(KEYS)
        self.keyname = {v: k for k, v in KEYS.items()}
        self.others = []
        self.bigs = []

    BIG = 2 ** 61      # ocaml/main.ml reads integers through OCaml's native 63-bit int

    def num(self, n):
        """timestamps and durations are opaque to the model (no transform of C19 computes with them): beyond what
        the driver's integer glue reads they travel as labels (round 5: timedelta.max is 8.6e19 us)"""
        if -self.BIG < n < self.BIG:
            return n
        if n not in self.bigs:
            self.bigs.append(n)
        return (self.BIG + self.bigs.index(n)) * (1 if n > 0 else -1)

    def unnum(self, n):
        return n if -self.BIG < n < self.BIG else self.bigs[abs(n) - self.BIG]

    def s(self, x):
        if x not in self.sidx:
            self.sidx[x] = len(self.strs)
            self.strs.append(x)
        return self.sidx[x]

    def k(self, key):
        if key not in self.keys:
            n = 100 + len(self.keys) - len(KEYS)
            self.keys[key] = n
            self.keyname[n] = key
        return self.keys[key]

    def val(self, v):
        if type(v) is str:
            return [0, self.s(v)]
        if type(v) is list and all(type(x) is str for x in v):
            return [2, [self.s(x) for x in v]]
        for i, r in enumerate(self.others):
            if same(r, v):
                return [1, i]
        self.others.append(copy.deepcopy(v))
        return [1, len(self.others) - 1]

    def unval(self, w):
        t, x = w
        if t == 0:
            return self.strs[x]
        if t == 1:
            return copy.deepcopy(self.others[x])
        return [self.strs[i] for i in x]

    def data(self, items):
        return [[self.k(k), self.val(v)] for k, v in items]

    def undata(self, w):
        return [(self.keyname[k], self.unval(v)) for k, v in w]

    def event(self, view):
        i, t, d, items = view
        return [opt(i), self.num(t), self.num(d), self.data(items)]

    def unevent(self, w):
        i, t, d, x = w
        return (None if i == [] else i[0], self.unnum(t), self.unnum(d), self.undata(x))


def view(e):
    return (e.id, us_of_dt(e.timestamp), us_of_td(e.duration), list(e.data.items()))


def build(Event, evs):
    return [mk_event(Event, t, d, copy.deepcopy(dict(items)), eid=i) for i, t, d, items in evs]


# ---------------------------------------------------------------------------
# pools

VALUES = ["Firefox", "firefox", "FIREFOX - Mozilla", "Visual Studio Code", "código fonte", "STRASSE", "straße",
          "Ünïcödé Text", "日本語テキスト", "", "a.b", "axb", "foo(bar)", "line1\nline2 code", "x", "Uncategorized",
          "ǅungla", "İstanbul", "kK"]
NONSTR = [1, 1.0, True, None, 0, ["Firefox"], ["a", 1], {"title": "Firefox"}, 3.5, []]
# (pattern, literal word or None): a literal lets the oracle decide a match without a regex engine
REGEXES = [("fire", "fire"), ("Fire", "Fire"), ("code", "code"), ("Code", "Code"), ("a\\.b", "a.b"),
           ("foo\\(bar\\)", "foo(bar)"), ("日本", "日本"), ("ünï", "ünï"), ("ÜNÏ", "ÜNÏ"), ("strasse", "strasse"),
           ("x", "x"), ("^Fire", None), ("fox$", None), ("F.*x", None), ("fire|code", None), ("[0-9]+", None),
           ("\\bcode\\b", None), ("(?i)mozilla", None), (".", None), ("^$", None), ("a.b", None), ("^line2", None),
           ("(?m)^line2", None), ("ß", None), ("i", "i"), ("k", "k"), ("Uncat", "Uncat")]
SELECTS = ["absent", None, [], ["title"], ["app"], ["app", "title"], ["missing"], ["n"], ["title", "missing", "n"],
           ["title", "title"], ["$category"], ["lst"]]
CATS = [["Work"], ["Work", "Programming"], ["Work", "Programming", "Python"], ["Media"], ["Media", "Video"],
        ["Uncategorized"], [], ["A", "B"], ["Ä", "日本"], ["Work", "Other"]]
TAGS = ["work", "media", "x", "Ünï", "", "work"]

URLS = ["http://www.example.com/a/b;p?q=1#frag", "https://example.com", "www.example.com/path", "//www.example.com",
        "http://WWW.Example.com/", "http://www.", "http://wwwx.com", "http://ww.w.com/www.", "http://www",
        "ftp://user:pw@www.host.com:21/f", "http://www.日本.jp/パス?ク=1#片", "", "not a url", "http://[::1]:80/x",
        "http://[::1", "mailto:a@www.b.c", "about:blank", "file:///www.x", "http://www.a", "HTTP://www.www.com",
        "http://www.example.com?x=1&y=2", "http://example.com/#", "https://www.example.com:8080/p;a;b?q#f#g",
        None, 0, 5, ["a"], [], {}, True, 1.5, b"http://www.b.c/x"]

TITLES = ["(3) Facebook", "(12)  YouTube", "(3)Facebook", "( 3) x", "(a) x", "(3) (4) x", "Cemu - FPS: 59.2 - game",
          "FPS: 59.2", "FPS:59.2", "FPS:   1.2.3 and FPS: 7", "FPS: ...", "● file.py - VSCode", "* unsaved", "*",
          "●●x", " ● x", "(1) ● x", "● (1) x", "", "plain", "(٣) arabic digits", "(1) nbsp", "*\t\ttabbed",
          "(2) * FPS: 1", "日本 (1) x", "(007) FPS:\n12", "**bold**"]

# the harness' own copy of the three substitutions (the model's Section functions are
# instantiated with these, so a changed pattern in the code shows up as a disagreement)
H_PARENS = re.compile(r"^\([0-9]+\)\s*")
H_FPS = re.compile(r"FPS:\s+[0-9\.]+")
H_DOT = re.compile(r"^(●|\*)\s*")


def h_subs(s):
    return H_PARENS.sub("", s), H_FPS.sub("FPS: ...", s), H_DOT.sub("", s)


# ---------------------------------------------------------------------------
# the specification, computed independently of the code


def h_search(pattern, ic, s):
    return re.compile(pattern, (re.IGNORECASE if ic else 0) | re.UNICODE).search(s) is not None


def spec_match(rd, lit, data):
    """A rule matches when its non-empty regex is found in any selected string value,
    case-insensitively if asked.  For an ASCII literal against an ASCII value the search is
    decided by substring containment, without a regex engine."""
    rx = rd.get("regex")
    if rx is None or rx == "":
        return False
    sel = rd.get("select_keys")
    ic = rd.get("ignore_case", False)
    vals = [data[k] for k in sel if k in data] if sel else list(data.values())
    for v in vals:
        if type(v) is not str:
            continue
        if lit is not None and lit.isascii() and v.isascii():
            found = (lit.lower() in v.lower()) if ic else (lit in v)
        else:
            found = h_search(rx, ic, v)
        if found:
            return True
    return False


def spec_category(cats):
    """deepest matching category, the later rule wins ties, Uncategorized when nothing matches.
    Returns (expected, degenerate): degenerate = every matching category is the empty list."""
    if not cats:
        return ["Uncategorized"], False
    m = max(len(c) for c in cats)
    if m == 0:
        return ["Uncategorized"], True
    best = None
    for c in cats:
        if len(c) == m:
            best = c
    return best, False


def frame_violation(before, after, owned_of):
    if len(before) != len(after):
        return f"frame: {len(before)} events in, {len(after)} out"
    for n, (b, a) in enumerate(zip(before, after)):
        if a[0] != b[0] or a[1] != b[1] or a[2] != b[2]:
            return f"frame: event {n} id/timestamp/duration changed {b[:3]} -> {a[:3]}"
        owned = owned_of(dict(b[3]))
        rb = [(k, v) for k, v in b[3] if k not in owned]
        ra = [(k, v) for k, v in a[3] if k not in owned]
        if not same(rb, ra):
            return f"frame: event {n} unrelated data changed {rb} -> {ra}"
        for k in owned:
            if k not in dict(a[3]):
                return f"frame: event {n} lacks its key {k}"
    return None


# ---------------------------------------------------------------------------
# generators.  A case is a dict: kind, events [(id, ts, dur, [(key, value)...])], and per kind
# classes [(cls, ruledict, literal)] / key


def rule_dict(rx, sel, ic):
    rd = {}
    if rx != "absent":
        rd["regex"] = rx
    if sel != "absent":
        rd["select_keys"] = sel
    if ic != "absent":
        rd["ignore_case"] = ic
    return rd


def ev(n, items, eid=None, dur=1000):
    return (eid, BASE + 1000 * n, dur, list(items))


DATAS = [
    [("app", "Firefox"), ("title", "FIREFOX - Mozilla")],
    [("title", "Visual Studio Code"), ("app", "code")],
    [("app", "x"), ("title", ""), ("n", 1)],
    [("n", 1), ("lst", ["Firefox"]), ("none", None)],
    [],
    [("title", "日本語テキスト"), ("app", "Ünïcödé Text"), ("$category", "Firefox")],
    [("$category", ["Work"]), ("$tags", ["code"]), ("title", "a.b")],
    [("title", "line1\nline2 code"), ("app", "axb"), ("extra", "straße")],
    [("title", "foo(bar)"), ("app", "STRASSE"), ("k", "kK"), ("i", "İstanbul")],
]


def gen_match_grid():
    for (rx, lit), ic, sel in itertools.product(REGEXES + [("", None), (None, None), ("absent", None)],
                                                (False, True, "absent"), SELECTS):
        rd = rule_dict(rx, sel, ic)
        for items in DATAS:
            yield {"kind": "match", "events": [ev(0, items)], "classes": [(None, rd, lit)]}


def gen_pick_grid(kmax=4):
    always = {"regex": "."}
    never = {"regex": "zzz"}
    depth_cat = {0: [], 1: ["A"], 2: ["B", "C"], 3: ["D", "E", "F"]}
    alt_cat = {0: [], 1: ["Uncategorized"], 2: ["B", "X"], 3: ["D", "E", "G"]}
    n = 0
    for k in range(0, kmax + 1):
        for depths in itertools.product(range(4), repeat=k):
            classes = []
            for j, dp in enumerate(depths):
                cat = (depth_cat if j % 2 == 0 else alt_cat)[dp]
                classes.append((list(cat), dict(always), None))
                if (n + j) % 3 == 0:
                    classes.append((["N", "O", "P", "Q"], dict(never), None))
            n += 1
            yield {"kind": "categorize", "events": [ev(0, [("app", "x")])], "classes": classes}
            yield {"kind": "pick", "events": [], "classes": [(c, None, None) for c, rd, _l in classes if rd == always]}


def gen_url_grid():
    for i, u in enumerate(URLS):
        yield {"kind": "split", "events": [ev(0, [("url", u), ("title", "t")], eid=i)]}
        yield {"kind": "split", "events": [ev(0, [("$domain", "old"), ("title", "t"), ("url", u), ("$identifier", 7)]),
                                          ev(1, [("title", "no url here")]),
                                          ev(2, [("url", "http://www.ok.org/x")])]}
    yield {"kind": "split", "events": []}
    yield {"kind": "split", "events": [ev(0, []), ev(1, [("URL", "http://www.a.b")])]}


def gen_title_grid():
    for i, t in enumerate(TITLES):
        for key in ("title", "name"):
            for with_app in (True, False):
                items = [("app", "a")] if with_app else []
                items = items + [(key, t), ("other", "(1) ● keep FPS: 1.0")]
                if i % 2:
                    items.reverse()
                yield {"kind": "simplify", "key": key, "events": [ev(0, items)]}
    yield {"kind": "simplify", "key": "app", "events": [ev(0, [("app", "(2) * app"), ("title", "(3) t")])]}
    yield {"kind": "simplify", "key": "title", "events": []}
    yield {"kind": "simplify", "key": "title", "events": [ev(0, [("title", "(1) a")]), ev(1, [("app", "b")])]}
    yield {"kind": "simplify", "key": "title", "events": [ev(0, [("title", 5), ("app", "b")])]}
    yield {"kind": "simplify", "key": "title", "events": [ev(0, [("title", None)])]}
    yield {"kind": "simplify", "key": "title", "events": [ev(0, [("title", ["(1) a"])]), ev(1, [])]}
    yield {"kind": "simplify", "key": "name", "events": [ev(0, [("title", "(1) a"), ("app", "x")])]}
    yield {"kind": "simplify", "key": "title", "events": [ev(0, [("title", "(1) a"), ("app", None)])]}


# Round 2.  Strings that at least one rewriting step of the package changes (parens prefix, FPS counter, leading
# bullet/asterisk, www. prefix, url splitting): put under the keys a transform does NOT own, they make any
# write outside the owned keys visible to the frame oracle.
CANARIES = [t for t in TITLES if any(x != t for x in h_subs(t))] + [u for u in URLS if type(u) is str and "www." in u]
LITERAL_KEYS = ["app", "title", "url"]        # data keys the transforms' source names (besides the $-keys they own)


def gen_cross_key_grid():
    """simplify_string(events, key) for every key of a small set, on events in which every other key - above
    all the literal keys app / title / url - holds a rewritable string; and the three other transforms on
    events full of rewritable strings."""
    probes = ["(3) Facebook", "Cemu - FPS: 59.2 - game", "* unsaved", "plain"]
    n = 0
    url_canaries = [u for u in CANARIES if u not in TITLES]
    for key in ("name", "app", "label", "url", "title"):
        for t in TITLES + url_canaries:
            for kv in (probes if t in TITLES else probes[:1]):
                n += 1
                full = [(k, t) for k in ("app", "title", "url", "name", "label") if k != key]
                full.insert(n % (len(full) + 1), (key, kv))
                if key != "title":      # smallest first: app, title and the key only / title and the key only
                    yield {"kind": "simplify", "key": key, "events": [ev(0, [(k, v) for k, v in full if k in (key, "app", "title")])]}
                    yield {"kind": "simplify", "key": key,
                           "events": [ev(0, [(k, v) for k, v in reversed(full) if k in (key, "title")])]}
                yield {"kind": "simplify", "key": key, "events": [ev(0, full), ev(1, list(reversed(full)), eid=n)]}
                if key != "app":        # the same without app
                    yield {"kind": "simplify", "key": key, "events": [ev(0, [(k, v) for k, v in full if k != "app"])]}
    for i, t in enumerate(CANARIES):
        items = [("app", t), ("title", t), ("name", t), ("nested", {"title": t, "app": [t]}), ("lst", [t])]
        rules = [({"regex": ".", "select_keys": ["title"]}, None), ({"regex": re.escape(t[:3]), "ignore_case": True}, None)]
        yield {"kind": "categorize", "events": [ev(0, items, eid=i)],
               "classes": [(["A"], rules[0][0], None), (["A", "B"], rules[1][0], None)]}
        yield {"kind": "tag", "events": [ev(0, items, eid=i)], "classes": [("t1", rules[0][0], None), ("t2", rules[1][0], None)]}
        yield {"kind": "split", "events": [ev(0, items + [("url", "http://www.example.com/(1)%20*;p?FPS:%201#f")], eid=i),
                                          ev(1, [("url", t)] + items)]}
    # events of ONE call that carry the same values under different keys, the same keys in another order, or the same
    # keys with the values swapped, against rules that tell them apart by select_keys: any per-call memo of the matching
    # classes keyed by less than (keys, values) answers the later event with the earlier event's classes
    for a, b in (("firefox", "code"), ("Firefox", "firefox"), ("x", "")):
        groups = [[[("app", a)], [("title", a)]],
                  [[("title", a)], [("app", a)], [("name", a)]],
                  [[("app", a), ("title", b)], [("app", b), ("title", a)], [("title", a), ("app", b)]],
                  [[("app", a), ("title", b)], [("title", a), ("app", b)], [("app", a), ("title", b)]],
                  [[("app", a), ("n", 1)], [("n", 1), ("title", a)], [("app", a), ("n", 1)]]]
        lit = a
        rules = [(rule_dict(re.escape(lit), ["app"], "absent"), lit), (rule_dict(re.escape(lit), ["title"], "absent"), lit),
                 (rule_dict(re.escape(lit), "absent", "absent"), lit), (rule_dict(re.escape(lit), ["name", "app"], True), lit)]
        for g in groups:
            evs = [ev(j, items, eid=j) for j, items in enumerate(g)]
            yield {"kind": "categorize", "events": evs,
                   "classes": [(["App"], rules[0][0], rules[0][1]), (["Title", "Deep"], rules[1][0], rules[1][1]),
                               (["Any"], rules[2][0], rules[2][1])]}
            yield {"kind": "categorize", "events": evs,
                   "classes": [(["Title", "Deep"], rules[1][0], rules[1][1]), (["NameApp", "X", "Y"], rules[3][0], rules[3][1])]}
            yield {"kind": "tag", "events": evs,
                   "classes": [("app-t", rules[0][0], rules[0][1]), ("title-t", rules[1][0], rules[1][1]),
                               ("any-t", rules[2][0], rules[2][1]), ("nameapp-t", rules[3][0], rules[3][1])]}


def rand_data(rng, pool_keys=("app", "title", "url", "n", "lst", "none", "extra", "$category", "$tags", "name")):
    keys = rng.sample(pool_keys, rng.randrange(0, 6))
    items = []
    for k in keys:
        r = rng.random()
        if k in ("n", "none") or r < 0.12:
            v = copy.deepcopy(rng.choice(NONSTR))
        elif k == "lst":
            v = [rng.choice(VALUES) for _ in range(rng.randrange(0, 3))]
        elif k == "url" and r < 0.8:
            v = rng.choice([u for u in URLS if type(u) is str])
        elif r > 0.8:        # round 2: a string that some substitution of the package rewrites
            v = rng.choice(CANARIES)
        else:
            v = rng.choice(VALUES)
        items.append((k, v))
    return items


def rand_events(rng, mk_data, nmax=6):
    t = 0
    out = []
    for _ in range(rng.randrange(0, nmax + 1)):
        t += rng.choice([0, 1, 1, 5, 60])
        out.append((rng.choice([None, None, rng.randrange(1, 50)]), BASE + 1000 * t,
                    rng.choice([0, 1000, 2500, 60_000_000, 1]), mk_data()))
    return out


def rand_rule(rng):
    rx, lit = rng.choice(REGEXES + [("", None), (None, None), ("absent", None)]) if rng.random() < 0.85 \
        else rng.choice(REGEXES[:11])
    return rule_dict(rx, rng.choice(SELECTS + ["absent"] * 6), rng.choice([False, True, "absent", "absent"])), lit


def derived_rule(rng, events):
    """A literal rule cut out of a string value that occurs in the events (so that rules overlap on
    the same events), with the case changed at random and ignore_case at random."""
    pool = [(k, v) for _, _, _, items in events for k, v in items if type(v) is str and v]
    if not pool:
        return rand_rule(rng)
    k, v = rng.choice(pool)
    a = rng.randrange(0, len(v))
    b = rng.randrange(a + 1, len(v) + 1)
    lit = rng.choice([str, str, str.upper, str.lower, str.swapcase])(v[a:b])
    sel = rng.choice(["absent", "absent", "absent", [k], [k, "missing"], ["n", k], ["missing"], []])
    return rule_dict(re.escape(lit), sel, rng.choice([False, True, True, "absent"])), lit


def gen_random(rng, n):
    for _ in range(n):
        r = rng.random()
        if r < 0.35:
            events = rand_events(rng, lambda: rand_data(rng))
            classes = []
            for _ in range(rng.randrange(0, 7)):
                rd, lit = derived_rule(rng, events) if rng.random() < 0.6 else rand_rule(rng)
                classes.append((list(rng.choice(CATS)), rd, lit))
            yield {"kind": "categorize", "events": events, "classes": classes}
        elif r < 0.6:
            events = rand_events(rng, lambda: rand_data(rng))
            classes = []
            for _ in range(rng.randrange(0, 7)):
                rd, lit = derived_rule(rng, events) if rng.random() < 0.6 else rand_rule(rng)
                classes.append((rng.choice(TAGS), rd, lit))
            yield {"kind": "tag", "events": events, "classes": classes}
        elif r < 0.8:
            def d():
                items = rand_data(rng, ("app", "title", "$domain", "$path", "$protocol", "n", "$options", "x"))
                if rng.random() < 0.7:
                    u = rng.choice(URLS) if rng.random() < 0.85 else rng.choice([x for x in URLS if type(x) is str])
                    items.insert(rng.randrange(0, len(items) + 1), ("url", copy.deepcopy(u)))
                return items
            yield {"kind": "split", "events": rand_events(rng, d, 5)}
        else:
            key = rng.choice(["title", "title", "title", "name", "app"])

            def d():
                items = rand_data(rng, ("app", "title", "name", "n", "extra", "url", "$category", "other"))
                items = [(k, v) for k, v in items if k != key]
                q = rng.random()
                if q < 0.9:
                    items.insert(rng.randrange(0, len(items) + 1), (key, rng.choice(TITLES + VALUES[:4])))
                elif q < 0.95:
                    items.insert(rng.randrange(0, len(items) + 1), (key, copy.deepcopy(rng.choice(NONSTR))))
                seen = set()
                return [(k, v) for k, v in items if not (k in seen or seen.add(k))]
            yield {"kind": "simplify", "key": key, "events": rand_events(rng, d, 5)}


# ---------------------------------------------------------------------------
# implementation side


def run_impl(case, Event, cl, split_url_events, simplify_string):
    """-> ("ok", views | bool | list) | ("err", class name); also the input events after the call"""
    kind = case["kind"]
    objs = build(Event, case["events"])
    try:
        if kind == "categorize":
            classes = [(copy.deepcopy(c), cl.Rule(copy.deepcopy(rd))) for c, rd, _ in case["classes"]]
            out = cl.categorize(objs, classes)
        elif kind == "tag":
            classes = [(c, cl.Rule(copy.deepcopy(rd))) for c, rd, _ in case["classes"]]
            out = cl.tag(objs, classes)
        elif kind == "split":
            out = split_url_events(objs)
        elif kind == "simplify":
            out = simplify_string(objs, case["key"])
        elif kind == "match":
            return ("ok", bool(cl.Rule(copy.deepcopy(case["classes"][0][1])).match(objs[0]))), objs
        elif kind == "pick":
            return ("ok", cl._pick_category([copy.deepcopy(c) for c, _, _ in case["classes"]])), objs
        else:
            raise AssertionError(kind)
    except Exception as ex:  # noqa: BLE001 - the exception class is the observable
        return ("err", type(ex).__name__), objs
    return ("ok", [view(e) for e in out]), objs


def wire_case(case, tab):
    kind = case["kind"]
    evs = [tab.event(v) for v in case["events"]]
    strs_in_data = [v for _, _, _, items in case["events"] for _, v in items if type(v) is str]

    def spec_wire(rd):
        rx = rd.get("regex")
        sel = rd.get("select_keys")
        return [opt(None if rx is None else tab.s(rx)), [] if sel is None else [[tab.k(k) for k in sel]],
                bool(rd.get("ignore_case", False))]

    def retab(rds):
        rows, seen = [], set()
        for rd in rds:
            rx = rd.get("regex")
            if not rx:
                continue
            ic = bool(rd.get("ignore_case", False))
            for s in strs_in_data:
                key = (rx, ic, s)
                if key not in seen:
                    seen.add(key)
                    rows.append([tab.s(rx), ic, tab.s(s), h_search(rx, ic, s)])
        return rows

    if kind in ("categorize", "tag"):
        rds = [rd for _, rd, _ in case["classes"]]
        cls = [[[tab.s(x) for x in c] if kind == "categorize" else tab.s(c), spec_wire(rd)]
               for c, rd, _ in case["classes"]]
        return [0 if kind == "categorize" else 1, retab(rds), evs, cls]
    if kind == "match":
        rd = case["classes"][0][1]
        return [4, retab([rd]), spec_wire(rd), evs[0][3]]
    if kind == "pick":
        return [5, [[tab.s(x) for x in c] for c, _, _ in case["classes"]]]
    if kind == "split":
        urows, wrows, seen, wseen = [], [], [], []
        for _, _, _, items in case["events"]:
            d = dict(items)
            if "url" not in d:
                continue
            u = d["url"]
            if any(same(u, s) for s in seen):
                continue
            seen.append(u)
            try:
                p = real_urlparse(u)
                comps = [p.scheme, p.netloc, p.path, p.params, p.query, p.fragment]
                urows.append([tab.val(u), [0, [tab.val(c) for c in comps]]])
                nl = p.netloc
                if not any(same(nl, s) for s in wseen):
                    wseen.append(nl)
                    wrows.append([tab.val(nl), bool(nl[:4] == "www."), tab.val(nl[4:])])
            except Exception as ex:  # noqa: BLE001
                urows.append([tab.val(u), [1, ERR.get(type(ex).__name__, 10)]])
        return [2, urows, wrows, evs]
    if kind == "simplify":
        rows, done = [], set()
        todo = [dict(items).get(case["key"]) for _, _, _, items in case["events"]]
        todo = [s for s in todo if type(s) is str]
        for _ in range(3):
            nxt = []
            for s in todo:
                if s in done:
                    continue
                done.add(s)
                p, f, d = h_subs(s)
                rows.append([tab.s(s), tab.s(p), tab.s(f), tab.s(d)])
                nxt += [p, f, d]
            todo = nxt
        return [3, rows, tab.k(case["key"]), evs]
    raise AssertionError(kind)


def decode_model(case, mo, tab):
    kind = case["kind"]
    if mo == [-999] or mo == [-998]:
        raise ValueError("driver rejected the case (bad_case)")
    if kind in ("categorize", "tag"):
        return ("ok", [tab.unevent(e) for e in mo])
    if kind in ("split", "simplify"):
        if mo[0] == 0:
            return ("ok", [tab.unevent(e) for e in mo[1]])
        if mo[0] == 1:
            return ("err", ERRNAME.get(mo[1], f"code{mo[1]}"))
        return ("fuel", None)
    if kind == "match":
        return ("ok", bool(mo))
    if kind == "pick":
        return ("ok", [tab.strs[i] for i in mo])
    raise AssertionError(kind)


def agree(a, b):
    if a[0] != b[0]:
        return False
    if a[0] == "err":
        return a[1] == b[1]
    return same(a[1], b[1]) if not isinstance(a[1], list) else same(list(map(_norm, a[1])), list(map(_norm, b[1])))


def _norm(x):
    # event views: tuples of (id, ts, dur, [(k, v)...]); data items as lists for typed compare
    if isinstance(x, tuple) and len(x) == 4 and isinstance(x[3], list):
        return [x[0], x[1], x[2], [[k, v] for k, v in x[3]]]
    return x


# ---------------------------------------------------------------------------
# the property statement on the implementation's output


def oracle(case, res, ck):
    kind = case["kind"]
    before = [(i, t, d, list(items)) for i, t, d, items in case["events"]]
    if res[0] == "err":
        # the statement speaks about what the transforms return; an exception is compared with
        # the model (simplify_string: missing key / non-str value; split_url_events: urlparse raising)
        ck.count(f"{kind}:raised:{res[1]}")
        if kind in ("categorize", "tag", "match", "pick"):
            return f"{kind} raised {res[1]}"
        return None
    out = res[1]
    if kind == "match":
        _, rd, lit = case["classes"][0]
        d0 = dict(before[0][3])
        sel = rd.get("select_keys")
        if sel and rd.get("regex"):
            if any(k not in d0 for k in sel):
                ck.count("match:select_keys-hits-missing-key")
            if any(k in d0 and type(d0[k]) is not str for k in sel):
                ck.count("match:select_keys-hits-non-string")
        if rd.get("regex") and rd.get("ignore_case") and out and lit is not None \
                and not spec_match(dict(rd, ignore_case=False), lit, d0):
            ck.count("match:only-because-of-ignore_case")
        want = spec_match(rd, lit, d0)
        return None if want == out else f"match: rule {rd} on {before[0][3]}: expected {want}, got {out}"
    if kind == "pick":
        want, degenerate = spec_category([c for c, _, _ in case["classes"]])
        if degenerate:
            ck.count("pick:only-empty-categories")
        return None if same(want, out) else f"pick: expected {want}, got {out}"
    if kind == "categorize":
        bad = frame_violation(before, out, lambda d: ["$category"])
        if bad:
            return bad
        for n, (b, a) in enumerate(zip(before, out)):
            d = dict(b[3])
            cats = [c for c, rd, lit in case["classes"] if spec_match(rd, lit, d)]
            want, degenerate = spec_category(cats)
            if degenerate:
                ck.count("categorize:only-empty-categories-match")
            if any(len(c) == 0 for c in cats):
                ck.count("categorize:an-empty-category-matches")
            if cats:
                m = max(len(c) for c in cats)
                if sum(1 for c in cats if len(c) == m) >= 2:
                    ck.count("categorize:tie-at-the-deepest-level")
                if len(cats) >= 2:
                    ck.count("categorize:overlapping-rules")
            if not same(dict(a[3])["$category"], want):
                return f"category: event {n}: expected {want}, got {dict(a[3])['$category']}"
        return None
    if kind == "tag":
        bad = frame_violation(before, out, lambda d: ["$tags"])
        if bad:
            return bad
        for n, (b, a) in enumerate(zip(before, out)):
            d = dict(b[3])
            want = [c for c, rd, lit in case["classes"] if spec_match(rd, lit, d)]
            if not same(dict(a[3])["$tags"], want):
                return f"tags: event {n}: expected {want}, got {dict(a[3])['$tags']}"
        return None
    if kind == "split":
        return frame_violation(before, out, lambda d: URL_KEYS if "url" in d else [])
    if kind == "simplify":
        return frame_violation(before, out, lambda d: [case["key"]])
    raise AssertionError(kind)


def nontrivial(case, res):
    kind = case["kind"]
    if res[0] == "err":
        return True
    if kind in ("match",):
        return res[1]
    if kind == "pick":
        return len(case["classes"]) >= 2
    if kind == "categorize":
        return any(dict(e[3]).get("$category") != ["Uncategorized"] for e in res[1])
    if kind == "tag":
        return any(dict(e[3]).get("$tags") for e in res[1])
    if kind == "split":
        return any("$domain" in dict(e[3]) for e in res[1])
    if kind == "simplify":
        return any(not same(list(a[3]), list(b[3])) for a, b in zip(res[1], case["events"]))
    return False


def canon(case):
    return [case["kind"], case.get("key"), [(i, t - BASE, d, items) for i, t, d, items in case["events"]],
            [(c, rd) for c, rd, _ in case.get("classes", [])]] + ([case["route"], case.get("program")] if "route" in case else [])


def main(argv=None):
    ck = Check("C19", argv)
    common.setup_impl_env()
    from aw_core.models import Event
    import aw_transform.classify as cl
    from aw_transform.split_url_events import split_url_events
    from aw_transform.simplify import simplify_string

    ck.prove(extra_targets=EXTRA_TARGETS, gen_kernels=GEN_KERNELS)
    have_driver = ck.driver()

    n_rand = 4000 if ck.tier == "quick" else 250000
    cases = list(gen_pick_grid(4 if ck.tier == "quick" else 6)) + list(gen_url_grid()) + list(gen_title_grid())
    cross = list(gen_cross_key_grid())
    ck.coverage["cross_key_grid_cases"] = len(cross)
    cases += cross
    grid = list(gen_match_grid())
    cases += grid
    cases += list(gen_random(ck.rng, n_rand))

    wires, tabs, impls, done = [], [], [], []

    def process(case, res, objs_after, on_bad=None):
        """one call of the implementation (already made: res) through the property oracle; queued for the model"""
        kind = case["kind"]
        done.append(case)
        impls.append(res)
        tab = Tab()
        wires.append(sx(wire_case(case, tab)))
        tabs.append(tab)
        ck.count(kind)
        ck.count(f"{kind}:events={len(case['events'])}" if len(case["events"]) < 100 else f"{kind}:events>=100")
        if "classes" in case and kind in ("categorize", "tag"):
            ck.count(f"{kind}:rules={len(case['classes'])}")
        try:
            nt = nontrivial(case, res)
        except Exception:  # noqa: BLE001
            nt = False
        ck.count(f"{kind}:{'nontrivial' if nt else 'default'}")
        ck.note_case(canon(case), nontrivial=nt)
        if nt and kind in ("categorize", "tag", "split", "simplify") and 1 <= len(case["events"]) < 50 \
                and sum(1 for s in ck.samples if s["kind"] == kind) < 1:
            ck.sample({"kind": kind, "key": case.get("key"), "events": canon(case)[2],
                       "classes": canon(case)[3], "impl": res}, limit=8)
        try:
            bad = oracle(case, res, ck)
        except Exception as ex:  # noqa: BLE001 - an output the oracle cannot even read is a failing input
            bad = f"malformed: the oracle could not read the output ({type(ex).__name__}: {ex})"
        if bad and on_bad is not None:
            on_bad(bad)
        elif bad:
            ck.failing_input("C19:" + bad.split(":")[0], bad,
                             {"case": canon(case), "base_us": BASE, "impl_output": res})
        if kind == "simplify" and objs_after is not None:
            # simplify_string deep-copies: the caller's events are untouched (the model is
            # functional; this is the part of the tie the model cannot express)
            after = [view(e) for e in objs_after]
            if not same(list(map(_norm, after)), list(map(_norm, case["events"]))):
                ck.disagreement("simplify-input", "simplify_string modified its input events",
                                {"case": canon(case), "input_after": after})

    for case in cases:
        res, objs_after = run_impl(case, Event, cl, split_url_events, simplify_string)
        process(case, res, objs_after)
    # round 3: call sequences in one process, the registered query functions and whole query2 programs, results edited
    # in place by their consumer, >= 10 001 events (harness/c19_hist.py); every call judged alone by `process`
    from . import c19_hist
    t_h = time.time()
    runner = c19_hist.Runner(ck, sys.modules[__name__], process)
    n_sessions = 0
    for steps in c19_hist.sessions(sys.modules[__name__], ck.rng, ck.tier):
        try:
            runner.run_session(steps)
        except Exception as ex:  # noqa: BLE001 - a tree on which a session cannot even be run: the tie is not established
            ck.disagreement("history", f"a call session could not be run ({type(ex).__name__}: {str(ex)[:200]})",
                            {"session": c19_hist.readable(steps)[:4]})
        n_sessions += 1
    ck.coverage["history"] = {"sessions": n_sessions, "calls": len(runner.history), "seconds": round(time.time() - t_h, 1)}
    # round 5: container kinds, data dict TYPES, numeric extremes, faults (harness/c19_edge.py); every call's plain reading
    # goes through `process`, the typed frame / identity / fault clauses are judged there
    from . import c19_edge
    try:
        c19_edge.run(ck, sys.modules[__name__], process, runner.env)
    except Exception as ex:  # noqa: BLE001 - the failing inputs found so far must not be lost to a dead harness
        ck.disagreement("edge", f"the edge streams could not be completed ({type(ex).__name__}: {str(ex)[:200]})", {})
    cases = done
    if have_driver:
        model = common.run_driver("C19", wires)
        for case, w, mo, io, tab in zip(cases, wires, model, impls, tabs):
            try:
                mres = decode_model(case, mo, tab)
            except (ValueError, IndexError, KeyError, TypeError) as ex:
                ck.disagreement("decode", f"{case['kind']}: model output not decodable ({ex}): {mo}",
                                {"case": canon(case), "wire": w, "model": mo})
                continue
            if not agree(mres, io):
                ck.disagreement(case["kind"], f"{case['kind']}: model {mres} impl {io}",
                                {"case": canon(case), "wire": w, "model": mo, "impl": io})
    ck.coverage["ties"] = {
        "A (differential, extracted model)": ["Rule.__init__", "Rule.match", "_pick_deepest_cat", "_pick_category",
                                              "categorize", "tag", "split_url_events", "simplify_string"],
        "B (regenerated from source + bridge lemma)": GEN_KERNELS,
    }
    ck.trusted += ["re / urllib.parse.urlparse / str slicing are external to the model: tabulated per case by the "
                   "harness from the real libraries (the harness' own compile flags and its own copy of the three "
                   "simplify patterns) and passed to the model as Section functions"]
    ck.assumptions += ["re_search, urlparse, starts_www/drop4 and the three title substitutions are Section variables "
                       "of the model (no hypotheses are needed by the theorems); their tables ship with each case",
                       "keys, strings and non-string values enter the model as labels; label 0 is the empty string and "
                       "label 1 is 'Uncategorized'",
                       "exceptions (simplify_string: KeyError on a missing key, TypeError on a non-str value; "
                       "split_url_events: whatever urlparse raises) are compared by class with the model and are not "
                       "counted as property violations: the statement speaks about returned events",
                       "the engine-independent match oracle (substring containment) is used for ASCII literal "
                       "patterns on ASCII values; otherwise the oracle calls re itself",
                       "which cells the four transforms write (in place: categorize / tag / split_url_events; copies: "
                       "simplify_string) and which objects their results share with the arguments: theorems over the "
                       "heap-level model (Props/C19own.v), tied by harness/theap2.py with aliasing inputs",
                       "round 3 (harness/c19_hist.py): every transform also through aw_query.functions.functions[...] "
                       "(rule dicts, called as QFunction.interpret calls them) and through whole aw_query.query programs "
                       "against a memory datastore, in sessions of calls in ONE process (rule lists that share a regex "
                       "and differ in select_keys / ignore_case / category, the caller's rule objects edited in place "
                       "between calls, the previous result's objects again, two stages in one program); every call is "
                       "judged alone by the oracle and the model (both pure): dependence on history is a failing input",
                       "round 3: after a call every container it handed out or was given is edited in place, one at a "
                       "time; only what the heap model calls the same object may change (the event it belongs to, what "
                       "shared it before the call, for $category the events won by the same rule: Props/C19own.v, "
                       "Props/C19fresh.v - what the call creates is referred to by one object only), and the later calls "
                       "of the session run with those edits in place (signature C19:aliasing; a failing session is "
                       "re-run and minimised in fresh interpreters)",
                       "round 3: one input of 10 001 events per transform (registry / direct route)",
                       "round 5 (harness/c19_edge.py): an exotic input is judged through its PLAIN READING (dict subclasses as "
                       "dicts, Str / Int as str / int; values nested deeper than 40 as tokens) by the statement oracle and the "
                       "model, and through a TYPED frame by the harness: the data dict keeps its type, no key is added or "
                       "removed beyond the owned ones, every other value is same-typed (a tuple is not a list); the domain of "
                       "timestamps / durations is every representable value (no transform of C19 computes with them; beyond "
                       "2**61 they travel to the model as labels); container kinds the unchanged tree does not treat like a "
                       "list (one-shot iterables for split_url_events / simplify_string / the rule list) are run and counted "
                       "(container-left-out:...), not judged; simplify_string on a defaulting dict that lacks the key is judged "
                       "with the key read as the dict's default (what `e.data[key]` reads)",
                       "round 5: under a fault (default recursion limit on deeply nested data, a MemoryError in copy.deepcopy "
                       "or in the copy of one data value) a call raises RecursionError / MemoryError or returns exactly the "
                       "fault-free result; the caller's events stay as they were (simplify_string) / change in their owned "
                       "keys only"]
    from . import theap2           # heap-level model of the C19 transforms (Props/C19own.v), tie A with aliasing
    if "C19" in theap2.GROUPS:
        theap2.heap_check(ck, "C19", have_driver=theap2.prepare(ck, "C19"))
    return ck.finish(RULE)


EXTRA_TARGETS = ["Bridge/BridgeClassify.v", "Props/C19own.v", "Props/C19fresh.v"]
GEN_KERNELS = ["Rule.__init__", "Rule.match", "_pick_deepest_cat", "_pick_category", "_categorize_one", "_tag_one"]

if __name__ == "__main__":
    sys.exit(main())
