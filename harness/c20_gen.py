"""C20 — generators of TOML documents in the line model of coq/Model/Config.v.

A document is a list of (model_line, raw_text) pairs; the text handed to aw-core is
"\n".join(raw).  model_line is the wire form of Model.Config.line before key/leaf labelling:
  ("blank",) ("comment",) ("header", [keys]) ("aot", [keys]) ("kv", [keys], value) ("other", kept)
with value = ("L", python_value) | ("T", [(key, value), ...]).

Documents are built from abstract ops through a Builder that keeps a shadow of the TOML
name space, so that almost every generated document is valid TOML (tomlkit stays the judge)."""
import datetime

LEAF_KEYS = ["a", "b", "c", "d", "x-y", "q k", "7"]
TAB_KEYS = ["t", "u", "a", "b", "v"]

# (raw text, value).  Values are given independently of tomlkit; a leaf is identified by its
# exact (type, value), so 1 / 1.0 / true / "1" are four different leaves.
VALUES = [
    ("1", ("L", 1)), ("1.0", ("L", 1.0)), ("true", ("L", True)), ('"1"', ("L", "1")),
    ("0", ("L", 0)), ("0.0", ("L", 0.0)), ("false", ("L", False)), ('""', ("L", "")),
    ("2", ("L", 2)), ("-1", ("L", -1)), ("1.5", ("L", 1.5)), ("+1", ("L", 1)), ("1e0", ("L", 1.0)),
    ("0x10", ("L", 16)), ('"true"', ("L", "true")), ('"x # y"', ("L", "x # y")),
    ("'lit[eral]'", ("L", "lit[eral]")), ('"[t]"', ("L", "[t]")), ('"a = 1"', ("L", "a = 1")),
    ("[1, 2]", ("L", [1, 2])), ("[1.0, 2]", ("L", [1.0, 2])), ("[true]", ("L", [True])),
    ("[1]", ("L", [1])), ("[]", ("L", [])), ('["a", "b"]', ("L", ["a", "b"])),
    ("[[1, 2], [3]]", ("L", [[1, 2], [3]])), ("[{n = 1}, {n = 2}]", ("L", [{"n": 1}, {"n": 2}])),
    ("1979-05-27", ("L", datetime.date(1979, 5, 27))),
    ("{p = 1}", ("T", [("p", ("L", 1))])),
    ("{p = true, q = {r = 2}}", ("T", [("p", ("L", True)), ("q", ("T", [("r", ("L", 2))]))])),
    ("{}", ("T", [])),
    ("{a = 1.0, t = {a = 1}}", ("T", [("a", ("L", 1.0)), ("t", ("T", [("a", ("L", 1))]))])),
]
N_SCALAR = 19       # VALUES[:N_SCALAR] are scalars
TYPE_CHANGE = [0, 1, 2, 3]   # 1, 1.0, true, "1"

# multi-line values: list of (raw, kept-by-the-code's-test); first raw gets "<key> = " in front
MULTILINE = [
    ([("[", False), ("  1,", False), ("  2,", False), ("]", False)], ("L", [1, 2])),
    ([("[", False), ("  [1, 2],", True), ("  [3],", True), ("]", False)], ("L", [[1, 2], [3]])),
    ([('"""', False), ("[not.a.header]", True), ("", True), ("text", False), ('"""', False)],
     ("L", "[not.a.header]\n\ntext\n")),
    ([("[", False), ("", True), ("  1 ]", False)], ("L", [1])),
]

# ---- round 2: characters at which str.splitlines() ends a line although TOML (and str.split("\n")) does
# not.  U+0085 / U+2028 / U+2029 are legal inside basic and literal strings, comments and quoted keys;
# tomlkit also tolerates them between a number and the end of the line / a comment; VT, FF, FS, GS, RS
# inside strings and comments make the document invalid (tomlkit stays the judge).
LINE_SEPS = ["\u2028", "\u2029", "\u0085"]
CTRL_SEPS = ["\x0b", "\x0c", "\x1c", "\x1d", "\x1e"]
# what follows the separator: header / array-header / key / comment look-alikes (keys of the alphabet and
# fresh ones), an unfinished header, nothing
SEP_TAILS = ["[zz]", "[t]", "[zz] # x", "[t.u]", " [zz]", "[[a]]", "[x", "[", "a = 1", "zz = 1", "# note", "", "]"]
N_BASE = len(VALUES)          # VALUES[N_BASE:] are the values below (never chosen by index arithmetic on the old table)
SEP_STRINGS = []              # indexes into VALUES
for _sep in LINE_SEPS:
    for _tail in SEP_TAILS:
        for _q in ('"', "'"):
            SEP_STRINGS.append(len(VALUES))
            VALUES.append((_q + "p" + _sep + _tail + _q, ("L", "p" + _sep + _tail)))
SEP_NUMBERS = []
# (VT and FF are tolerated there too, but `a = 2<FF>` is not TOML and its commented-out form `#a = 2<FF>` is
# rejected even by tomlkit - InvalidControlChar -, so every later load raises: tomlkit's leniency, not counted)
for _sep in LINE_SEPS:
    for _raw, _v in (("2", 2), ("1.5", 1.5)):
        SEP_NUMBERS.append(len(VALUES))
        VALUES.append((_raw + _sep, ("L", _v)))
SEP_COMMENTS = ["# c" + _sep + _tail for _sep in LINE_SEPS for _tail in SEP_TAILS] + \
               ["#" + _sep + "[zz]" for _sep in LINE_SEPS]
SEP_TRAILS = [" # n" + _sep + _tail for _sep in LINE_SEPS for _tail in SEP_TAILS]
SEP_KEYS = ["k" + _sep + _tail for _sep in LINE_SEPS for _tail in ("[zz]", "[t]", "a = 1", "")]
P_SEP = 0.015                 # share of values / comments / trailing comments / keys drawn from the above


def rand_value(rng):
    """index into VALUES: mostly the base table"""
    if rng.random() < P_SEP:
        return rng.choice(SEP_STRINGS + SEP_STRINGS + SEP_NUMBERS)
    return rng.randrange(N_BASE)


def bare(k):
    return k != "" and all(c.isalnum() and c.isascii() or c in "_-" for c in k)


class Style:
    """Rendering choices; rng=None gives the plain canonical layout."""

    def __init__(self, rng=None):
        self.rng = rng

    def pick(self, xs, plain=0):
        return xs[plain] if self.rng is None else self.rng.choice(xs)

    def key(self, k):
        if bare(k) and (self.rng is None or self.rng.random() < 0.9):
            return k
        return '"' + k + '"'

    def path(self, p):
        dot = self.pick([".", ".", ".", " . ", ". "])
        return dot.join(self.key(k) for k in p)

    def indent(self):
        return self.pick(["", "", "", "  ", "\t", " "])

    def trail(self):
        if self.rng is not None and self.rng.random() < P_SEP:
            return self.rng.choice(SEP_TRAILS)
        return self.pick(["", "", "", " # note", "   ", "\t# [x]", " #"])


class Invalid(Exception):
    pass


def _tab(dot=False):
    return {"k": "T", "c": {}, "hdr": False, "dot": dot, "owner": None}


class Builder:
    def __init__(self, style=None):
        self.style = style or Style()
        self.lines = []
        self.root = _tab()
        self.cur = []
        self.cur_node = self.root
        self.section = 0
        self.ops = []
        self.has_multiline = False
        self.headers = []
        self.aots = []

    # -- shadow name space ---------------------------------------------------------------
    def _descend(self, node, k, create):
        ch = node["c"].get(k)
        if ch is None:
            if not create:
                raise Invalid("missing")
            ch = _tab()
            node["c"][k] = ch
            return ch
        if ch["k"] == "T":
            if ch["dot"]:
                raise Invalid("table made by dotted keys")
            return ch
        if ch["k"] == "A":
            return ch["elems"][-1]
        raise Invalid("not a table")

    def _open_table(self, p):
        node = self.root
        for k in p[:-1]:
            node = self._descend(node, k, True)
        k = p[-1]
        ch = node["c"].get(k)
        if ch is None:
            ch = _tab()
            node["c"][k] = ch
        elif ch["k"] != "T" or ch["hdr"] or ch["dot"]:
            raise Invalid("cannot reopen")
        ch["hdr"] = True
        return ch

    def _open_aot(self, p):
        node = self.root
        for k in p[:-1]:
            node = self._descend(node, k, True)
        k = p[-1]
        ch = node["c"].get(k)
        if ch is None:
            ch = {"k": "A", "elems": []}
            node["c"][k] = ch
        elif ch["k"] != "A":
            raise Invalid("not an array of tables")
        e = _tab()
        e["hdr"] = True
        ch["elems"].append(e)
        return e

    def _put(self, kp):
        node = self.cur_node
        for k in kp[:-1]:
            ch = node["c"].get(k)
            if ch is None:
                ch = _tab(dot=True)
                ch["owner"] = self.section
                node["c"][k] = ch
            elif not (ch["k"] == "T" and ch["dot"] and ch["owner"] == self.section):
                raise Invalid("dotted key into a table defined elsewhere")
            node = ch
        if kp[-1] in node["c"]:
            raise Invalid("duplicate key")
        node["c"][kp[-1]] = {"k": "L"}

    # -- ops -------------------------------------------------------------------------------
    def apply(self, op):
        """op: ("kv", kpath, value_index[, trail]) | ("hdr", path[, trail]) | ("aot", path) |
        ("comment"[, text]) | ("blank",) | ("ml", key, variant).  Returns False when the op would make
        the document invalid (it is then skipped)."""
        st = self.style
        try:
            if op[0] == "kv":
                kp = list(op[1])
                self._put(kp)
                raw, val = VALUES[op[2]]
                eq = st.pick([" = ", " = ", "=", " =", "= ", "  =  "])
                trail = op[3] if len(op) > 3 else st.trail()
                self.lines.append((("kv", kp, val), st.indent() + st.path(kp) + eq + raw + trail))
            elif op[0] == "hdr":
                p = list(op[1])
                node = self._open_table(p)
                self.cur, self.cur_node = p, node
                self.section += 1
                sp = st.pick(["", "", " "])
                trail = op[2] if len(op) > 2 else st.trail()
                self.lines.append((("header", p), st.indent() + "[" + sp + st.path(p) + sp + "]" + trail))
                self.headers.append(p)
            elif op[0] == "aot":
                p = list(op[1])
                node = self._open_aot(p)
                self.cur, self.cur_node = p, node
                self.section += 1
                self.lines.append((("aot", p), st.indent() + "[[" + st.path(p) + "]]" + st.trail()))
                self.aots.append(p)
            elif op[0] == "comment":
                text = op[1] if len(op) > 1 else st.pick(["# note", "#", "  # k = 1", "#[t]", "# [[x]]", "## a = 2",
                                                           "\t#tab", "#a = 1"])
                self.lines.append((("comment",), text))
            elif op[0] == "blank":
                self.lines.append((("blank",), st.pick(["", "", "  ", "\t"])))
            elif op[0] == "ml":
                k = op[1]
                self._put([k])
                pieces, _val = MULTILINE[op[2]]
                for i, (raw, kept) in enumerate(pieces):
                    if i == 0:
                        raw = st.key(k) + " = " + raw
                    self.lines.append((("other", kept), raw))
                self.has_multiline = True
            else:
                raise ValueError(op)
        except Invalid:
            return False
        self.ops.append(op)
        return True

    def header_under_aot(self):
        return any(len(h) > len(a) and h[:len(a)] == a for h in self.headers for a in self.aots)

    def doc(self, final_newline=True, crlf=False):
        lines = list(self.lines)
        if final_newline or not lines:
            lines.append((("blank",), ""))
        if crlf:
            lines = [(m, r + "\r") for m, r in lines[:-1]] + lines[-1:]
        return Doc(lines, list(self.ops), not self.has_multiline, self.header_under_aot())


class Doc:
    def __init__(self, lines, ops, one_line, header_under_aot):
        self.lines = lines
        self.ops = ops
        self.one_line = one_line
        self.header_under_aot = header_under_aot
        self.headers_or_aots = any(m[0] in ("header", "aot") for m, _ in lines)
        self.text = "\n".join(r for _, r in lines)

    def model_lines(self):
        return [m for m, _ in self.lines]


def build(ops, style=None, **kw):
    b = Builder(style)
    for op in ops:
        b.apply(op)
    return b.doc(**kw)


# ---------------------------------------------------------------------------------------
# random documents


def rand_path(rng, maxlen=3):
    n = rng.choice([1, 1, 2, 2, 3][:2 + maxlen])
    return [rng.choice(TAB_KEYS) for _ in range(n)]


def rand_op(rng, allow_aot, allow_ml):
    r = rng.random()
    if r < 0.55:
        if rng.random() < 0.12:
            kp = [rng.choice(TAB_KEYS + LEAF_KEYS) for _ in range(rng.choice([2, 2, 3]))]
        else:
            kp = [rng.choice(LEAF_KEYS + ["t"])]
        if rng.random() < P_SEP / 2:
            kp[-1] = rng.choice(SEP_KEYS)
        vi = rand_value(rng) if rng.random() < 0.5 else rng.choice(TYPE_CHANGE)
        return ("kv", kp, vi)
    if r < 0.77:
        return ("hdr", rand_path(rng))
    if r < 0.84:
        if rng.random() < 4 * P_SEP:
            return ("comment", rng.choice(SEP_COMMENTS))
        return ("comment",)
    if r < 0.90:
        return ("blank",)
    if r < 0.96 and allow_aot:
        return ("aot", rand_path(rng, 2))
    if allow_ml:
        return ("ml", rng.choice(LEAF_KEYS), rng.randrange(len(MULTILINE)))
    return ("blank",)


def gen_doc(rng, allow_aot=True, allow_ml=True, size=None, aot_sub=False):
    b = Builder(Style(rng))
    n = size if size is not None else rng.choice([0, 1, 2, 3, 5, 8, 12, 16])
    for _ in range(n):
        op = rand_op(rng, allow_aot, allow_ml)
        b.apply(op)
        if op[0] == "aot" and b.ops and b.ops[-1] is op:
            # an array element usually has content; sometimes a sub-table header follows
            for _ in range(rng.choice([0, 1, 2])):
                b.apply(("kv", [rng.choice(LEAF_KEYS)], rng.randrange(N_SCALAR)))
            if aot_sub and rng.random() < 0.6:
                if b.apply(("hdr", list(op[1]) + [rng.choice(TAB_KEYS)])):
                    b.apply(("kv", [rng.choice(LEAF_KEYS)], rng.randrange(N_SCALAR)))
    return b.doc(final_newline=rng.random() < 0.85, crlf=rng.random() < 0.04)


def gen_user_from(rng, default, allow_ml=True):
    """A user file derived from the defaults: some values changed (often only in type), some
    lines dropped, some keys and tables added."""
    b = Builder(Style(rng))
    for op in default.ops:
        r = rng.random()
        if op[0] == "kv":
            if r < 0.35:
                b.apply(("kv", op[1], rng.choice(TYPE_CHANGE) if rng.random() < 0.6 else rand_value(rng)))
            elif r < 0.6:
                b.apply(op)
            elif r < 0.65:
                b.apply(("hdr", op[1]))      # the user makes a table where the default has a value
        elif op[0] == "hdr":
            if r < 0.8:
                b.apply(op)
            elif r < 0.85 and len(op[1]) == 1 and not b.headers and not b.aots:
                b.apply(("kv", op[1], rng.randrange(N_SCALAR)))   # a value where the default has a table
        elif op[0] == "aot":
            if r < 0.4:
                b.apply(op)
        elif op[0] == "ml":
            if r < 0.3 and allow_ml:
                b.apply(op)
            elif r < 0.6:
                b.apply(("kv", [op[1]], rand_value(rng)))
        else:
            if r < 0.5:
                b.apply(op)
        if rng.random() < 0.25:
            b.apply(rand_op(rng, True, allow_ml))
    for _ in range(rng.choice([0, 0, 1, 2, 4])):
        b.apply(rand_op(rng, True, allow_ml))
    return b.doc(final_newline=rng.random() < 0.85, crlf=rng.random() < 0.04)


# ---------------------------------------------------------------------------------------
# deterministic boundary corpus

K = lambda k, vi: ("kv", [k], vi)
H = lambda *p: ("hdr", list(p))
AH = lambda *p: ("aot", list(p))

SMALL_DOCS = [
    [],
    [K("a", 0)],                                  # a = 1
    [K("a", 1)],                                  # a = 1.0
    [K("a", 2)],                                  # a = true
    [K("a", 3)],                                  # a = "1"
    [K("a", 19)],                                 # a = [1, 2]
    [K("a", 28)],                                 # a = {p = 1}
    [K("a", 31)],                                 # a = {a = 1.0, t = {a = 1}}
    [H("a"), K("a", 0)],                          # [a] a = 1
    [H("a"), K("p", 2), H("a", "t"), K("a", 2)],  # nested
    [K("b", 8), H("t"), K("a", 0), H("t", "u"), K("a", 0), H("t", "u", "v"), K("a", 0)],
    [K("b", 8), H("t"), K("a", 2), H("t", "u"), K("a", 1), H("t", "u", "v"), K("a", 3), K("c", 0)],
    [H("t", "u", "v"), K("a", 2)],                # dotted header, implicit super-tables
    [H("t", "u"), K("a", 0), H("b"), K("a", 0), H("t", "v"), K("a", 0)],   # out-of-order tables
    [H("t", "v"), K("a", 1), H("t"), K("c", 0)],
    [("kv", ["t", "u", "a"], 2), ("kv", ["t", "b"], 0)],                   # dotted keys
    [K("t", 0)],                                  # a value where the others have a table
    [AH("a"), K("c", 0), AH("a"), K("c", 8)],     # array of tables
    [H("t"), K("a", 0), ("blank",), AH("t", "u"), K("c", 0), ("blank",), AH("t", "u"), K("c", 8), H("b"), K("a", 0)],
    [("comment",), K("a", 0), ("blank",), ("comment",), H("t"), ("comment",), K("a", 15), K("b", 17)],
    [("ml", "a", 1), H("t"), K("a", 0)],          # multi-line array with bracket lines
    [("ml", "c", 2), H("t"), K("a", 0)],          # multi-line string containing a header look-alike
]

# the first-run defect that is still open (known finding): a [table] under an [[array]]
AOT_SUBHEADER = [AH("a"), K("c", 3), H("a", "t"), K("a", 0)]
# open finding: an [[array]] whose elements are separated by another section, set by the user
SPLIT_AOT = [AH("b", "b"), H("b"), K("c", 4), AH("b", "b")]
W15_AOT = [H("t"), K("a", 0), ("blank",), AH("u"), K("c", 0), ("blank",), AH("u"), K("c", 8)]


def corpus_pairs():
    docs = [build(ops) for ops in SMALL_DOCS]
    for d in docs:
        yield d, None
    for d in docs:
        for u in docs:
            yield d, u
    yield build(W15_AOT), None
    yield build(AOT_SUBHEADER), None
    yield build(AOT_SUBHEADER), build([AH("a"), K("c", 0)])
    yield build(SPLIT_AOT), build([AH("b", "b")])
    yield build(SPLIT_AOT), build([H("b"), K("c", 2)])
    yield build(SPLIT_AOT), None
    yield build([K("a", 0), H("t"), K("a", 0)], crlf=True), None
    yield build([K("a", 0), H("t"), K("a", 0)], crlf=True), build([H("t"), K("a", 2)], crlf=True)
    yield build([K("a", 0)], final_newline=False), build([K("a", 2)], final_newline=False)
    # round 2: one line of the document contains a character at which str.splitlines() would end a line
    for ops in sep_docs():
        yield build(ops), None
    base = build([K("c", 3), H("t"), K("a", 0)])
    for sep in LINE_SEPS:
        yield base, build([K("c", sep_string(sep, "[zz]", '"')), H("t"), ("kv", ["a"], 2, " # n" + sep + "[t]")])
        yield build([K("c", sep_string(sep, "[t]", "'")), H("t"), K("a", 0)]), build([H("t"), K("b", 2)])


def sep_string(sep, tail, quote):
    """index into VALUES of the string  p<sep><tail>  written with the given quote"""
    return VALUES.index((quote + "p" + sep + tail + quote, ("L", "p" + sep + tail)))


def has_line_separator(text):
    """does a line of the text (split at LF) contain a character at which str.splitlines() splits?"""
    return any(len(l.rstrip("\r").splitlines()) > 1 or l.rstrip("\r")[-1:] in LINE_SEPS + CTRL_SEPS
               for l in text.split("\n"))


def sep_docs():
    few = ("[zz]", "[t]", "a = 1", "")
    for sep in LINE_SEPS:
        for tail in SEP_TAILS:
            # basic string value under a header; comment line before a header
            yield [K("a", 0), H("t"), K("c", sep_string(sep, tail, '"')), K("b", 8)]
            yield [("comment", "# c" + sep + tail), H("t"), K("a", 0)]
        for tail in few:
            yield [K("c", sep_string(sep, tail, "'")), H("t"), K("a", 0)]               # literal string, top level
            yield [("kv", ["a"], 0, " # n" + sep + tail), ("hdr", ["t"], " # n" + sep + tail), K("a", 2)]  # trailing comments
            yield [H("t"), ("kv", ["k" + sep + tail], 0), K("a", 2)]                    # quoted key
            yield [("hdr", ["t", "k" + sep + tail]), K("a", 0)]                          # quoted key in a header
        yield [("comment", "#" + sep + "[zz]"), K("a", 0)]
    # tolerated by tomlkit between a number and the end of the line / a comment
    for i in SEP_NUMBERS:
        yield [("kv", ["a"], i, ""), K("b", 8)]
        yield [H("t"), ("kv", ["a"], i, "# [zz]")]
    # not TOML: a control character of the splitlines() set inside a comment (tomlkit rejects the defaults)
    for sep in CTRL_SEPS:
        yield [("comment", "# c" + sep + "[zz]"), K("a", 0)]


# ---------------------------------------------------------------------------------------
# round 5: application names.  load_config_toml(appname, ...) addresses <config dir>/<appname>/<appname>.toml
# (os.path.join(get_config_dir(appname), appname + ".toml")).  Admissible = a name that is one path component and
# whose file name fits the file system: no "/" or NUL, not "", "." or "..", at most 255 bytes with ".toml" appended
# (established on the unchanged tree: every such name round-trips; "" and "." address files outside the per-app
# directory, ".." and names with "/" a path whose directory nobody creates, longer names ENAMETOOLONG).
# Dots are ordinary characters of such a name: version suffixes, reverse-DNS names, a leading / trailing dot,
# a name that already ends in ".toml" or looks like a multi-suffix archive name.
APP_DEFAULT = "c20app"
APP_NAMES = [
    "aw-server-0.13", "org.example.aw-watcher", "a.b", ".hidden", "trailing.", "aw..x", "a.toml", "x.tar.gz", ".a.b.",
    "aw-watcher-window_2", "UPPER.lower", "Ünïcode-é", "日本語.アプリ", "with space",
    "v1.2.3-rc.1+build.5", "a\\b", "~", "--help", "$HOME", "a*b?", "trail ", "c20app.", "c20app.toml", "c20app.bak",
    "n" * 200, ("v1." * 60)[:-1], "L" * 250, "é" * 125, "." + "d" * 249, "q" * 244 + ".cfg12",
]
APP_INADMISSIBLE = ["", ".", "..", "a/b", "/abs", "M" * 251, "é" * 126, "nul\x00"]


def app_admissible(name):
    import os
    return (name not in ("", ".", "..") and "/" not in name and "\x00" not in name
            and len(os.fsencode(name + ".toml")) <= 255)


def rand_app_name(rng):
    """mostly names with one or more dots; segments of ASCII / accented / CJK letters, digits, dashes"""
    r = rng.random()
    if r < 0.4:
        return rng.choice(APP_NAMES)
    segs = []
    for _ in range(rng.choice([1, 2, 2, 3, 4, 6])):
        alpha = rng.choice(["abcxyz", "abcxyz", "0123456789", "ABC", "éüñ", "日本", "-_", "aw-"])
        segs.append("".join(rng.choice(alpha) for _ in range(rng.choice([0, 1, 1, 2, 3, 5, 8, 30]))))
    name = rng.choice(["", "", "", "."]) + ".".join(segs) + rng.choice(["", "", "", ".", ".toml", ".0"])
    if rng.random() < 0.05:
        name = name + "x" * (250 - len(name.encode()))
    return name if app_admissible(name) else rng.choice(APP_NAMES)


# read faults for a load with an existing user file: (kind, argument)
#   open  : the read-mode open of the configuration file raises OSError(errno)   (injected once)
#   read  : the open succeeds, f.read() raises OSError(errno)                     (injected once)
#   chmod : the file has this mode while the load runs (0200: may be written, not read; needs a non-root uid)
#   undecodable : the file starts with bytes that are not UTF-8 (the read raises UnicodeDecodeError); no injection
import errno as _errno
READ_FAULTS = [("open", _errno.EIO), ("open", _errno.EACCES), ("open", _errno.ESTALE), ("open", _errno.EINTR),
               ("open", _errno.EMFILE), ("open", _errno.ETIMEDOUT), ("read", _errno.EIO), ("read", _errno.ESTALE),
               ("read", _errno.EISDIR), ("chmod", 0o200), ("chmod", 0o000), ("undecodable", 0)]


def fault_corpus():
    """(default ops, user ops) pairs for the deterministic part of the fault stream"""
    d1 = [K("b", 8), H("t"), K("a", 0), H("t", "u"), K("a", 0), H("t", "u", "v"), K("a", 0)]
    u1 = [K("b", 9), K("c", 3), H("t", "u"), K("a", 2), H("mine"), K("a", 15)]
    d2 = [("comment",), K("a", 0), ("blank",), H("t"), K("a", 15), K("b", 17)]
    u2 = [K("a", 1)]
    return [(d1, u1), (d2, u2), ([], u2), (d1, [])]
