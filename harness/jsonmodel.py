"""Tie between the JSON model (coq/Model/Json.v, theorems in coq/Props/C01Json.v) and the code, checked
on every run of C01 and C13 (`json_check(ck)`), or alone: `python -m harness.jsonmodel quick`.

Streams (model = the extracted Gallina functions, driver coq/Extract/ExJson.v):
 (a) dumps    model `dumps v` text == real `json.dumps(v)`, code point by code point (or the same error class);
              `wfb v` (the hypothesis of the round-trip theorem) == the two restrictions stated in Python terms
              (no int beyond 4300 digits, no high surrogate directly followed by a low surrogate);
 (b) loads    model `loads text` == real `json.loads(text)` on texts in many layouts (default, indent, compact,
              ensure_ascii=False, random white space, upper-case / needless escapes, number spellings, duplicate keys);
 (c) stores   the same values as event data through the three real back ends (Datastore/Bucket insert, bulk insert,
              get, get_by_id, and bucket metadata): read back `==`, same canonical JSON text, equal to the model's
              `loads (dumps v)` structurally (key order, int/float, -0.0); the RAW datastr cells of both SQLite files
              == the model's `dumps v` text and pure ASCII;  Event.to_json_str() data member == model text and
              Event(**json.loads(e.to_json_str())).data == data (C13's JSON form);
 (d) malformed  mutated / crafted texts: model error class == class raised by json.loads (JSONDecodeError vs plain
              ValueError of the 4300-digit limit), or both succeed with equal values.
A difference in (a), (b), (d) or in the raw cells is a broken tie (`ck.disagreement`); a value inside the domain that does
not come back equal from a back end is a failing input of the property (`ck.failing_input`, replay file)."""
import json
import math
import multiprocessing
import os
import shutil
import struct
import sys
import tempfile

from . import common
from . import edgevals

LIMB = 1 << 30
MAXDIG = 4300

# ---------------------------------------------------------------------------
# wire <-> Python


def float_token(x):
    """floatstr of json/encoder.py: float.__repr__ or the three constants"""
    if x != x:
        return "NaN"
    if x == math.inf:
        return "Infinity"
    if x == -math.inf:
        return "-Infinity"
    return float.__repr__(x)


def cps(s):
    return [ord(c) for c in s]


def uncps(l):
    return "".join(chr(c) for c in l)


def to_wire(v):
    if v is None:
        return [0]
    if v is True or v is False:
        return [1, 1 if v else 0]
    if isinstance(v, int):
        a, limbs = abs(v), []
        while a:
            limbs.append(a % LIMB)
            a //= LIMB
        return [2, -1 if v < 0 else 1] + limbs
    if isinstance(v, float):
        return [3, cps(float_token(v))]
    if isinstance(v, str):
        return [4, cps(v)]
    if isinstance(v, list):
        return [5, [to_wire(x) for x in v]]
    if isinstance(v, dict):
        for k in v:
            if not isinstance(k, str):
                raise TypeError("not JSON data: dict key " + repr(k))
        return [6, [[cps(k), to_wire(x)] for k, x in v.items()]]
    raise TypeError("not JSON data: " + repr(type(v)))


def fhex(x):
    return "nan" if x != x else x.hex()


def canon_py(v):
    """structural canonical form: key order kept, int / float / bool apart, floats by bits (all NaNs alike),
    ints in hex (str() of an int beyond 4300 digits raises)"""
    if v is None:
        return ["n"]
    if v is True or v is False:
        return ["b", int(v)]
    if isinstance(v, int):
        return ["i", hex(v)]
    if isinstance(v, float):
        return ["f", fhex(v)]
    if isinstance(v, str):
        return ["s", cps(v)]
    if isinstance(v, list):
        return ["l", [canon_py(x) for x in v]]
    if isinstance(v, dict):
        return ["d", [[cps(k), canon_py(x)] for k, x in v.items()]]
    raise TypeError("not JSON data: " + repr(type(v)))


def canon_wire(w):
    t = w[0]
    if t == 0:
        return ["n"]
    if t == 1:
        return ["b", w[1]]
    if t == 2:
        n = 0
        for limb in reversed(w[2:]):
            n = n * LIMB + limb
        return ["i", hex(w[1] * n)]
    if t == 3:
        return ["f", fhex(float(uncps(w[1])))]      # json.loads applies float() to the token
    if t == 4:
        return ["s", w[1]]
    if t == 5:
        return ["l", [canon_wire(x) for x in w[1]]]
    if t == 6:
        return ["d", [[k, canon_wire(x)] for k, x in w[1]]]
    raise ValueError("bad wire " + repr(w)[:80])


def py_wf(v):
    """the domain of the round-trip theorem in Python terms"""
    if isinstance(v, bool) or v is None or isinstance(v, float):
        return True
    if isinstance(v, int):
        return abs(v) < 10 ** MAXDIG
    if isinstance(v, str):
        return not any(0xD800 <= ord(a) <= 0xDBFF and 0xDC00 <= ord(b) <= 0xDFFF for a, b in zip(v, v[1:]))
    if isinstance(v, list):
        return all(py_wf(x) for x in v)
    return all(py_wf(k) and py_wf(x) for k, x in v.items())


def has_nan(v):
    if isinstance(v, float):
        return v != v
    if isinstance(v, list):
        return any(has_nan(x) for x in v)
    if isinstance(v, dict):
        return any(has_nan(x) for x in v.values())
    return False


def show(v, n=160):
    try:
        return json.dumps(v)[:n]
    except Exception:  # noqa: BLE001
        return repr(v)[:n]


def err_code(ex):
    if isinstance(ex, json.JSONDecodeError):
        return 1
    if isinstance(ex, ValueError):
        return 5
    if isinstance(ex, TypeError):
        return 8
    return 10


# ---------------------------------------------------------------------------
# generators

CP_BOUNDARY = [0, 1, 7, 8, 9, 10, 11, 12, 13, 0x1B, 0x1F, 0x20, 0x21, 0x22, 0x27, 0x2F, 0x5C, 0x7E, 0x7F, 0x80, 0x9F,
               0xA0, 0xFF, 0x100, 0x7FF, 0x800, 0xFFF, 0x1000, 0x20AC, 0xD7FF, 0xD800, 0xD83D, 0xDBFF, 0xDC00, 0xDE00,
               0xDFFF, 0xE000, 0xFEFF, 0xFFFD, 0xFFFE, 0xFFFF, 0x10000, 0x10001, 0x1F600, 0xFFFFF, 0x100000, 0x10FFFF]

STR_CORPUS = (["", "a", "caf\u00e9", "\u65e5\u672c\u8a9e", "\U0001f600", '"', "'", "\\", "\\n", 'a"b\\c', "\n\t\r\b\f", "\u0000",
               "\u0000\u0001\u001f", "\x7f", "/", "</script>", '{"k": 1}', "null", "NaN", "x" * 300, "  ", "\\u0041", "\\ud83d",
               "\\\\u0041", "\ud800", "\udfff", "\udc00\ud800", "\ud83dx\ude00", "\ud83d\\ude00", "\ud800\ud800", "\udc00\udc00",
               "\U0001f600\U0001f601", "a\U0010ffffb\U00010000", "\ufeff", "\ufeffx", "\u2028\u2029", "\ud7ff\ue000",
               "tab\there", "quote\"backslash\\slash/nul\u0000bell\u0007del\x7f"]
              + [chr(c) for c in CP_BOUNDARY] + ["a" + chr(c) + "z" for c in CP_BOUNDARY])
# outside the domain of the theorem: a high surrogate directly followed by a low one
STR_PAIRS = ["\ud83d\ude00", "x\ud800\udc00y", "\udbff\udfff", "\ud83d\ud83d\ude00", "\ud83d\ude00\ude00"]

INT_CORPUS = [0, 1, -1, 9, 10, -10, 255, 2 ** 31 - 1, 2 ** 31, -2 ** 31, 2 ** 53, 2 ** 53 + 1, 2 ** 63 - 1, 2 ** 63, -2 ** 63,
              -2 ** 63 - 1, 2 ** 64, 10 ** 18, 10 ** 19, 10 ** 30, -10 ** 30, 10 ** 100 + 7, 2 ** 400]
# the digit limit of int.__repr__ / int(str): 4300 digits pass, 4301 raise ValueError (costly in the extracted model: used once each)
INT_HUGE = [10 ** (MAXDIG - 1), -(10 ** MAXDIG - 1)]
INT_TOO_BIG = [10 ** MAXDIG, -10 ** MAXDIG]

FLOAT_CORPUS = [0.0, -0.0, 1.0, -1.0, 0.1, 0.5, 1 / 3, 2.5, 1e-7, 1e-5, 1e-4, 0.0001, 0.00001, 1e15, 1e16, 1e17, 1e21, 1e22, 1e23,
                123456789.123456789, 5e-324, 1e-320, 2.2250738585072014e-308, 1.7976931348623157e308, -1.5e-10, 0.1 + 0.2,
                1e15 + 0.3, 9007199254740993.0, 4.35, 1e100, 1.5e300, -2.5e-300, math.pi, float("nan"), float("inf"),
                float("-inf"), 100.0, 1e2, 12345678901234567890.0]


def rand_float(rng):
    r = rng.random()
    if r < 0.4:
        return rng.choice(FLOAT_CORPUS)
    if r < 0.7:
        return struct.unpack("<d", struct.pack("<Q", rng.getrandbits(64)))[0]
    if r < 0.85:
        return round(rng.uniform(-1000, 1000), rng.randrange(0, 6))
    return rng.uniform(-1, 1) * 10.0 ** rng.randrange(-30, 30)


def rand_int(rng, big_ok=True):
    r = rng.random()
    if r < 0.4:
        return rng.choice(INT_CORPUS)
    if r < 0.8:
        return rng.randrange(-1000, 1000)
    n = rng.getrandbits(rng.choice([31, 32, 53, 63, 64, 65, 128, 600]))
    return -n if rng.random() < 0.5 else n


def rand_str(rng, pairs=False):
    r = rng.random()
    if pairs and r < 0.08:
        return rng.choice(STR_PAIRS)
    if r < 0.35:
        return rng.choice(STR_CORPUS)
    n = rng.randrange(0, 9)
    out = []
    for _ in range(n):
        q = rng.random()
        if q < 0.35:
            out.append(chr(rng.randrange(32, 127)))
        elif q < 0.55:
            out.append(chr(rng.choice(CP_BOUNDARY)))
        elif q < 0.65:
            out.append(rng.choice('"\\/bfnrtu'))
        elif q < 0.75:
            out.append(chr(rng.randrange(0, 32)))
        elif q < 0.85:
            out.append(chr(rng.randrange(0x80, 0x10000)))
        else:
            out.append(chr(rng.randrange(0x10000, 0x110000)))
    s = "".join(out)
    if not pairs:
        while not py_wf(s):      # drop an accidental adjacent surrogate pair
            s = "".join(a for a, b in zip(s, s[1:] + "x") if not (0xD800 <= ord(a) <= 0xDBFF and 0xDC00 <= ord(b) <= 0xDFFF))
    return s


def str_class(s):
    if any(0xD800 <= ord(a) <= 0xDBFF and 0xDC00 <= ord(b) <= 0xDFFF for a, b in zip(s, s[1:])):
        return "surrogate-pair(outside-domain)"
    if any(0xD800 <= ord(c) <= 0xDFFF for c in s):
        return "lone-surrogate"
    if any(ord(c) > 0xFFFF for c in s):
        return "astral"
    if any(ord(c) < 32 or ord(c) == 127 for c in s):
        return "control"
    if any(ord(c) > 127 for c in s):
        return "non-ascii-bmp"
    if any(c in '"\\' for c in s):
        return "quote-backslash"
    return "plain-ascii" if s else "empty"


def rand_scalar(rng, pairs=False, big=False):
    r = rng.random()
    if r < 0.1:
        return rng.choice([None, True, False])
    if r < 0.3:
        return rand_int(rng) if not big or rng.random() > 0.02 else rng.choice(INT_TOO_BIG)
    if r < 0.5:
        return rand_float(rng)
    return rand_str(rng, pairs)


def rand_value(rng, depth, pairs=False, big=False):
    r = rng.random()
    if depth <= 0 or r < 0.35:
        return rand_scalar(rng, pairs, big)
    if r < 0.65:
        return [rand_value(rng, depth - 1, pairs, big) for _ in range(rng.randrange(0, 5))]
    d = {}
    for _ in range(rng.randrange(0, 5)):
        d[rand_str(rng, pairs) if rng.random() < 0.6 else "k%d" % rng.randrange(6)] = rand_value(rng, depth - 1, pairs, big)
    if len(d) > 1 and rng.random() < 0.5:          # dict key orders
        items = list(d.items())
        rng.shuffle(items)
        d = dict(items)
    return d


def rand_typed(rng, depth):
    """a value of the domain built from dict / list / str / int SUBCLASSES (OrderedDict, defaultdict, a list subclass, str and int
    subclasses: harness/edgevals.py) at every depth: JSON data to json.dumps, `==` to the plain structure"""
    return edgevals.dress(rand_value(rng, depth), rng.choice(edgevals.STYLES))


def nest(n, leaf):
    x = leaf
    for i in range(n):
        x = {"d": x} if i % 2 else [x]
    return x


def boundary_values():
    vals = [None, True, False, [], {}, [[]], [{}], {"": []}, {"": {}}, {"a": {"b": []}, "c": [{}, [], "", 0]}, "", [""], {"": ""}]
    vals += list(INT_CORPUS) + list(INT_HUGE) + list(FLOAT_CORPUS) + list(STR_CORPUS)
    vals += [list(INT_CORPUS), list(FLOAT_CORPUS), list(STR_CORPUS), {s: i for i, s in enumerate(STR_CORPUS)}]
    vals += [{"b": 1, "a": 2}, {"a": 2, "b": 1}, {"z": 1, "y": 2, "x": 3, "": 4}, {"10": 1, "9": 2, "1": 3}]
    vals += [{"mixed": [1, 1.0, True, "1", None, [1], {"1": 1}, -0.0, 0, 0.0, False]}]
    vals += [nest(6, 1), nest(40, "leaf"), nest(120, None), nest(7, {"k": [1.5, "\U0001f600", {"q": '"'}]})]
    vals += [{"app": 'Fire"fox\\', "title": "caf\u00e9 \u2014 \u65e5\u672c \U0001f600", "url": "https://x.y/?q=a%20b&c='d'", "n": 0}]
    vals += [{"nul": "\u0000", "ctl": "\u0001\u001f\x7f", "astral": "\U0001f600\U0010ffff", "lone": "\ud800", "big": 10 ** 40, "f": 1e-7}]
    # round 5: cut-off titles (lone high / lone low surrogate), astral, NUL, U+2028 as values and keys; containers and scalars that are
    # SUBCLASSES of dict / list / str / int at every depth (the wire form and the canonical form read them by isinstance)
    vals += list(edgevals.EDGE_STRINGS) + [dict(d) for d in edgevals.EDGE_DATA] + [v for _, v in edgevals.dressed_corpus()]
    vals += [edgevals.dress(d, st) for d in edgevals.EDGE_DATA[-2:] for st in ("mixed", "all")]
    vals += [edgevals.StrSub("s\ud83d"), edgevals.IntSub(2 ** 63), edgevals.IntSub(-7), [edgevals.IntSub(0), True, edgevals.StrSub("")],
             edgevals.ListSub(), edgevals.ODict(), edgevals.ListSub([edgevals.ODict()])]
    return vals


def outside_values():
    return list(STR_PAIRS) + [{"k": s} for s in STR_PAIRS] + [{s: 1} for s in STR_PAIRS] + [INT_TOO_BIG[0], [1, INT_TOO_BIG[1]]]


# ---- texts for loads

WS = " \t\n\r"
HEXU = "0123456789ABCDEF"


def render(v, rng, st):
    """a JSON text for v in a random layout; st: dict of probabilities"""
    def ws():
        if rng.random() < st["ws"]:
            return "".join(rng.choice(WS) for _ in range(rng.randrange(1, 4)))
        return ""

    def esc_unit(u):
        h = "%04x" % u
        return "\\u" + (h.upper() if rng.random() < st["upper"] else h)

    def rstr(s):
        out = ['"']
        for ch in s:
            c = ord(ch)
            short = {34: '\\"', 92: "\\\\", 8: "\\b", 12: "\\f", 10: "\\n", 13: "\\r", 9: "\\t"}
            if rng.random() < st["needless"]:          # any character may be written as an escape
                if c > 0xFFFF:
                    n = c - 0x10000
                    out.append(esc_unit(0xD800 | (n >> 10)) + esc_unit(0xDC00 | (n & 0x3FF)))
                else:
                    out.append(esc_unit(c))
            elif c in short:
                out.append(short[c] if rng.random() > st["needless"] else esc_unit(c))
            elif c < 32:
                out.append(esc_unit(c))
            elif c == 47 and rng.random() < 0.5:
                out.append("\\/")
            elif c < 127 or rng.random() < st["raw"]:
                out.append(ch)                         # raw character (ensure_ascii=False style), lone surrogates included
            elif c > 0xFFFF:
                n = c - 0x10000
                out.append(esc_unit(0xD800 | (n >> 10)) + esc_unit(0xDC00 | (n & 0x3FF)))
            else:
                out.append(esc_unit(c))
        out.append('"')
        return "".join(out)

    def rnum(x):
        if isinstance(x, int):
            if x == 0 and rng.random() < 0.3:
                return "-0"
            return hex_free_int(x)
        t = float_token(x)
        if t[-1] in "Ny":                              # NaN / Infinity
            return t
        r = rng.random()
        if r < st["numvar"]:
            if "e" in t:
                m, e = t.split("e")
                e2 = rng.choice([e, e.lstrip("+"), e[0] + "00" + e[1:] if e[0] in "+-" else "0" + e])
                return m + rng.choice("eE") + e2
            if rng.random() < 0.5:
                return t + "0" * rng.randrange(1, 4)
            return t + rng.choice(["e0", "E+0", "e-0", "e00"])
        return t

    def go(x):
        if x is None:
            return "null"
        if x is True:
            return "true"
        if x is False:
            return "false"
        if isinstance(x, (int, float)):
            return rnum(x)
        if isinstance(x, str):
            return rstr(x)
        if isinstance(x, list):
            return "[" + ws() + ("," + ws()).join(go(y) + ws() for y in x) + "]"
        items = list(x.items())
        if items and rng.random() < st["dup"]:         # duplicate keys: dict(pairs) keeps the last value at the first position
            k = rng.choice(items)[0]
            items.insert(rng.randrange(len(items) + 1), (k, rng.choice([None, 7, "dup", [k]])))
        return "{" + ws() + ("," + ws()).join(rstr(k) + ws() + ":" + ws() + go(y) + ws() for k, y in items) + "}"

    return ws() + go(v) + ws()


def hex_free_int(n):
    """decimal text of an int without str()'s digit limit"""
    if abs(n) < 10 ** 4000:
        return str(n)
    sign, a, parts = "-" if n < 0 else "", abs(n), []
    while a:
        a, r = divmod(a, 10 ** 1000)
        parts.append(r)
    return sign + str(parts[-1]) + "".join("%01000d" % p for p in reversed(parts[:-1]))


STYLES = [
    {"ws": 0.0, "upper": 0.0, "needless": 0.0, "raw": 0.0, "numvar": 0.0, "dup": 0.0},
    {"ws": 0.6, "upper": 0.5, "needless": 0.0, "raw": 0.0, "numvar": 0.3, "dup": 0.0},
    {"ws": 0.2, "upper": 0.3, "needless": 0.15, "raw": 0.5, "numvar": 0.3, "dup": 0.3},
    {"ws": 0.0, "upper": 0.0, "needless": 0.0, "raw": 1.0, "numvar": 0.0, "dup": 0.0},
]

BAD_TEXTS = ['', ' ', '\ufeff1', ' \ufeff1', '1\x0c', '\x0c1', '\x0b1', '\xa01', '[1,]', '[,1]', '[1,,2]', '{"a":1,}', '{,}', '{"a"}', '{"a":}',
             '{"a" 1}', '{a:1}', "{'a':1}", '{1:2}', '{"a":1 "b":2}', '[1 2]', '[', ']', '{', '}', '[[]', '[]]', '{}}', '{"a":[}', '-', '+1',
             '-Infinit', '-Infinityy', 'Infinit', 'infinity', 'nan', 'NaNN', 'Nan', 'nul', 'nulll', 'None', 'True', 'truefalse', 'tru',
             '01', '-01', '00', '1.', '.5', '1.e5', '1e', '1e+', '1e-', '1E', '1.5e', '1.5e+x', '1..2', '1e5.5', '--1', '- 1', '1 2', '0x10',
             '1_000', '1e1_0', '"', '"abc', '"abc\\', '"abc\\"', '"\\x41"', '"\\a"', '"\\U00000041"', '"\\u"', '"\\u1"', '"\\u12"', '"\\u123"',
             '"\\u123', '"\\u1234', '"\\u12345"', '"\\u+123"', '"\\u 123"', '"\\u1_23"', '"\\u0x12"', '"\\u-123"', '"\\uGGGG"', '"\\u00G0"',
             '"\\ud83d\\ude0"', '"\\ud83d\\ude0', '"\\ud83d\\ude00', '"\\ud83d\\u"', '"\\ud83d\\uZZZZ"', '"\\ud83d\\', '"\\ud83d\\u0041"',
             '"\\ud83d\\ud83d"', '"\\ud83d\\ud83d\\ude00"', '"\\ude00\\ud83d"', '"\\ud83d\\n"', '"\\ud83dxx\\ude00"', '"\\uD83D\\uDE00"',
             '"\\ud83d\\uDe00x"', '"\x00"', '"\x1f"', '"a\tb"', '"a\nb"', '"\x7f"', '"\\/"', "'a'", '"a" "b"', '"a",', '[1]x', '[1] ,', 'null null',
             '{"a":1,"b":2,"a":3}', '{"a":1,"a":{"a":2,"a":3}}', '{"":1,"":2}', '[ ]', '{ }', ' [ 1 , 2 ] ', '{ "a" : 1 , "b" : [ ] }', '\t\n\r 1 \t\n\r',
             '1' * MAXDIG, '1' * (MAXDIG + 1), '-' + '1' * MAXDIG, '-' + '1' * (MAXDIG + 1), '[' + '1' * (MAXDIG + 1) + ',', '1' * (MAXDIG + 1) + ' x',
             '1' * 5000 + '.0', '1' * 5000 + 'e1', '0.' + '1' * 5000, '1e' + '9' * 30, '-1e999', '1e-999', '-0', '-0.0', '-0e0', '0e0', '0E-0',
             '1E5', '1e+5', '1e05', '1.50', '[1e5,1E+5,-0,0.0e-0]', 'Infinity', '-Infinity', 'NaN', '[NaN,Infinity,-Infinity]', '-NaN', '+Infinity',
             '[1,2', '{"a":1', '{"a":', '{"a"', '{"', '[1,', '[1, ', '[1 ,', '{"a":1, ', '{"a":1 ,', '\u20281', '"\u2028"', '"\ud800"', '"\U0001f600"']

MUT_POOL = '"\\{}[],:0123456789.eE+-ntfuNI \t\n\x00\x1f\x0c\ufeffx'


def mutate(text, rng):
    t = list(text)
    for _ in range(rng.choice([1, 1, 1, 2, 3])):
        k = rng.random()
        i = rng.randrange(len(t) + 1)
        if k < 0.3 and t:
            del t[min(i, len(t) - 1)]
        elif k < 0.6:
            t.insert(i, rng.choice(MUT_POOL))
        elif k < 0.8 and t:
            t[min(i, len(t) - 1)] = rng.choice(MUT_POOL)
        elif k < 0.9:
            t = t[:i]
        else:
            j = rng.randrange(len(t) + 1)
            t = t[:i] + t[min(i, j):max(i, j)] + t[i:]
    return "".join(t)


# ---------------------------------------------------------------------------
# (c) the real back ends (one forked child: peewee has a module-level database object)

BACKENDS = ["memory", "sqlite", "peewee"]


def _as_data(v, i):
    """event data is a dict; `data or {}` in Event.__init__ replaces a falsy value"""
    return v if isinstance(v, dict) and v else {"v%d" % i: v}


def _stores_child(values, conn):
    out = {}
    try:
        from datetime import datetime, timedelta, timezone
        import sqlite3
        from aw_core.models import Event
        from aw_datastore import Datastore
        from . import store_hist as sh
        tmpdir = tempfile.mkdtemp(prefix="awjson-")
        t0 = datetime(2024, 1, 2, 3, 4, 5, tzinfo=timezone.utc)
        datas = [_as_data(v, i) for i, v in enumerate(values)]
        half = len(datas) // 2
        # Event JSON form (C13): to_json_str carries the data through json.dumps; Event(**json.loads(..)) reads it back
        ev = []
        for i, d in enumerate(datas):
            e = Event(timestamp=t0 + timedelta(seconds=i), duration=timedelta(seconds=1), data=d)
            s = e.to_json_str()
            back = Event(**json.loads(s))
            ev.append((s, json.dumps(back.data), back.data == d, canon_py(back.data)))
        out["event_json"] = ev
        for be in BACKENDS:
            st = sh.open_storage(be, tmpdir, 0)
            res = {"single": [], "bulk": [], "cells": None, "meta": [], "error": None}
            try:
                ds = Datastore(lambda testing=True, **kw: st, testing=True)
                ds.create_bucket("b1", "t", "c", "h", created=t0)
                b = ds["b1"]
                ids = []
                for i, d in enumerate(datas[:half]):
                    r = b.insert(Event(timestamp=t0 + timedelta(seconds=i), duration=timedelta(seconds=1), data=d))
                    ids.append(r.id)
                    res["single"].append({"ret": (json.dumps(r.data), r.data == d, canon_py(r.data))})
                b.insert([Event(timestamp=t0 + timedelta(seconds=half + i), duration=timedelta(seconds=1), data=d)
                          for i, d in enumerate(datas[half:])])
                lst = sorted(b.get(-1), key=lambda e: e.timestamp)
                if len(lst) != len(datas):
                    res["error"] = f"{len(datas)} events inserted, {len(lst)} listed"
                else:
                    for i, (e, d) in enumerate(zip(lst, datas)):
                        rec = {"list": (json.dumps(e.data), e.data == d, canon_py(e.data))}
                        g = b.get_by_id(e.id)
                        rec["byid"] = (json.dumps(g.data), g.data == d, canon_py(g.data)) if g is not None else None
                        if i < half:
                            res["single"][i].update(rec)
                            res["single"][i]["id_ok"] = (e.id == ids[i])
                        else:
                            res["bulk"].append(rec)
                # bucket metadata goes through the same dumps/loads
                for i, d in enumerate(datas[:12]):
                    ds.create_bucket(f"m{i}", "t", "c", "h", created=t0, data=d)
                    m = ds[f"m{i}"].metadata()["data"]
                    res["meta"].append((json.dumps(m), m == d, canon_py(m)))
                # raw cells
                if be in ("sqlite", "peewee"):
                    if be == "sqlite":
                        st.commit()
                        path, q = os.path.join(tmpdir, "s0.db"), "SELECT datastr, typeof(datastr) FROM events ORDER BY starttime"
                    else:
                        path, q = os.path.join(tmpdir, "p0.db"), "SELECT datastr, typeof(datastr) FROM eventmodel ORDER BY timestamp"
                    c2 = sqlite3.connect(path)
                    res["cells"] = [(r[0], r[1]) for r in c2.execute(q)]
                    c2.close()
            except Exception as ex:  # noqa: BLE001
                res["error"] = f"{type(ex).__name__}: {ex}"[:300]
            finally:
                try:
                    sh.close_storage(be, st, tmpdir, 0)
                except Exception:  # noqa: BLE001
                    pass
            out[be] = res
        shutil.rmtree(tmpdir, ignore_errors=True)
    except Exception as ex:  # noqa: BLE001
        out["fatal"] = f"{type(ex).__name__}: {ex}"[:400]
    conn.send(out)
    conn.close()


def run_stores(values):
    from aw_core.dirs import get_data_dir
    get_data_dir("aw-server")
    ctx = multiprocessing.get_context("fork")
    a, b = ctx.Pipe(duplex=False)
    p = ctx.Process(target=_stores_child, args=(values, b))
    p.start()
    b.close()
    try:
        out = a.recv()
    except EOFError:
        out = {"fatal": "the storage child died"}
    p.join(60)
    return out


# ---------------------------------------------------------------------------
# the check


def build(ck):
    d = f"{ck.prop}json"
    ok = common.build_driver(d, ck.log, "ExJson")[0]
    if not ok:
        ck.broken.append("JSON model no longer extracts/compiles (ExJson)")
    return d if ok else None


def write_replay(ck, obj):
    d = os.path.join(common.VERIF, "replays", ck.prop)
    os.makedirs(d, exist_ok=True)
    import hashlib
    p = os.path.join(d, "json-" + hashlib.sha1(json.dumps(obj, sort_keys=True).encode()).hexdigest()[:12] + ".json")
    with open(p, "w") as f:
        json.dump(obj, f, indent=1, sort_keys=True)
    return p


def json_check(ck, prove=True):
    """-> True when every stream agreed.  Counters go to ck under json:*; a summary to ck.coverage['json']."""
    lim = sys.getrecursionlimit()
    sys.setrecursionlimit(max(lim, 20000))       # the wire form nests three levels per JSON level
    try:
        return _json_check(ck, prove)
    finally:
        sys.setrecursionlimit(lim)


def _json_check(ck, prove):
    n_broken, n_viol = len(ck.broken), len(ck.violations)
    if prove:
        # Props/C01JsonLimit.v: the 4300-digit boundary by the kernel's vm (coqc); kept out of C01Json.v because coqchk has no vm
        ck.prove(props_file="Props/C01Json.v", extra_targets=["Props/C01JsonLimit.v"])
    drv = build(ck)
    if drv is None:
        return False
    rng = ck.rng
    quick = ck.tier == "quick"
    N = 1 if quick else 40
    summary = {}

    def run(cases):
        try:
            return common.run_driver(drv, [common.sx(c) for c in cases])
        except Exception as ex:  # noqa: BLE001
            ck.broken.append("JSON model driver failed: " + str(ex)[:300])
            return None

    def note(kind, v):
        ck.count("json:" + kind)

    # ---------------- values
    inside = boundary_values()
    inside += [rand_value(rng, rng.randrange(0, 7)) for _ in range(700 * N)]
    inside += [rand_scalar(rng) for _ in range(300 * N)]
    inside += [rand_typed(rng, rng.randrange(1, 6)) for _ in range(120 * N)]
    outside = outside_values() + [rand_value(rng, rng.randrange(1, 5), pairs=True, big=not quick) for _ in range(150 * N)]
    values = inside + outside
    wires = [to_wire(v) for v in values]

    # ---------------- (a) dumps, wf
    outs = run([[0, w] for w in wires] + [[2, w] for w in wires] + [[3, w] for w in wires])
    if outs is None:
        return False
    n = len(values)
    d_out, wf_out, rt_out = outs[:n], outs[n:2 * n], outs[2 * n:]
    model_text = {}
    n_wf = 0
    for i, v in enumerate(values):
        try:
            real = [0, cps(json.dumps(v))]
        except ValueError as ex:
            real = [1, err_code(ex)]
        ck.evaluations += 1
        nontriv = isinstance(v, (list, dict)) and len(v) > 0 or isinstance(v, str) and str_class(v) not in ("plain-ascii", "empty")
        ck.note_case(["json-dumps", canon_py(v)] if real[0] == 0 else ["json-dumps-big", i], nontrivial=bool(nontriv))
        if d_out[i] != real:
            ck.disagreement("json:dumps", f"json.dumps({show(v)}) = {show(uncps(real[1]) if real[0] == 0 else real)} but the model's dumps gives "
                            f"{show(uncps(d_out[i][1])) if d_out[i][0] == 0 else d_out[i]}",
                            {"stream": "dumps", "value_wire": wires[i] if len(str(wires[i])) < 2000 else "large", "model": str(d_out[i])[:400], "impl": str(real)[:400]})
        if d_out[i][0] == 0:
            model_text[i] = uncps(d_out[i][1])
        wf = py_wf(v)
        n_wf += wf
        if wf_out[i] != (1 if wf else 0):
            ck.disagreement("json:wf", f"wfb = {wf_out[i]} but the value {show(v)} is {'inside' if wf else 'outside'} the stated domain",
                            {"stream": "wf", "value": show(v, 400)})
        # the model's own round trip: inside the domain it must be the identity (the theorem, re-observed); outside, the real
        # loads(dumps(v)) must be what the model predicts
        if real[0] == 0:
            back = canon_py(json.loads(uncps(real[1])))
            if rt_out[i][0] != 0 or canon_wire(rt_out[i][1]) != back:
                ck.disagreement("json:roundtrip", f"json.loads(json.dumps(v)) for v = {show(v)}: model {str(rt_out[i])[:200]} vs real {str(back)[:200]}",
                                {"stream": "roundtrip", "value": show(v, 400)})
            if wf and back != canon_py(v):
                ck.failing_input("JSON:roundtrip", f"json.loads(json.dumps(v)) != v for v = {show(v)} inside the domain",
                                 {"value_json": show(v, 2000), "rerun": "python -c 'import json; v=json.loads(<value_json>); print(json.loads(json.dumps(v))==v)'"})
        if isinstance(v, str):
            note("str:" + str_class(v), v)
        elif isinstance(v, bool) or v is None:
            note("scalar:null-bool", v)
        elif isinstance(v, int):
            note("int:" + ("<=63bit" if abs(v) < 2 ** 63 else "big" if wf else ">4300-digits(outside-domain)"), v)
        elif isinstance(v, float):
            note("float:" + ("nan-inf" if v != v or abs(v) == math.inf else "exp-repr" if "e" in repr(v) else "plain-repr"), v)
        elif isinstance(v, list):
            note("list:" + ("empty" if not v else "nonempty"), v)
        else:
            note("dict:" + ("empty" if not v else "1-key" if len(v) == 1 else "multi-key"), v)
    summary["dumps_values"] = n
    summary["values_inside_domain"] = n_wf

    # ---------------- (b) loads on many layouts
    texts = []
    base = [v for v in inside if py_wf(v)] + outside_values()[:12]
    for v in base[:len(boundary_values())]:
        for st in (STYLES[:1] if isinstance(v, int) and abs(v) >= 10 ** 1000 else STYLES):
            texts.append(render(v, rng, st))
    for v in base[len(boundary_values()):]:
        texts.append(render(v, rng, rng.choice(STYLES)))
    small = [v for v in base if not (isinstance(v, int) and abs(v) >= 10 ** 4000)]
    for v in small[:200 * N]:
        try:
            texts += [json.dumps(v, indent=2), json.dumps(v, separators=(",", ":")), json.dumps(v, ensure_ascii=False),
                      json.dumps(v, sort_keys=True, indent="\t")]
        except (TypeError, ValueError):
            pass
    # ---------------- (d) malformed
    bad = list(BAD_TEXTS)
    pool = [t for t in texts if len(t) < 400]
    for _ in range(1500 * N):
        bad.append(mutate(rng.choice(pool), rng))
    all_texts = texts + bad
    outs = run([[1, cps(t)] for t in all_texts])
    if outs is None:
        return False
    n_ok = n_err = 0
    for j, (t, mo) in enumerate(zip(all_texts, outs)):
        stream = "json:loads" if j < len(texts) else "json:malformed"
        try:
            real = [0, canon_py(json.loads(t))]
        except RecursionError:
            continue
        except Exception as ex:  # noqa: BLE001
            real = [1, err_code(ex)]
        ck.evaluations += 1
        got = [0, canon_wire(mo[1])] if mo[0] == 0 else mo
        if real[0] == 0:
            n_ok += 1
        else:
            n_err += 1
        ck.count(stream + (":value" if real[0] == 0 else ":JSONDecodeError" if real[1] == 1 else ":ValueError(digit-limit)"))
        if j >= len(texts):
            ck.note_case(["json-text", t[:300]], nontrivial=len(t) > 2)
        if got != real:
            ck.disagreement(stream, f"json.loads({t[:120]!r}) = {str(real)[:160]} but the model's loads gives {str(got)[:160]}",
                            {"stream": stream, "text_codepoints": cps(t)[:400], "model": str(got)[:400], "impl": str(real)[:400]})
    summary["loads_texts"] = len(texts)
    summary["malformed_texts"] = len(bad)
    summary["texts_accepted"] = n_ok
    summary["texts_rejected"] = n_err

    # ---------------- (c) back ends
    sv_idx = [i for i, v in enumerate(values) if i in model_text and not (isinstance(v, int) and abs(v) >= 10 ** 300)]
    head = [i for i in sv_idx if i < len(boundary_values())]
    rest = [i for i in sv_idx if i >= len(boundary_values())]
    rng.shuffle(rest)
    sv_idx = head + rest[:250 * N]
    svals = [values[i] for i in sv_idx]
    datas = [_as_data(v, k) for k, v in enumerate(svals)]
    dwires = [to_wire(d) for d in datas]
    douts = run([[0, w] for w in dwires] + [[3, w] for w in dwires])
    if douts is None:
        return False
    dtext = [uncps(o[1]) if o[0] == 0 else None for o in douts[:len(datas)]]
    dback = [canon_wire(o[1]) if o[0] == 0 else None for o in douts[len(datas):]]
    res = run_stores(svals)
    if "fatal" in res:
        ck.broken.append("json back-end stream could not run: " + res["fatal"])
        return False
    half = len(datas) // 2

    def judge(be, where, k, obs):
        """obs = (json text of what came back, == original, canonical form)"""
        ck.evaluations += 1
        d = datas[k]
        inside_dom = py_wf(d)
        if obs is None:
            ck.failing_input(f"JSON:{be}:{where}:missing", f"[{be}] event with data {show(d)} not returned by {where}", {"backend": be, "data_json": show(d, 4000)})
            return
        text, eq, can = obs
        eq = eq or has_nan(d)                      # NaN != NaN in Python: such data is compared by canonical form only
        if inside_dom and (not eq or json.dumps(json.loads(text), sort_keys=True) != json.dumps(d, sort_keys=True)):
            path = write_replay(ck, dict({"backend": be, "where": where, "data_json": json.dumps(d)},
                                         **({"data_classes": edgevals.tagged(d)} if edgevals.has_subclass(d) else {})))
            ck.failing_input(f"JSON:{be}:{where}:data", f"[{be}] data {show(d)} read back by {where} as {text[:160]}",
                             {"backend": be, "where": where, "replay_file": path, "data_json": show(d, 2000), "observed_json": text[:2000],
                              "rerun": f"VERIF_REPO={common.REPO} PYTHONPATH={common.REPO}:{common.VERIF} /venv/bin/python -m harness.jsonmodel replay {path}"})
        # memory deep-copies and insert() hands back the caller's event; reads of the SQL back ends go through the text
        expect = canon_py(d) if be == "memory" or where == "insert" else dback[k]
        if can != expect:
            ck.disagreement(f"json:{be}:{where}", f"[{be}] data {show(d)} read back as {text[:160]}; the model predicts {str(expect)[:160]} (structural: key order, int/float)",
                            {"backend": be, "where": where, "data_json": show(d, 2000), "observed_json": text[:2000]})

    for be in BACKENDS:
        r = res.get(be, {"error": "no result"})
        if r.get("error"):
            # a store that cannot take a value inside the domain violates the property: find one such value
            found = None

            def bad(idx):
                r1 = run_stores([svals[k] for k in idx]).get(be, {})
                recs = [(x, _as_data(svals[k], j)) for j, (k, rec) in enumerate(zip(idx, r1.get("single", []) + r1.get("bulk", [])))
                        for x in rec.values() if isinstance(x, (tuple, list))]
                if r1.get("error"):
                    return r1["error"]
                wrong = [x[0] for x, d in recs if not (x[1] or has_nan(d))]
                return ("read back as " + wrong[0][:200]) if wrong else None

            idx = [k for k, d in enumerate(datas) if py_wf(d)]
            why = bad(idx)
            while why and len(idx) > 1:                 # bisect to one value
                a, b = idx[:len(idx) // 2], idx[len(idx) // 2:]
                wa = bad(a)
                if wa:
                    idx, why = a, wa
                    continue
                wb = bad(b)
                if wb:
                    idx, why = b, wb
                    continue
                break
            if why and len(idx) == 1:
                found = (_as_data(svals[idx[0]], 0), why)
            if found:
                path = write_replay(ck, dict({"backend": be, "where": "insert+get", "data_json": json.dumps(found[0])},
                                             **({"data_classes": edgevals.tagged(found[0])} if edgevals.has_subclass(found[0]) else {})))
                ck.failing_input(f"JSON:{be}:raised", f"[{be}] data {show(found[0])}: {found[1]}",
                                 {"backend": be, "replay_file": path, "data_json": show(found[0], 2000), "observed": found[1],
                                  "rerun": f"VERIF_REPO={common.REPO} PYTHONPATH={common.REPO}:{common.VERIF} /venv/bin/python -m harness.jsonmodel replay {path}"})
            else:
                ck.failing_input(f"JSON:{be}:raised", f"[{be}] storing/reading {len(datas)} JSON data values raised {r['error']}", {"backend": be, "error": r["error"]})
            continue
        for k, rec in enumerate(r["single"]):
            for where in ("ret", "list", "byid"):
                judge(be, {"ret": "insert", "list": "get", "byid": "get_by_id"}[where], k, rec.get(where))
        for k, rec in enumerate(r["bulk"]):
            for where in ("list", "byid"):
                judge(be, {"list": "bulk+get", "byid": "bulk+get_by_id"}[where], half + k, rec.get(where))
        for k, obs in enumerate(r["meta"]):
            judge(be, "bucket-metadata", k, obs)
        ck.count(f"json:{be}:values-stored", len(datas))
        if r["cells"] is not None:
            if len(r["cells"]) != len(datas):
                ck.disagreement(f"json:{be}:cells", f"{len(r['cells'])} raw cells for {len(datas)} events", {"backend": be})
            for k, (cell, typ) in enumerate(r["cells"][:len(datas)]):
                ck.evaluations += 1
                if typ != "text" or cell != dtext[k] or not cell.isascii():
                    ck.disagreement(f"json:{be}:cells", f"[{be}] raw datastr cell {str(cell)[:160]!r} ({typ}) for data {show(datas[k])}; the model's dumps gives {str(dtext[k])[:160]!r}",
                                    {"backend": be, "data_json": show(datas[k], 2000), "cell": str(cell)[:2000], "model_text": str(dtext[k])[:2000]})
            ck.count(f"json:{be}:raw-cells-compared", len(r["cells"]))
    for k, (s, text, eq, can) in enumerate(res.get("event_json", [])):
        ck.evaluations += 1
        d = datas[k]
        # the data member of to_json_str() is the model's text (the Event dict is {"id", "timestamp", "duration", "data"} in that order)
        if not s.endswith(', "data": ' + dtext[k] + "}"):
            ck.disagreement("json:event-to_json_str", f"Event.to_json_str() = {s[:200]} does not end with the model's text of the data {dtext[k][:160]}",
                            {"data_json": show(d, 2000), "to_json_str": s[:2000]})
        if py_wf(d) and (not (eq or has_nan(d)) or can != canon_py(d)):
            ck.failing_input("JSON:event-json-form:data", f"Event(**json.loads(e.to_json_str())).data = {text[:160]} for data {show(d)}",
                             {"data_json": show(d, 2000), "observed_json": text[:2000]})
        elif can != dback[k]:
            ck.disagreement("json:event-json-form", f"Event JSON form of data {show(d)} read back as {text[:160]}, model predicts {str(dback[k])[:160]}", {"data_json": show(d, 2000)})
    # the whole text of to_json_str(): read by the model as json.loads reads it, and written again by the model
    # from the dict it denotes (Model/JsonEvent.v: id, timestamp, duration, data in that order)
    etexts = [x[0] for x in res.get("event_json", [])]
    eouts = run([[1, cps(t)] for t in etexts] + [[0, to_wire(json.loads(t))] for t in etexts]) or []
    for k, t in enumerate(etexts[:len(eouts) // 2]):
        ck.evaluations += 1
        lo, du = eouts[k], eouts[len(etexts) + k]
        real = json.loads(t)
        if lo[0] != 0 or canon_wire(lo[1]) != canon_py(real) or list(real) != ["id", "timestamp", "duration", "data"]:
            ck.disagreement("json:event-text-loads", f"to_json_str() = {t[:200]}: model loads {str(lo)[:160]}", {"text": t[:2000]})
        if du[0] != 0 or uncps(du[1]) != t:
            ck.disagreement("json:event-text-dumps", f"to_json_str() = {t[:200]} but the model writes {uncps(du[1])[:200] if du[0] == 0 else du}", {"text": t[:2000]})
    ck.count("json:event-json-form-values", len(res.get("event_json", [])))
    summary["stored_values_per_backend"] = len(datas)
    summary["rule"] = RULE
    ck.coverage["json"] = summary
    if len(ck.samples) < 8:
        i = next((i for i in sv_idx if isinstance(values[i], dict) and len(values[i]) > 2), sv_idx[0])
        ck.sample({"json_value": show(values[i], 300), "model_dumps": model_text[i][:300]}, limit=8)
    ck.assumptions += [
        "JSON model: floats are their JSON tokens (float.__repr__ / NaN / Infinity / -Infinity); float(repr(x)) == x is CPython's guarantee, "
        "an oracle here (every generated float is dumped, reloaded and compared by bits on the implementation side)",
        "JSON model domain (wf): ints of at most 4300 digits (beyond: ValueError, modelled), str without a high surrogate directly followed by a "
        "low surrogate (such a str is read back as one astral code point: outside the domain, modelled and compared), dict keys are str; "
        "nesting below the interpreter's recursion limit",
        "SQLite stores the ASCII text unchanged in a TEXT cell (observed on every run through a second connection, not modelled)",
    ]
    return len(ck.broken) == n_broken and len(ck.violations) == n_viol


RULE = ("boundary corpus (every string class: plain, quotes/backslashes, every control character class incl. NUL and DEL, Latin-1, BMP, "
        "lone surrogates in every arrangement, astral, BOM, escape look-alikes; ints 0, +-1, 2^31, 2^53+1, 2^63, 10^30, 4300 digits; floats "
        "-0.0, 1e-7, 1e16, 1e22, subnormal, max, NaN, +-Infinity; empty containers; key orders; depth 6, 40, 120) + seeded random values of depth "
        "<= 6; texts in four layouts + json.dumps(indent / compact / ensure_ascii=False / sort_keys); crafted malformed texts + seeded mutations; "
        "values outside the domain (adjacent surrogate pair, ints beyond 4300 digits) compared too; non-trivial = a container or a non-plain string")


def replay(path):
    """re-run one stored value on one back end; exit 1 when it does not come back equal"""
    common.setup_impl_env()
    obj = json.load(open(path))
    d = edgevals.untag(obj["data_classes"]) if "data_classes" in obj else json.loads(obj["data_json"])
    res = run_stores([d])
    r = res.get(obj["backend"], {})
    print(json.dumps(r, default=str)[:1500])
    recs = [x for rec in r.get("single", []) + r.get("bulk", []) for x in rec.values() if isinstance(x, (tuple, list))]
    bad = r.get("error") or any(not x[1] for x in recs)
    print("FAILS" if bad else "holds")
    return 1 if bad else 0


def main(argv=None):
    argv = argv if argv is not None else sys.argv[1:]
    if argv and argv[0] == "replay":
        return replay(argv[1])
    os.environ.setdefault("VERIF_EVIDENCE_DIR", "/tmp/agent-json-ev")
    ck = common.Check("JSON", argv)
    common.setup_impl_env()
    json_check(ck, prove=os.path.exists(os.path.join(common.COQ, "Props", "C01Json.v")))
    return ck.finish(RULE)


if __name__ == "__main__":
    sys.exit(main())
