"""C09, round 5 streams: INPUT TYPES at the edge of what the API accepts, NUMERIC EXTREMES, FAULTS
(generic parts: harness/txedge.py).

The functional models of filter_period_intersect / period_union are exact: integer instants, opaque data labels,
functional lists.  The older streams hand every call a `list` of Events whose data are small plain dicts, a few
seconds around one instant of 2020, on a healthy interpreter.  Four classes of change are invisible to them:

  containers   what is handed to a list parameter: tuple, deque, a list subclass, a ONE-SHOT iterable (generator,
               iter(list), reversed / map / filter objects).  filter_period_intersect only calls sorted() on its
               arguments, so every iterable works (txedge.SUPPORT); period_union does `events1 + events2`, so only
               list / list-subclass mixes, two tuples or two deques work - the other combinations raise TypeError on
               the unchanged tree and are run but only COUNTED.  A supported combination must give what the list
               case gives (property oracle, model, equality with the list run on equal fresh objects) and leave the
               caller's objects alone (events, data incl. ADDED keys, the container when it can be read twice).
  data types   dict subclasses with __missing__ (defaultdict, Counter, txedge.Defaulting), OrderedDict, str / int
               subclasses as values.  C09 treats data as opaque (==, deepcopy): a piece carries e's data TYPED (same
               dict type, same value types, same keys in the same order), inputs untouched incl. added keys.
  extremes     the quantifier says "millisecond granularity", nothing about the year or the size: instants over the
               whole datetime range, durations at and beyond 2**53 us, ends close to datetime.max.  DOMAIN of the
               judged stream: every event's start and END are representable datetimes (start + duration <=
               datetime.max); outside it the unchanged code raises OverflowError in _get_event_period (counted).
  faults       data nested ~500+ deep (copy.deepcopy hits the default recursion limit) and a one-off injected
               MemoryError in copy.deepcopy.  Rule (txedge.fault_outcome): the call RAISES the fault or RETURNS
               exactly what the fault-free call returns (and satisfies the oracle) - never another result.

Every judged call that returns is also sent to the extracted model (the wire/checks lists of c09.main)."""
import json
import time

from . import common
from . import txedge as tx
from .evutil import BASE, us_of_dt, us_of_td

MOD = "aw_transform.filter_period_intersect"
FN = {"isect": "filter_period_intersect", "union": "period_union"}
STREAM = {"isect": "filter_period_intersect", "union": "period_union"}
PLAIN_POOL = [{"app": "a", "n": 1}, {"app": "b", "n": 2}, {"title": "x", "n": 3}]


# --------------------------------------------------------------------------- helpers that survive deep nesting
# (txedge.same_typed recurses through all(<genexpr>): every level costs C stack, and CPython 3.12's C recursion limit
# is not raised by sys.setrecursionlimit - it gives up near depth 500 whatever the harness limit is.  Plain loops
# recurse in Python frames only.)


def same_typed(a, b):
    """== and the same types all the way down, dict key ORDER included"""
    if type(a) is not type(b):
        return False
    if isinstance(a, dict):
        if list(a.keys()) != list(b.keys()):
            return False
        for k in a:
            if not same_typed(a[k], b[k]):
                return False
        return True
    if isinstance(a, (list, tuple)):
        if len(a) != len(b):
            return False
        for x, y in zip(a, b):
            if not same_typed(x, y):
                return False
        return True
    return a == b


def nest_depth(v):
    """nesting depth of a JSON-like value over ALL its branches (txedge.depth_of follows the first one); iterative"""
    best, stack = 0, [(v, 0)]
    while stack:
        x, n = stack.pop()
        if isinstance(x, dict):
            kids = x.values()
        elif isinstance(x, (list, tuple)):
            kids = x
        else:
            continue
        n += 1
        best = max(best, n)
        for k in kids:
            stack.append((k, n))
    return best


def is_deep(v):
    return nest_depth(v) > 40


def show(v, width=220):
    try:
        return tx.show(v, width)
    except RecursionError:
        return "<%s nested %d deep>" % (type(v).__name__, nest_depth(v))


def deep_data(d, shape, leaf):
    """event data (a dict) nested about `d` deep: "dict" {"k": {"k": ...}}, "mixed" {"k": [{"k": [...]}]} (both are what
    txedge.nested builds, so the replay encoding gives them back exactly), "list" a list nest under the SECOND key of
    the data dict ({"title": ..., "tree": [[[...]]]})"""
    if shape == "dict":
        return tx.nested(d, "dict", leaf)
    if shape == "mixed":
        return tx.nested(d + d % 2, "mixed", leaf)
    return {"title": leaf, "tree": tx.nested(d, "list", leaf)}


def changed(objs, before, what):
    """txedge.changed, usable on deeply nested data too"""
    if not any(is_deep(b[5]) for b in before):
        return tx.changed(objs, before, what)
    if len(objs) != len(before):
        return f"the {what} list has {len(objs)} elements, had {len(before)}"
    for k, (o, (i, oid, t, d, di, data, fields)) in enumerate(zip(objs, before)):
        if id(o) != i or o.id != oid or o.timestamp != t or o.duration != d or sorted(dict.keys(o), key=str) != fields:
            return f"{what} {k} changed: now (id, ts_us, dur_us) = ({o.id}, {us_of_dt(o.timestamp)}, {us_of_td(o.duration)})"
        if id(o.data) != di:
            return f"{what} {k}: its data dict was replaced by another object"
        if not same_typed(o.data, data):
            return f"{what} {k}: data changed: now {show(o.data)}, was {show(data)}"
    return None


def mutable_ids(v, acc):
    """identities of the dicts / lists reachable from a data value (iterative)"""
    stack = [v]
    while stack:
        x = stack.pop()
        if isinstance(x, dict):
            if id(x) in acc:
                continue
            acc.add(id(x))
            stack.extend(x.values())
        elif isinstance(x, (list, tuple)):
            if isinstance(x, list):
                if id(x) in acc:
                    continue
                acc.add(id(x))
            stack.extend(x)
    return acc


def data_label(labels, data):
    """the harness label of a data value (one per == class); a deeply nested value is labelled through its JSON
    description so that the shared label table never has to compare (or print) 900-level nests"""
    if is_deep(data):
        return labels.label("<deep> " + json.dumps(tx.enc(data), sort_keys=True))
    return labels.label(data)


class Cx:
    def __init__(self, ck, Event, fpi, labels, c09):
        self.ck, self.Event, self.fpi, self.labels, self.c09 = ck, Event, fpi, labels, c09
        self.reported = {}

    def view(self, e):
        return (e.id, us_of_dt(e.timestamp), us_of_td(e.duration), data_label(self.labels, e.data))

    def views(self, objs):
        return [self.view(e) for e in objs]


# --------------------------------------------------------------------------- one call, observed and judged


def norm_specs(specs):
    """specs whose data went through the replay encoding (what the replay file will rebuild is what was run)"""
    return [(t, d, tx.dec(tx.enc(x)), i) for (t, d, x, i) in specs]


def reference(cx, kind, A, B, count_copies=False):
    """the list case on equal fresh objects, no fault, room for deep copies: (canonical result, returned events,
    number of deepcopy invocations or None)"""
    a, b = tx.build(cx.Event, A), tx.build(cx.Event, B)
    fn = getattr(cx.fpi, FN[kind])
    n = None
    try:
        if count_copies:
            with tx.DeepcopyFault(None) as df:
                out = fn(a, b)
            n = df.calls
        else:
            out = fn(a, b)
        out = list(out)
        return [0, cx.views(out)], out, n
    except Exception as ex:  # noqa: BLE001 -- the class is the observable
        return [1, cx.c09.errcode(ex)], [], n


def run_case(cx, case, ref=None):
    """case = {"kind": "isect" | "union", "plan": (container kind, container kind), "A": specs, "B": specs,
               "fault": None | {"deepcopy_raises": "MemoryError", "nth": k}, "allow": () | (exception classes the
               call may raise - the fault)}
    -> record {"bad", "clause", "res", "va", "vb", "outcome", "observed"}; ref = reference(...) of the same specs
    when the case has to be compared with the list / fault-free run."""
    kind, (ka, kb), A, B = case["kind"], case["plan"], case["A"], case["B"]
    fault, allow = case.get("fault"), tuple(case.get("allow", ()))
    oa, ob = tx.build(cx.Event, A), tx.build(cx.Event, B)
    ha, hb = tx.Handed(ka, oa), tx.Handed(kb, ob)
    va, vb = cx.views(oa), cx.views(ob)
    sa, sb = tx.snap(oa), tx.snap(ob)
    fn = getattr(cx.fpi, FN[kind])
    fired = None
    if fault:
        import builtins
        with tx.DeepcopyFault(fault["nth"], getattr(builtins, fault["deepcopy_raises"])) as df:
            how, val = tx.under_default_limit(fn, ha.arg, hb.arg)
        fired = df.fired
    else:
        how, val = tx.under_default_limit(fn, ha.arg, hb.arg)
    rec = {"va": va, "vb": vb, "fired": fired, "bad": None, "clause": None}
    out = []
    if how == "raised":
        rec["res"] = [1, cx.c09.errcode(val)]
        rec["outcome"] = "raises " + type(val).__name__
        rec["observed"] = {"raises": "%s: %s" % (type(val).__name__, str(val)[:160])}
    else:
        try:
            out = list(val)
            rec["res"] = [0, cx.views(out)]
            rec["outcome"] = "returns"
            rec["observed"] = {"returns(id,ts_us,dur_us,data)": [[e.id, us_of_dt(e.timestamp), us_of_td(e.duration), show(e.data, 300)]
                                                                   for e in out[:40]], "n": len(out)}
        except Exception as ex:  # noqa: BLE001 -- not a list of events
            rec["res"] = [1, 10]
            rec["outcome"] = "returns something that is not a list of events"
            rec["observed"] = {"returns": show(val), "reading_it_raises": type(ex).__name__}
            how, val = "raised", ex
    # ---- the caller's objects
    mod = ha.touched() or hb.touched()
    if mod is None and kind == "isect":
        mod = changed(oa, sa, "input event (events)") or changed(ob, sb, "input event (filterevents)")
        if mod is None and out:
            ins = {id(o) for o in oa + ob}
            if any(id(o) in ins for o in out):
                mod = "an output event is an input object (not a copy)"
            else:
                inner, outer = set(), set()
                for o in oa + ob:
                    mutable_ids(o.data, inner)
                for o in out:
                    mutable_ids(o.data, outer)
                if inner & outer:
                    mod = "an output event shares a dict / list inside its data with an input event (not a deep copy)"
    # ---- verdict
    bad = None
    if how == "raised":
        if allow and isinstance(val, allow):
            if mod:
                bad = "not-modified: %s (the call raised %s)" % (mod, type(val).__name__)
        elif allow:
            bad = "fault: " + tx.fault_outcome("raised", val, None, allow)
        else:
            bad = "raises: %s: %s" % (type(val).__name__, str(val)[:120])
    else:
        if kind == "isect":
            bad = cx.c09.oracle_isect(va, vb, rec["res"], mod, cx.labels)
        else:
            bad = ("container: " + mod) if mod else cx.c09.oracle_union(va, vb, rec["res"], cx.labels)
        if bad is None and kind == "isect":       # "each piece carries e's data": typed
            for o, ov in zip(out, rec["res"][1]):
                src = [e for e, ev in zip(oa, va) if ev[0] == ov[0] and ev[3] == ov[3]]
                if src and not any(same_typed(o.data, e.data) for e in src):
                    bad = "carries-data: piece (id %r, ts %d, dur %d) has data %s, its event has %s" % (
                        ov[0], ov[1], ov[2], show(o.data), show(src[0].data))
                    break
        if bad is None and ref is not None:
            rres, rout, _ = ref
            word = "fault" if (fault or allow) else "container"
            if rres != rec["res"]:
                bad = "%s: returned %s where the %s returns %s" % (
                    word, cx.c09.brief(rec["res"][1] if rec["res"][0] == 0 else rec["res"]),
                    "fault-free call" if word == "fault" else "same call with two lists",
                    cx.c09.brief(rres[1] if rres[0] == 0 else rres))
            elif any(not same_typed(o.data, r.data) for o, r in zip(out, rout)):
                bad = "%s: the returned events' data differ in TYPE from what the %s returns" % (
                    word, "fault-free call" if word == "fault" else "same call with two lists")
    rec["bad"] = bad
    rec["clause"] = bad.split(":")[0] if bad else None
    return rec


def fault_text(case):
    f = case.get("fault")
    if f:
        return " with copy.deepcopy raising %s once (at step %d of the call's copies: top-level deepcopy invocations and copies of " \
               "Fragile data values, txedge.DeepcopyFault)" % (f["deepcopy_raises"], f["nth"])
    if case.get("allow"):
        return " under the default recursion limit (data nested up to %d deep)" % max(
            [nest_depth(x) for _, _, x, _ in case["A"] + case["B"]] + [0])
    return ""


def replay_of(cx, case, rec):
    r = tx.edge_replay(module=MOD, name=FN[case["kind"]], lists=[(case["plan"][0], case["A"]), (case["plan"][1], case["B"])],
                       fault=case.get("fault"), limit=tx.DEFAULT_LIMIT if case.get("allow") else None,
                       note="events(ts_us,dur_us,data,id): absolute microseconds; the call is made with the two containers named; "
                            "`violated` is the clause of the property statement (or of the fault / container rule of "
                            "harness/c09_edge.py) the outcome breaks",
                       observed=rec.get("observed"))
    r["violated"] = rec["bad"]
    r["rerun"] = "cd %s && VERIF_REPO=%s PYTHONPATH=%s:%s /venv/bin/python -m harness.c09_replay --edge <this file>   (re-runs the " \
                 "call and prints the oracle's verdict);  ... -m harness.txedge replay <this file>   (prints what the call returns or " \
                 "raises)" % (common.VERIF, common.REPO, common.REPO, common.VERIF)
    return r


def needs_ref(case):
    return case["plan"] != ("list", "list") or bool(case.get("fault")) or bool(case.get("allow"))


def judge(cx, case):
    ref = reference(cx, case["kind"], case["A"], case["B"]) if needs_ref(case) else None
    return run_case(cx, case, ref)


def report(cx, case, rec, what):
    """shrink (the event lists; container kinds, fault and order stay) and file the failing input"""
    ck = cx.ck
    clause = rec["clause"]
    key = (what, case["kind"], clause)
    cx.reported[key] = cx.reported.get(key, 0) + 1
    ck.count("edge:FAILS:%s:%s:%s" % key)
    if cx.reported[key] > 2:            # the same clause in the same stream: two failing inputs are kept, the rest counted
        return
    small, srec = case, rec
    if len(ck.violations) < 3 and not case.get("fault"):
        def fails(c):
            try:
                return judge(cx, c)["clause"] == clause
            except Exception:  # noqa: BLE001
                return False
        A = common.shrink_list(case["A"], lambda a: fails(dict(case, A=a)), max_steps=60)
        B = common.shrink_list(case["B"], lambda b: fails(dict(case, A=A, B=b)), max_steps=60)
        cand = dict(case, A=A, B=B)
        r2 = judge(cx, cand)
        if r2["clause"] == clause:
            small, srec = cand, r2
    ka, kb = small["plan"]
    ck.failing_input("C09:%s:%s" % (small["kind"], clause),
                     "%s(%s of %d events, %s of %d events)%s: %s" % (FN[small["kind"]], ka, len(small["A"]), kb, len(small["B"]),
                                                                      fault_text(small), srec["bad"]),
                     replay_of(cx, small, srec))


def to_model(cx, case, rec, wire, checks, empty, what):
    c09 = cx.c09
    nums = [n for v in rec["va"] + rec["vb"] for n in (v[1], v[2], v[1] + v[2])]
    if not tx.wire_ok(nums + [sum(abs(v[2]) for v in rec["va"] + rec["vb"])]):
        cx.ck.count("edge:judged by the oracle only (numbers beyond the driver's native integers)")
        return
    if case["kind"] == "isect":
        wire.append(common.sx([0, c09.wire_events(rec["va"]), c09.wire_events(rec["vb"])]))
    else:
        wire.append(common.sx([1, empty, c09.wire_events(rec["va"]), c09.wire_events(rec["vb"])]))
    checks.append((STREAM[case["kind"]], "%s %s/%s %s" % (what, case["plan"][0], case["plan"][1],
                                                          json.dumps([[list(v) for v in rec["va"]], [list(v) for v in rec["vb"]]])[:500]),
                   c09.canon_out(rec["res"]), lambda: {"edge": replay_of(cx, case, rec), "impl": rec["res"]}))     # built on a disagreement only


# --------------------------------------------------------------------------- layouts

# (start, length) in grid units; both lists free of internal overlap unless said otherwise
LAYOUTS = [
    (((2, 7), (12, 8)), ((0, 6), (8, 3), (13, 3), (18, 4))),               # docstring of filter_period_intersect
    (((0, 20),), ((1, 2), (3, 0), (3, 4), (7, 1), (8, 12))),               # one spanning many, touching, zero-length
    (((0, 4), (4, 3), (7, 0), (9, 6)), ((1, 2), (3, 4), (10, 1), (12, 9))),  # several pieces per event on both sides
    (((0, 5), (5, 5)), ((0, 5), (5, 5))),                                  # identical chains
    (((3, 4),), ((5, 5),)),                                                # one against one
]
LAYOUTS_ANY = [
    (((0, 6), (2, 6), (4, 1)), ((1, 4), (3, 9), (30, 2))),                 # overlapping within and across (union's domain)
    ((), ((0, 3), (3, 3), (9, 0))),
    (((0, 3), (10, 3)), ()),
]
# layouts where a merge / piece that silently goes missing shows: overlapping, touching, nested, chains
FAULT_UNION = [
    (((0, 5), (20, 1)), ((3, 5),)),
    (((0, 5), (20, 1)), ((5, 5), (9, 2))),
    (((0, 10),), ((2, 3), (4, 1))),
    (((0, 3), (3, 3), (6, 3)), ((1, 1), (9, 0), (30, 1))),
]
FAULT_ISECT = [
    (((0, 20),), ((1, 2), (5, 3), (10, 4))),
    (((2, 7), (12, 8)), ((0, 6), (8, 3), (13, 3), (18, 4))),
    (((0, 5), (5, 5)), ((0, 5), (5, 5))),
]


def specs_of(units, unit, tag, t0=BASE, data=None):
    return [(t0 + s * unit, d * unit, data(i) if data else dict(PLAIN_POOL[(i + tag) % 3]), 10 * tag + i)
            for i, (s, d) in enumerate(units)]


def ordered(specs, how, rng):
    s = sorted(specs, key=lambda x: x[0])
    if how == "desc":
        return s[::-1]
    if how == "shuffled":
        rng.shuffle(s)
    return s


ORDERS = [("asc", "asc"), ("desc", "desc"), ("asc", "desc"), ("shuffled", "shuffled")]


# --------------------------------------------------------------------------- the streams


def handle(cx, case, wire, checks, empty, what, ref=None, model=True):
    """run + judge one case of the judged set; -> record"""
    ck = cx.ck
    try:
        rec = run_case(cx, case, ref if ref is not None else (reference(cx, case["kind"], case["A"], case["B"]) if needs_ref(case) else None))
    except RecursionError as ex:       # a harness-side helper gave up on a deep value: not silent, not the end of the run
        ck.count("edge:harness-could-not-judge")
        ck.disagreement("edge streams", "the harness could not judge a %s case of %s (%s in a harness helper)" % (what, FN[case["kind"]], type(ex).__name__),
                        {"case": [case["kind"], list(case["plan"]), len(case["A"]), len(case["B"])]})
        return {"bad": "harness", "clause": "harness", "res": [1, 10], "va": [], "vb": [], "outcome": "not judged", "fired": None}
    ck.count("edge:%s:%s" % (what, case["kind"]))
    nontrivial = rec["res"][0] == 0 and len(rec["res"][1]) > 0
    ck.note_case(["edge", what, case["kind"], list(case["plan"]), case.get("fault"), [list(v) for v in rec["va"]], [list(v) for v in rec["vb"]]],
                 nontrivial=nontrivial)
    if rec["bad"]:
        report(cx, case, rec, what)
    elif model and rec["res"][0] == 0:
        to_model(cx, case, rec, wire, checks, empty, what)
    return rec


def stream_containers(cx, wire, checks, empty, n_random):
    ck, rng = cx.ck, cx.ck.rng
    for kind in ("isect", "union"):
        plans = tx.container_plans(FN[kind])
        layouts = LAYOUTS + (LAYOUTS_ANY if kind == "union" else LAYOUTS_ANY[:1])
        for li, (ua, ub) in enumerate(layouts):
            for unit in ((1000,) if li else (1000, 1_000_000)):
                for oa_, ob_ in ORDERS:
                    A = ordered(specs_of(ua, unit, 1), oa_, rng)
                    B = ordered(specs_of(ub, unit, 2), ob_, rng)
                    ref = reference(cx, kind, A, B)
                    for plan in plans:
                        rec = handle(cx, {"kind": kind, "plan": plan, "A": A, "B": B}, wire, checks, empty, "container", ref=ref)
                        ck.count("container:%s/%s+%s: %s" % (FN[kind], plan[0], plan[1], "as the list case" if not rec["bad"] else "DIFFERS"))
        # combinations the unchanged tree does not support: run, counted, never judged
        for plan in tx.left_out_plans(FN[kind]) + ([("list", "tuple"), ("deque", "list"), ("iter", "iter")] if kind == "union" else []):
            A, B = specs_of(LAYOUTS[0][0], 1000, 1), specs_of(LAYOUTS[0][1], 1000, 2)
            oa, ob = tx.build(cx.Event, A), tx.build(cx.Event, B)
            how, val = tx.under_default_limit(getattr(cx.fpi, FN[kind]), tx.wrap(plan[0], oa), tx.wrap(plan[1], ob))
            ck.count("container-left-out:%s/%s+%s: %s" % (FN[kind], plan[0], plan[1],
                                                          "raises " + type(val).__name__ if how == "raised" else "returns %d events" % len(list(val))))
    # seeded random: any pair of kinds for the intersection, the supported pairs for the union
    c09 = cx.c09
    for _ in range(n_random):
        kind = rng.choice(["isect", "isect", "union"])
        unit = rng.choice([1000, 1000, 1_000_000, 60_000_000])
        if kind == "isect":
            A, B = c09.rand_chain(rng, unit, rng.randrange(0, 7), 1), c09.rand_chain(rng, unit, rng.randrange(0, 7), 2)
            plan = (rng.choice(tx.ALL_KINDS), rng.choice(tx.ALL_KINDS))
            if rng.random() < 0.3:
                plan = (plan[0], "list") if rng.random() < 0.5 else ("list", plan[1])
        else:
            A, B = c09.rand_any(rng, unit, rng.randrange(0, 6), 1), c09.rand_any(rng, unit, rng.randrange(0, 6), 2)
            plan = rng.choice(tx.SUPPORT["period_union"]["pairs"])
        if rng.random() < 0.4:
            A = sorted(A, key=lambda x: x[0])
        if rng.random() < 0.4:
            B = sorted(B, key=lambda x: x[0])
        if rng.random() < 0.15:
            B = B[::-1]
        handle(cx, {"kind": kind, "plan": plan, "A": A, "B": B}, wire, checks, empty, "container-random")


def stream_data_types(cx, wire, checks, empty, n_random):
    ck, rng = cx.ck, cx.ck.rng
    kinds = list(tx.DICT_KINDS) + ["defaultdict(int)"]

    def typed(kind_of):
        return lambda i: tx.exotic(PLAIN_POOL[i % 3], kind_of(i))
    for dk in kinds:
        for li, (ua, ub) in enumerate(LAYOUTS[:3] + LAYOUTS_ANY[:1]):
            for kind in ("isect", "union"):
                if kind == "isect" and li == 3:
                    continue
                for sides in ("events", "both"):
                    A = norm_specs(specs_of(ua, 1000, 1, data=typed(lambda i: dk)))
                    B = norm_specs(specs_of(ub, 1000, 2, data=typed(lambda i: dk) if sides == "both" else None))
                    plan = ("list", "list") if sides == "events" else (("generator", "tuple") if kind == "isect" else ("listsub", "list"))
                    rec = handle(cx, {"kind": kind, "plan": plan, "A": A, "B": B}, wire, checks, empty, "data-type")
                    ck.count("data-type:%s:%s" % (dk, "ok" if not rec["bad"] else "FAILS"))
    for _ in range(n_random):
        kind = rng.choice(["isect", "isect", "union"])
        unit = rng.choice([1000, 1_000_000])
        mk = cx.c09.rand_chain if kind == "isect" else cx.c09.rand_any
        A = [(t, d, tx.exotic(rng.choice(PLAIN_POOL), rng.choice(kinds + ["plain"])), i) for t, d, _, i in mk(rng, unit, rng.randrange(1, 6), 1)]
        B = [(t, d, tx.exotic(rng.choice(PLAIN_POOL), rng.choice(kinds + ["plain"])), i) for t, d, _, i in mk(rng, unit, rng.randrange(1, 6), 2)]
        plan = ("list", "list") if rng.random() < 0.6 else ((rng.choice(tx.ALL_KINDS), rng.choice(tx.ALL_KINDS)) if kind == "isect"
                                                            else rng.choice(tx.SUPPORT["period_union"]["pairs"]))
        handle(cx, {"kind": kind, "plan": plan, "A": norm_specs(A), "B": norm_specs(B)}, wire, checks, empty, "data-type-random")


def in_domain(specs):
    """the domain of the extremes stream: start and END of every event are representable datetimes (and the
    duration is not negative)"""
    return all(d >= 0 and tx.in_range(t) and tx.in_range(t + d) for t, d, _, _ in specs)


def stream_extremes(cx, wire, checks, empty, n_random):
    ck, rng = cx.ck, cx.ck.rng
    far = sorted(tx.FAR_INSTANTS)
    cases = []
    # every small layout moved to every far instant, in milliseconds and in days
    for t0 in far:
        for unit in (1000, tx.DAY):
            for (ua, ub) in (LAYOUTS[0], LAYOUTS[2], LAYOUTS_ANY[0]):
                cases.append((specs_of(ua, unit, 1, t0), specs_of(ub, unit, 2, t0)))
    # one event over (nearly) the whole datetime range against short ones in every millennium, and the reverse
    lo, hi = tx.DT_MIN_US, tx.DT_MAX_MS
    giant = [(lo, hi - lo, {"app": "everything"}, 1)]
    shorts = []
    for k, (t, d) in enumerate(zip(far, [1000, tx.DAY, 400 * tx.DAY, 1000, tx.DAY + 1000] * 5)):
        if t + d <= hi and (not shorts or t >= shorts[-1][0] + shorts[-1][1]):
            shorts.append((t, d, dict(PLAIN_POOL[k % 3]), 20 + k))
    cases += [(giant, shorts), (shorts, giant), (giant, giant), (shorts[::-1], shorts[1::2])]
    # durations at and beyond 2**53 us, ends at the last millisecond
    for dur in tx.EXTREME_DURS_MS:
        for t0 in (far[0], far[2], tx.instant(1969), tx.instant(2243), hi - dur, hi - dur - 1000):
            a = [(t0, dur, {"app": "long"}, 1)]
            b = [(t0 + 1000, dur - 2000, {"s": 1}, 11), (t0 + dur - 1000, 1000, {"s": 2}, 12), (t0 + dur, 0, {"s": 3}, 13)]
            c = [(t0 + dur // 2000 * 1000, dur, {"s": 4}, 14)]
            cases += [(a, b), (b, a), (a, c)]
    for A, B in cases:
        for kind in ("isect", "union"):
            case = {"kind": kind, "plan": ("list", "list"), "A": A, "B": B}
            if in_domain(A) and in_domain(B):
                if kind == "isect" and not (cx.c09.wide_ok([(t, d) for t, d, _, _ in A]) and cx.c09.wide_ok([(t, d) for t, d, _, _ in B])):
                    ck.count("edge:extremes:isect-outside-the-intersection-domain")
                handle(cx, case, wire, checks, empty, "extremes")
            else:
                left_out_extreme(cx, case)
    units = [1000, 1_000_000, tx.DAY, 365 * tx.DAY, 36_500 * tx.DAY]
    for _ in range(n_random):
        kind = rng.choice(["isect", "union"])
        unit = rng.choice(units)
        t0 = rng.choice(far) + rng.choice([0, 0, 1000, -1000, 86_399_000])
        mk = cx.c09.rand_chain if kind == "isect" and rng.random() < 0.8 else cx.c09.rand_any
        A = [(t - BASE + t0, d // 1000 * 1000, x, i) for t, d, x, i in mk(rng, unit, rng.randrange(1, 6), 1)]
        B = [(t - BASE + t0, d // 1000 * 1000, x, i) for t, d, x, i in mk(rng, unit, rng.randrange(1, 6), 2)]
        if rng.random() < 0.5:          # the latest event gets an extreme duration (keeps a chain a chain)
            L = rng.choice([A, B])
            k = max(range(len(L)), key=lambda j: L[j][0])
            L[k] = (L[k][0], rng.choice(tx.EXTREME_DURS_MS + [tx.DT_MAX_MS - L[k][0]]), L[k][2], L[k][3])
        case = {"kind": kind, "plan": ("list", "list"), "A": A, "B": B}
        if in_domain(A) and in_domain(B):
            handle(cx, case, wire, checks, empty, "extremes-random")
        else:
            left_out_extreme(cx, case)


def left_out_extreme(cx, case):
    """outside the domain (a start or an end is not a representable datetime): run when the events can be built at
    all, counted, never judged"""
    try:
        oa, ob = tx.build(cx.Event, case["A"]), tx.build(cx.Event, case["B"])
    except (OverflowError, ValueError) as ex:
        cx.ck.count("extremes-left-out: the events cannot be built (%s)" % type(ex).__name__)
        return
    how, val = tx.under_default_limit(getattr(cx.fpi, FN[case["kind"]]), oa, ob)
    cx.ck.count("extremes-left-out:%s: an end beyond datetime.max: %s" % (FN[case["kind"]], "raises " + type(val).__name__ if how == "raised" else "returns"))


NEST_DEPTHS = [300, 480, 494, 496, 498, 504, 520, 600, 900]
NEST_EDGE = [496, 498, 600]


def nested_specs(units, tag, depth, shape, where):
    """specs whose event `where` ("first" | "all" | "none") carry data nested `depth` deep"""
    out = []
    for i, (s, d) in enumerate(units):
        deep = where == "all" or (where == "first" and i == 0)
        out.append((BASE + s * 1000, d * 1000, deep_data(depth, shape, "leaf%d" % i) if deep else dict(PLAIN_POOL[(i + tag) % 3]), 10 * tag + i))
    return norm_specs(out)


def stream_faults(cx, wire, checks, empty, n_random):
    ck, rng = cx.ck, cx.ck.rng
    layouts = [("union", l) for l in FAULT_UNION] + [("isect", l) for l in FAULT_ISECT]

    def nest_case(kind, ua, ub, depth, shape, wa, wb, A=None, B=None):
        A = A if A is not None else nested_specs(ua, 1, depth, shape, wa)
        B = B if B is not None else nested_specs(ub, 2, depth, shape, wb)
        case = {"kind": kind, "plan": ("list", "list"), "A": A, "B": B, "allow": (RecursionError,)}
        ref = reference(cx, kind, A, B)
        rec = handle(cx, case, wire, checks, empty, "fault-nested", ref=ref, model=False)
        ck.count("fault:nested depth %s: %s" % ("<480" if depth < 480 else "480-520" if depth <= 520 else ">520", rec["outcome"]))
        if ref[0][0] == 0 and not rec["bad"]:      # the fault-free run goes to the model
            to_model(cx, dict(case, allow=()), {"va": rec["va"], "vb": rec["vb"], "res": ref[0], "bad": None, "observed": None}, wire, checks, empty, "fault-free")
    # ---- deep nesting, deterministic: the first event of the copied side; every depth on the first two layouts of each
    # function, the depths around the edge and 600 on the others; other shapes and placements on the first layout
    seen = {"union": 0, "isect": 0}
    for kind, (ua, ub) in layouts:
        first = seen[kind] == 0
        for depth in (NEST_DEPTHS if seen[kind] < 2 else NEST_EDGE):
            nest_case(kind, ua, ub, depth, "dict", "first", "none")
        seen[kind] += 1
        if first:
            for shape, depth in (("mixed", 496), ("mixed", 600), ("list", 490), ("list", 600)):
                nest_case(kind, ua, ub, depth, shape, "first", "none")
            nest_case(kind, ua, ub, 600, "dict", "all", "none")
            nest_case(kind, ua, ub, 600, "dict", "none", "first")
            nest_case(kind, ua, ub, 600, "mixed", "all", "all")
    # ---- an injected one-off MemoryError at every step of the call's copies: every top-level deepcopy invocation and,
    # inside each copy, the copy of the txedge.Fragile value every event's data carries
    def fragile(i):
        return dict(PLAIN_POOL[i % 3], f=tx.Fragile("v"))
    for kind, (ua, ub) in layouts:
        for oa_, ob_ in (("asc", "asc"), ("desc", "shuffled")):
            A, B = ordered(norm_specs(specs_of(ua, 1000, 1, data=fragile)), oa_, rng), ordered(norm_specs(specs_of(ub, 1000, 2, data=fragile)), ob_, rng)
            ref = reference(cx, kind, A, B, count_copies=True)
            n = ref[2] or 0
            ck.count("fault:copy steps per call=%s" % (n if n < 12 else ">=12"))
            where = list(range(n)) if n <= 40 else sorted({0, n - 1} | {rng.randrange(n) for _ in range(10)})
            for nth in where:
                case = {"kind": kind, "plan": ("list", "list"), "A": A, "B": B, "allow": (MemoryError,),
                        "fault": {"deepcopy_raises": "MemoryError", "nth": nth}}
                rec = handle(cx, case, wire, checks, empty, "fault-memoryerror", ref=ref, model=False)
                ck.count("fault:MemoryError %s: %s" % ("fired" if rec["fired"] else "not reached", rec["outcome"]))
    # ---- seeded random: layout, depth around the edge or far beyond, placement; MemoryError at a random invocation
    c09 = cx.c09
    for _ in range(n_random):
        kind = rng.choice(["isect", "union"])
        unit = rng.choice([1000, 1_000_000])
        if kind == "isect":
            A, B = c09.rand_chain(rng, unit, rng.randrange(1, 5), 1), c09.rand_chain(rng, unit, rng.randrange(1, 6), 2)
        else:
            A, B = c09.rand_any(rng, unit, rng.randrange(1, 5), 1), c09.rand_any(rng, unit, rng.randrange(0, 5), 2)
        if rng.random() < 0.5:
            depth = rng.choice([rng.randrange(470, 530), rng.randrange(470, 530), rng.randrange(530, 901), rng.randrange(100, 470)])
            shape = rng.choice(["dict", "dict", "mixed", "list"])
            for L in (A, B) if rng.random() < 0.3 else (A,):
                for k in rng.sample(range(len(L)), rng.randrange(1, len(L) + 1)) if L else []:
                    L[k] = (L[k][0], L[k][1], deep_data(depth, shape, "leaf%d" % k), L[k][3])
            nest_case(kind, None, None, depth, shape, None, None, A=norm_specs(A), B=norm_specs(B))
        else:
            A = norm_specs([(t, d, dict(x or {"app": "a"}, f=tx.Fragile("v")), i) for t, d, x, i in A])
            B = norm_specs([(t, d, dict(x or {"app": "a"}, f=tx.Fragile("v")), i) for t, d, x, i in B])
            ref = reference(cx, kind, A, B, count_copies=True)
            n = ref[2] or 0
            if not n:
                ck.count("fault:MemoryError: the call copies nothing")
                continue
            case = {"kind": kind, "plan": ("list", "list"), "A": A, "B": B, "allow": (MemoryError,),
                    "fault": {"deepcopy_raises": "MemoryError", "nth": rng.randrange(n)}}
            rec = handle(cx, case, wire, checks, empty, "fault-memoryerror-random", ref=ref, model=False)
            ck.count("fault:MemoryError %s: %s" % ("fired" if rec["fired"] else "not reached", rec["outcome"]))


def run(ck, Event, fpi, labels, wire, checks, empty, c09):
    """the round-5 streams of the C09 check (called from c09.main)"""
    t0 = time.time()
    cx = Cx(ck, Event, fpi, labels, c09)
    quick = ck.tier == "quick"
    n0 = ck.evaluations
    sizes = {}
    with tx.harness_limit():
        for name, fn, n in (("containers", stream_containers, 300 if quick else 6000),
                            ("data_types", stream_data_types, 120 if quick else 3000),
                            ("extremes", stream_extremes, 300 if quick else 6000),
                            ("faults", stream_faults, 80 if quick else 2000)):
            t1, e1 = time.time(), ck.evaluations
            fn(cx, wire, checks, empty, n)
            sizes[name] = {"calls_judged": ck.evaluations - e1, "seeded_random": n, "wall_s": round(time.time() - t1, 2)}
    ck.coverage["round5"] = {"streams": sizes, "calls_judged": ck.evaluations - n0, "wall_s": round(time.time() - t0, 2),
                             "container_kinds": list(tx.ALL_KINDS), "dict_kinds": list(tx.DICT_KINDS) + ["defaultdict(int)"],
                             "nest_depths": NEST_DEPTHS, "nest_depths_seeded_random": "100..900, half of them 470..530",
                             "extremes_domain": "start and start+duration of every event are representable datetimes "
                                                "(year 1 .. 9999-12-31T23:59:59.999), durations up to the whole range"}


# --------------------------------------------------------------------------- replay with the oracle's verdict


def replay_main(path):
    """python -m harness.c09_replay --edge <replay file>"""
    import importlib
    common.setup_impl_env()
    from aw_core.models import Event
    from . import c09
    obj = json.load(open(path))
    r = obj.get("replay", obj)
    c = r.get("edge_call") or (r.get("edge") or {}).get("edge_call")
    if not c:
        for x in obj.get("other_failing_inputs", []) + [{"replay": d} for d in obj.get("disagreements", [])]:
            rr = x.get("replay", {})
            c = rr.get("edge_call") or (rr.get("edge") or {}).get("edge_call")
            if c:
                break
    if not c:
        print("no edge_call in", path)
        return 2
    kind = {v: k for k, v in FN.items()}[c["name"]]
    fpi = importlib.import_module(c["module"])
    cx = Cx(None, Event, fpi, common.Labels(), c09)
    with tx.harness_limit():
        lists = [[(t, d, tx.dec(x), i) for t, d, x, i in l["events(ts_us,dur_us,data,id)"]] for l in c["lists"]]
        fault = c.get("fault")
        allow = (MemoryError,) if fault else ((RecursionError,) if c.get("recursion_limit") else ())
        case = {"kind": kind, "plan": (c["lists"][0]["container"], c["lists"][1]["container"]), "A": lists[0], "B": lists[1],
                "fault": fault, "allow": allow}
        rec = judge(cx, case)
        print("%s(%s of %d events, %s of %d events)%s" % (c["name"], case["plan"][0], len(lists[0]), case["plan"][1], len(lists[1]), fault_text(case)))
        print("inputs :", rec["va"], rec["vb"])
        print("outcome:", rec["outcome"], json.dumps(rec["observed"])[:1500])
        print("oracle :", rec["bad"] or "ok")
    return 1 if rec["bad"] else 0
