"""C08 (round 5): heartbeat_merge / heartbeat_reduce on EDGE INPUT TYPES, NUMERIC EXTREMES and under FAULTS
(generic part: harness/txedge.py; hook: `c08_edge.run(R)` at the end of c08_hist.run, before the model comparison).

  container  heartbeat_reduce pops the head of its argument, so only a list and a list subclass are containers the
             unchanged tree accepts (txedge.SUPPORT); those are judged like every other call (oracle, typed output
             data, model); tuple / deque / generator / iter(list) are run and only COUNTED (they raise).
  dicttype   events whose data are dict subclasses with __missing__ (defaultdict(str) / (list), Counter, a plain
             __missing__), OrderedDict, str / int subclasses as values, in every pairing with the plain dict of
             the same items: the rule compares data with ==, so the expectation is the plain-dict reading; the
             output carries the very (typed) data of the first event; no key may be ADDED to an input's data.
  extreme    the statement quantifies over all pairs and all pulsetimes: durations at and beyond 2**53 us, up to
             timedelta.max; heartbeats whose own end (timestamp + duration) is NOT a representable datetime;
             pulsetimes of 86399 / 86400 / 86401 s and 400 days; timestamps from year 1 to year 9999.
             Domain of the judged cases = what the unchanged code computes without overflow: the FIRST event's end
             and end + pulsetime are representable datetimes, (start2 - start1) + duration2 is a representable
             timedelta (the code does datetime arithmetic on the first event only - Model/Heartbeat.v is exact
             integers).  Cases outside are run and counted (`extreme-out-of-domain: raises OverflowError`).
  fault      data nested 300 / 600 / 900 deep (equal and differing at the leaf): the call returns the rule's result
             or raises RecursionError - never another result; a one-off MemoryError injected into copy.deepcopy
             (the unchanged functions never copy: the dry run counts 0 invocations and the stream says so).
"""
import copy
import time

from . import common
from . import txedge as TE
from . import txhist as TX
from .evutil import BASE, ev_wire, pulse_us

MODULE = "aw_transform.heartbeats"
S = 1_000_000


class HbEdge:
    """stands in for the module in c08.run_impl: hands the list over as a container, runs the call under the
    interpreter's default recursion limit, optionally with a deepcopy fault"""

    def __init__(self, mod, kind="list", fault=None):
        self.mod, self.kind, self.fault = mod, kind, fault
        self.last = None
        self.raised = None
        self.copies = 0

    def _go(self, fn, *args):
        self.last = self.raised = None
        with TE.DeepcopyFault(self.fault) as f:
            how, val = TE.under_default_limit(fn, *args)
        self.copies = f.calls
        if how == "raised":
            self.raised = val
            raise val
        self.last = val
        return val

    def heartbeat_merge(self, a, b, p):
        return self._go(self.mod.heartbeat_merge, a, b, p)

    def heartbeat_reduce(self, evs, p):
        return self._go(self.mod.heartbeat_reduce, TE.wrap(self.kind, evs) if self.kind != "list" else evs, p)


def merge_domain(lt, ld, ht, hd, P, same):
    """does the unchanged code get through heartbeat_merge(last, hb) without an OverflowError?  (it adds the FIRST
    event's duration and the pulsetime to a datetime; the second event only enters timedelta arithmetic)"""
    if not same:
        return True
    if not (TE.in_range(lt + ld) and TE.in_range(lt + ld + P)):
        return False
    if lt <= ht <= lt + ld + P:
        return abs((ht - lt) + hd) <= TE.TD_MAX_US
    return True


def reduce_domain(evs, P):
    """the same along the statement's left fold"""
    acc = None
    for (t, d, x, *_) in evs:
        if acc is not None:
            lt, ld, lx = acc
            if not merge_domain(lt, ld, t, d, P, lx == x):
                return False
            if lx == x and lt <= t <= lt + ld + P and ld >= 0:
                acc = (lt, max(ld, t - lt + d), lx)
                if acc[1] > TE.TD_MAX_US:
                    return False
                continue
        acc = (t, d, x)
    return True


class Edge:
    def __init__(self, R):
        self.R, self.ck = R, R.ck
        import importlib
        self.mod = importlib.import_module(MODULE)
        R.mk_event = TE.mk_event        # the oracle's own events: the same constructor, UTC at the two ends of the datetime range
        self.n = {}

    def one(self, stream, kind, p, specs, container="list", fault=None, allow=(), judged=True):
        """Build fresh objects from `specs` [(ts, dur, data, id)], call, judge.  `allow`: exception classes the
        stream's fault rule accepts instead of a result.  -> (verdict text or None, the stand-in)"""
        R, ck = self.R, self.ck
        route = f"edge:{container}" + (f"+deepcopy-fault@{fault}" if fault is not None else "")
        H = HbEdge(self.mod, container, fault)
        R.routes[route] = H
        with TE.harness_limit():
            objs = TE.build(R.Event, specs)
            held = list(objs)
            data_before = [(id(o.data), copy.deepcopy(o.data)) for o in held]
            if not judged:        # outside the domain / an unsupported container: what happens is counted, the statement not evaluated
                try:
                    (H.heartbeat_merge(objs[0], objs[1], p) if kind == "merge" else H.heartbeat_reduce(objs, p))
                except Exception:  # noqa: BLE001    H.raised has it
                    pass
                del R.routes[route]
                ck.count("stream:" + stream)
                ck.count(f"{stream}:{kind}")
                return None, H
            try:
                case, out, bad = R.verdict(kind, p, objs, route)
            except Exception as ex:  # noqa: BLE001    the oracle re-applies the implementation's own merge / reduce
                out, bad = None, f"raises: heartbeat_merge / heartbeat_reduce raised {type(ex).__name__} while the statement was evaluated"
            if bad and bad.startswith("raises") and H.raised is not None and isinstance(H.raised, tuple(allow)):
                ck.count(f"{stream}:raises {type(H.raised).__name__} (allowed by the fault rule)")
                bad, out = None, "raised"
            if not bad:
                for k, (o, (i, d)) in enumerate(zip(held, data_before)):
                    if id(o.data) != i or not TE.same_typed(o.data, d):
                        added = [key for key in o.data if key not in d] if isinstance(o.data, dict) else []
                        bad = (f"input data: the data of argument event {k} " + ("was replaced by another object" if id(o.data) != i else "changed")
                               + (f" (key(s) {added} ADDED to a {TE.dict_kind(o.data)})" if added else "") + f": now {TE.show(o.data)}, was {TE.show(d)}")
                        break
        del R.routes[route]
        ck.count("stream:" + stream)
        ck.count(f"{stream}:{kind}")
        rep = lambda: TE.edge_replay(MODULE, "heartbeat_" + kind, [(container, specs)], scalars=[p], unpack=(kind == "merge"),   # noqa: E731
                                     fault=({"deepcopy_raises": "MemoryError", "nth": fault} if fault is not None else None),
                                     observed=out if out is None or isinstance(out, str) or len(out) < 30 else out[:30])
        ck.note_case([stream, container, kind, pulse_us(p), [(t, d, TE.show(x, 80), i) for t, d, x, i in specs[:40]], len(specs)],
                     nontrivial=out not in (None, "raised") and (kind == "merge" or len(out) < len(specs)))
        if bad:
            ck.failing_input("C08:" + bad.split(":")[0], f"[{stream}/{route}] " + bad, rep())
        if not TE.wire_ok([v for t, d, _, _ in specs for v in (t, d, t + d)] + [pulse_us(p)]):
            ck.count(f"{stream}: beyond the driver's 63-bit integers (oracle only)")
        elif out != "raised" and not (bad or "").startswith("raises"):
            with TE.harness_limit():
                views = [ev_wire((i, t, d, R.labels.label(x))) for t, d, x, i in specs]
            w = common.sx([0, pulse_us(p), views[0], views[1]]) if kind == "merge" else common.sx([1, pulse_us(p), views])
            R.pending.append((kind, w, out, rep))
        return bad, H


# --------------------------------------------------------------------------- generators


def gen_dicttype(rng, n_random):
    base = [{"app": "a", "n": 1}, {"app": "a"}, {"title": "x", "app": "b", "n": 2}]
    kinds = list(TE.DICT_KINDS) + ["defaultdict(int)", "plain"]
    for d in base[:2]:
        for k1 in kinds:
            for k2 in (k1, "plain", "defaultdict(str)"):
                for other in (None, {"app": "b"}):
                    x1 = TE.exotic(d, k1)
                    x2 = TE.exotic(d if other is None else other, k2)
                    yield ("merge", 2, [(BASE, 2 * S, x1, 1), (BASE + 3 * S, S, x2, None)])
                    yield ("merge", 0, [(BASE, 2 * S, x1, None), (BASE + 2 * S, S, x2, 2)])
                yield ("reduce", 2, [(BASE, S, TE.exotic(d, k1), 1), (BASE + 2 * S, S, TE.exotic(d, k2), 2), (BASE + 4 * S, S, TE.exotic(base[2], k1), 3),
                                     (BASE + 5 * S, 0, TE.exotic(base[2], k2), 4), (BASE + 20 * S, S, TE.exotic(d, k1), 5)])
    for _ in range(n_random):
        n = rng.choice([2, 2, 3, 5])
        t, evs = 0, []
        pool = rng.sample(base, rng.choice([1, 2]))
        for j in range(n):
            t += rng.choice([0, 1, 1, 2, 3, 5])
            evs.append((BASE + t * S, rng.choice([0, 1, 2, 4, -1]) * S, TE.exotic(rng.choice(pool), rng.choice(kinds)), rng.choice([None, j])))
        yield ("merge" if n == 2 else "reduce", rng.choice([0, 1, 2, 2.5, 5]), evs)


def gen_extreme(rng, n_random):
    """-> (kind, p, specs): pairs and short lists around the representable limits; both in and out of the domain"""
    D = [{"app": "a"}, {"app": "b"}]
    big = TE.EXTREME_DURS
    # an open-ended heartbeat: the second event lasts ~10 000 years / timedelta.max, at an equal or later start
    for lt in (BASE, TE.instant(1969), TE.instant(9998), TE.instant(2)):
        for hd in (10_000 * 365 * TE.DAY, TE.TD_MAX_US, TE.TD_MAX_US - 5 * S, 3_000 * 365 * TE.DAY + 1, TE.TWO53 + 1):
            for off in (0, 2 * S, 5 * S):
                for p in (5, 0):
                    yield ("merge", p, [(lt, 2 * S, D[0], 1), (lt + off, hd, D[0], None)])
            yield ("reduce", 5, [(lt, 2 * S, D[0], 1), (lt + S, hd, D[0], 2), (lt + 2 * S, S, D[0], 3), (lt + 3 * S, S, D[1], 4)])
    # a negative-duration heartbeat a few minutes after datetime.min (its end is before year 1)
    for off in (0, 60 * S, 300 * S):
        yield ("merge", 5, [(TE.DT_MIN_US + off, 600 * S, D[0], None), (TE.DT_MIN_US + off + 60 * S, -3600 * S, D[0], None)])
    # durations at / beyond 2**53 us on the first event, window edges exactly
    for ld in big:
        for p in (0, 1, 86400):
            P = pulse_us(p)
            for ht_off in (0, ld // 1000 * 1000, (ld + P) // 1000 * 1000, (ld + P) // 1000 * 1000 + 1000):
                for hd in (0, 1, ld, ld + 1):
                    yield ("merge", p, [(TE.instant(1000), ld, D[0], None), (TE.instant(1000) + ht_off, hd, D[0], 7)])
    # pulsetimes of a day and more: the window edge at 86399 / 86400 / 86401 s and 400 days
    for p in TE.PULSES_DAY:
        P = pulse_us(p)
        for edge in (86_399 * S, 86_400 * S, 86_401 * S, P - 1000, P, P + 1000):
            for ld in (0, S):
                yield ("merge", p, [(BASE, ld, D[0], None), (BASE + ld + edge, S, D[0], None)])
                yield ("reduce", p, [(BASE, ld, D[0], 1), (BASE + ld + edge, S, D[0], 2), (BASE + ld + edge + S + edge, S, D[0], 3)])
    # far timestamps (ms grid), ordinary durations
    for lt in TE.FAR_INSTANTS:
        for (ld, off, hd) in ((2 * S, 3 * S, S), (0, 0, 0), (2 * S, 8 * S, S), (S, 0, 5 * S)):
            if TE.in_range(lt + off + hd) and TE.in_range(lt + ld):
                yield ("merge", 2, [(lt, ld, D[0], None), (lt + off, hd, D[0], 3)])
    for _ in range(n_random):
        lt = rng.choice(TE.FAR_INSTANTS + [BASE, BASE])
        ld = rng.choice(big + [0, S, 5 * S, -S, TE.TD_MAX_US - S])
        p = rng.choice(TE.PULSES_DAY + [0, 1, 5, 2.5])
        P = pulse_us(p)
        ht = lt + rng.choice([0, 1000, ld, ld + P, ld + P + 1000, ld + P - 1000, -1000, ld // 2]) // 1000 * 1000
        hd = rng.choice(big + [0, S, TE.TD_MAX_US, TE.TD_MAX_US - abs(ht - lt), -S])
        if not (TE.in_range(lt) and TE.in_range(ht)):
            continue
        same = rng.random() < 0.8
        evs = [(lt, ld, D[0], rng.choice([None, 1])), (ht, hd, D[0] if same else D[1], rng.choice([None, 2]))]
        if rng.random() < 0.3:
            t3 = ht + rng.choice([0, S, hd // 1000 * 1000])
            if TE.in_range(t3):
                evs.append((t3, rng.choice([0, S, TE.TWO53 + 1]), D[0], 3))
        yield ("merge" if len(evs) == 2 else "reduce", p, evs)


def gen_deep():
    for depth in (300, 600, 900):
        for shape in ("dict", "list", "mixed"):
            a = {"app": "a", "blob": TE.nested(depth, shape, "x")}
            a2 = {"app": "a", "blob": TE.nested(depth, shape, "x")}
            b = {"app": "a", "blob": TE.nested(depth, shape, "y")}
            yield ("merge", 2, [(BASE, 2 * S, a, 1), (BASE + 3 * S, S, a2, None)])
            yield ("merge", 2, [(BASE, 2 * S, a, 1), (BASE + 3 * S, S, b, None)])
            yield ("reduce", 2, [(BASE, 2 * S, a, 1), (BASE + 3 * S, S, a2, 2), (BASE + 4 * S, S, b, 3), (BASE + 5 * S, S, b, 4)])


# --------------------------------------------------------------------------- the streams


def run(R, cases):
    ck = R.ck
    rng = ck.rng
    quick = ck.tier == "quick"
    t0 = time.time()
    E = Edge(R)
    TX.make_room(ck)

    # -- containers (heartbeat_reduce)
    reduces = [c for c in cases if c[0] == "reduce" and len(c[2]) >= 2]
    picked = reduces[:: max(1, len(reduces) // (150 if quick else 3000))]
    for kinds in TE.container_plans("heartbeat_reduce"):
        for (_, p, evs) in picked:
            E.one("container", "reduce", p, [(t, d, x, None) for t, d, x in evs], container=kinds[0])
    for kinds in TE.left_out_plans("heartbeat_reduce"):
        for (_, p, evs) in picked[:2]:
            bad, H = E.one("container-left-out", "reduce", p, [(t, d, x, None) for t, d, x in evs], container=kinds[0], judged=False)
            ck.count(f"container-left-out:heartbeat_reduce/{kinds[0]}: " + (f"raises {type(H.raised).__name__}" if H.raised is not None else "returns"))

    # -- data dict types
    for kind, p, specs in gen_dicttype(rng, 300 if quick else 20_000):
        E.one("dicttype", kind, p, specs)

    # -- numeric extremes
    n_in = n_out = 0
    for kind, p, specs in gen_extreme(rng, 1500 if quick else 100_000):
        P = pulse_us(p)
        if kind == "merge":
            (lt, ld, lx, _), (ht, hd, hx, _) = specs
            dom = merge_domain(lt, ld, ht, hd, P, lx == hx)
        else:
            dom = reduce_domain(specs, P)
        if dom:
            n_in += 1
            E.one("extreme", kind, p, specs)
        else:
            n_out += 1
            bad, H = E.one("extreme-out-of-domain", kind, p, specs, judged=False)
            ck.count("extreme-out-of-domain: " + (f"raises {type(H.raised).__name__}" if H.raised is not None else "returns"))

    # -- faults
    n_fault = 0
    for kind, p, specs in gen_deep():
        E.one("deep", kind, p, specs, allow=(RecursionError,))
    for kind, p, evs in [c for c in cases if len(c[2]) >= 2][:: max(1, len(cases) // 40)]:
        specs = [(t, d, x, None) for t, d, x in evs]
        bad, H = E.one("deepcopy-dry-run", kind, p, specs)
        ck.count("deepcopy invocations per call: %s" % ("0" if H.copies == 0 else ">0"))
        for nth in sorted({0, H.copies - 1, rng.randrange(max(1, H.copies))} - {-1}) if H.copies else []:
            n_fault += 1
            E.one("deepcopy-fault", kind, p, specs, fault=nth, allow=(MemoryError,))
    ck.coverage["round5"] = {
        "container": f"heartbeat_reduce on {len(picked)} corpus lists handed over as {[k[0] for k in TE.container_plans('heartbeat_reduce')]}; "
                     f"left out (counted only): {[k[0] for k in TE.left_out_plans('heartbeat_reduce')]} - {TE.OBSERVATIONS['heartbeat_reduce']}",
        "dicttype": "every pairing of " + ", ".join(TE.DICT_KINDS) + " / plain dict with equal and differing items (merge, reduce) + seeded random lists",
        "extreme": f"{n_in} cases inside the domain (first event's end + pulsetime representable, the second event only in timedelta "
                   f"arithmetic) judged by the oracle and the model; {n_out} outside run and counted",
        "fault": f"data nested 300 / 600 / 900 deep; deepcopy fault runs: {n_fault} (the unchanged functions make no copy)",
        "wall_s": round(time.time() - t0, 1)}
