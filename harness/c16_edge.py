"""C16 (round 5): the grouping / chunking / sorting / filtering transforms on EDGE INPUT TYPES, NUMERIC EXTREMES and
under FAULTS (generic part: harness/txedge.py; hook: `c16_edge.run(R, cases)` in c16_hist.run before the model comparison).

  container  every list parameter handed over as every container kind the unchanged tree handles like a list
             (txedge.SUPPORT, established by experiment): sort_by_*, sum_durations, filter_keyvals and
             merge_events_by_keys (with keys) take ANY iterable - tuple, deque, list subclass, a one-shot generator,
             iter(list), reversed / map / filter objects; chunk_events_by_key needs `events[-1]` (tuple, deque, list
             subclass); limit_events slices (tuple, list subclass); concat adds (two tuples, two deques, list
             subclasses).  Same oracle (c16.run_case: statement + before / after + identity of the returned
             objects) and model as the list case; the caller's events, data dicts and (re-iterable) containers are
             untouched.  Every other combination is run and COUNTED (`container-left-out:...`), not judged.
  dicttype   events whose data are dict subclasses with __missing__ (defaultdict(str) / (list) / (int), Counter, a
             plain __missing__), OrderedDict, str / int subclasses as values; events WITH and WITHOUT the key; vals
             that contain the factory's default ('' / [] / 0).  The expectation is the plain-dict reading: c16's
             oracle keys groups / runs / the predicate by `key in data` and the value's == class, exactly as the
             unchanged code does; `unchanged` + txedge.changed see keys ADDED to an input's data and type changes.
  extreme    'for all event lists': durations at and beyond 2**53 us with microsecond parts (group sums, chunk
             sums, sort_by_duration near-ties 2**53 / 2**53 + 1), up to ~timedelta.max / 4 (oracle only: beyond the
             driver's integers); timestamps from year 1 to 9999 (sort_by_timestamp neighbours 1 ms apart; chunk's
             time difference); chunk pulsetimes of 86399 / 86400 / 86401 s and 400 days.  sum_durations is left out
             (the unchanged code itself goes through floats: coverage.sum_durations_large_magnitude_probe).
             Domain: chunk_events_by_key adds the LAST event's duration to its timestamp, which must be a
             representable datetime; nothing else is restricted.
  fault      unrelated data nested 300 / 600 / 900 deep: the normal result or RecursionError; a one-off MemoryError
             in copy.deepcopy (dry run: the unchanged transforms make no copy at all - recorded).
"""
import copy
import time

from . import txedge as TE
from . import txhist as TX
from .evutil import BASE

S = 1_000_000
FNAME = {"merge": "merge_events_by_keys", "chunk": "chunk_events_by_key", "sort_ts": "sort_by_timestamp", "sort_dur": "sort_by_duration",
         "limit": "limit_events", "sum": "sum_durations", "concat": "concat", "filter": "filter_keyvals"}
MODULE = {"merge": "aw_transform.merge_events_by_keys", "chunk": "aw_transform.chunk_events_by_key", "sort_ts": "aw_transform.sort_by",
          "sort_dur": "aw_transform.sort_by", "limit": "aw_transform.sort_by", "sum": "aw_transform.sort_by", "concat": "aw_transform.sort_by",
          "filter": "aw_transform.filter_keyvals"}


def make_impl(c16_hist):
    class EdgeImpl(c16_hist.RoutedImpl):
        """RoutedImpl (route direct) that hands every event-list argument over as a container of the given kind, runs
        the call under the default recursion limit, optionally with a deepcopy fault.  A fresh container per call
        (c16.run_case calls filter_keyvals twice)."""

        def __init__(self, I, ql, live, kinds, fault=None):
            super().__init__(I, ql, "direct", live)
            self.kinds, self.fault = list(kinds), fault
            self.raised = None
            self.copies = 0
            self.container_note = None

        def _go(self, name, direct, *args, **kw):
            self.last = None
            lists = list(self.live.values())
            args = list(args)
            k = 0
            handed = []
            for j, a in enumerate(args):
                if any(a is l for l in lists):
                    kind = self.kinds[k] if k < len(self.kinds) else "list"
                    k += 1
                    if kind != "list":
                        h = TE.Handed(kind, a)
                        handed.append(h)
                        args[j] = h.arg
            with TE.DeepcopyFault(self.fault) as f:
                how, val = TE.under_default_limit(direct, *args, **kw)
            self.copies += f.calls
            if how == "raised":
                self.raised = val
                raise val
            for h in handed:
                self.container_note = self.container_note or h.touched()
            self.last = val
            return val
    return EdgeImpl


class EdgeLab:
    """c16.Lab (same tables) that also labels values outside its scalar / flat-list domain (nested unrelated data)
    by their == class"""

    def __init__(self, lab):
        self.lab = lab
        self.keys, self.vals = lab.keys, lab.vals
        self.k, self.d = lab.k, self._d

    def v(self, x):
        try:
            return self.lab.v(x)
        except (ValueError, TypeError):
            return self.vals.setdefault(("opaque", TX.freeze(x)), len(self.vals))

    def _d(self, data):
        return [[self.k(k), self.v(v)] for k, v in data.items()]


class Edge:
    def __init__(self, R):
        from . import c16_hist
        self.R, self.ck = R, R.ck
        self.Impl = make_impl(c16_hist)
        self.lab = EdgeLab(R.lab)

    def lists_of(self, case):
        return [case[1], case[-1]] if case[0] == "concat" else [case[-1]]

    def one(self, stream, case, kinds=("list",), fault=None, allow=(), judged=True):
        """`case`: a c16 case tuple whose event specs are (ts_us, dur_us, data, id) -> (verdict or None, stand-in)"""
        R, ck = self.R, self.ck
        kind = case[0]
        specs = self.lists_of(case)
        nums = [v for l in specs for t, d, _, _ in l for v in (t, d)] + [sum(abs(d) for l in specs for _, d, _, _ in l)]
        with TE.harness_limit():
            live = {id(l): TE.build(R.I.Event, l) for l in specs}
            before = [TE.snap(live[id(l)]) for l in specs]
            EI = self.Impl(R.I, R.ql, live, kinds, fault)
            route = "edge:" + "+".join(kinds) + (f"+deepcopy-fault@{fault}" if fault is not None else "")
            rep = lambda: TE.edge_replay(MODULE[kind], FNAME[kind], [(k, l) for k, l in zip(list(kinds) + ["list"], specs)],      # noqa: E731
                                         scalars=list(case[1:-1]) if kind not in ("concat", "filter") else list(case[1:3]) if kind == "filter" else [],
                                         kwargs={"exclude": case[3]} if kind == "filter" else None,
                                         fault=({"deepcopy_raises": "MemoryError", "nth": fault} if fault is not None else None))
            if not judged:
                try:
                    R.c16.run_case(case, EI, self.lab, ck)
                    what = "returns"
                except Exception as ex:  # noqa: BLE001
                    what = f"raises {type(ex).__name__}" if EI.raised is ex else f"returns (then the oracle cannot read the result: {type(ex).__name__})"
                ck.count(f"container-left-out:{FNAME[kind]}/{'+'.join(kinds)}: {what}")
                return None, EI
            n0 = len(ck.violations)
            bad, _ = R.one(case, "direct", stream, live=live, replay=rep, impl=EI, allow=allow, model=TE.wire_ok(nums), lab=self.lab)
            if not bad:
                m = EI.container_note
                for l, b in zip(specs, before):
                    m = m or TE.changed(live[id(l)], b)
                if m:
                    bad = "input event modified: " + m
                    ck.failing_input("C16:" + bad.split(":")[0], f"[{stream}/{route}] {kind}: " + bad, rep())
            if bad and len(ck.violations) > n0:      # say how the arguments were handed over
                sig, desc, r = ck.violations[n0]
                ck.violations[n0] = (sig, desc.replace(f"[{stream}/direct]", f"[{stream}/{route}]"), r)
        if not TE.wire_ok(nums):
            ck.count(f"{stream}: beyond the driver's 63-bit integers (oracle only)")
        return bad, EI


# --------------------------------------------------------------------------- generators


def ev(t, d, x, i=None):
    return (BASE + t, d, x, i)


def gen_dicttype(rng, n):
    kinds = ["defaultdict(str)", "defaultdict(list)", "defaultdict(int)", "Counter", "OrderedDict", "__missing__", "values:Str/Int", "plain"]
    datas = [{"a": 1, "b": "x"}, {"b": "x"}, {"a": "", "c": 2}, {"c": 2}, {"a": ["x"]}, {"a": 0, "b": ""}, {"b": 1, "a": 1}, {"a": []}]
    for dk in kinds:
        evs = [ev(j * S, (1 << j) * S, TE.exotic(x, dk), j) for j, x in enumerate(datas)]
        for ks in (["a"], ["b", "a"], ["c"], ["zz"], ["a", "zz"]):
            yield ("merge", ks, evs)
        # chunk stops at the first event without the key: put the key-bearing ones first as well
        for key in ("a", "b", "zz"):
            yield ("chunk", key, 5.0, evs)
            yield ("chunk", key, 5.0, sorted(evs, key=lambda e: key not in e[2]))
        for key in ("a", "b", "zz"):
            for vals in (["", 1], [[], "x"], [0, ["x"]], [], [""], [[]], [0]):
                for excl in (False, True):
                    yield ("filter", key, vals, excl, evs)
        yield ("sort_ts", evs[::-1])
        yield ("sort_dur", evs)
        yield ("limit", 3, evs)
        yield ("concat", evs[:2], evs[2:])
    for _ in range(n):
        pool = rng.sample(datas, rng.choice([2, 3, 4]))
        evs = [ev(j * S + rng.choice([0, S]), rng.choice([0, 1, 2, 5]) * S + rng.choice([0, 1]), TE.exotic(rng.choice(pool), rng.choice(kinds)), rng.choice([None, j]))
               for j in range(rng.choice([1, 2, 3, 5, 8]))]
        k = rng.choice(["merge", "merge", "chunk", "filter", "filter", "filter"])
        if k == "merge":
            yield ("merge", [rng.choice(["a", "b", "c", "zz"]) for _ in range(rng.choice([1, 2, 3]))], evs)
        elif k == "chunk":
            yield ("chunk", rng.choice(["a", "b", "zz"]), rng.choice([5.0, 0, 1]), evs)
        else:
            yield ("filter", rng.choice(["a", "b", "c", "zz"]), [copy.deepcopy(rng.choice(["", [], 0, 1, "x", ["x"], 2])) for _ in range(rng.choice([1, 2, 3]))],
                   rng.random() < 0.5, evs)


def gen_extreme(rng, n):
    big = TE.EXTREME_DURS[:10]
    T = TE.TWO53
    # merge / chunk: sums beyond 2**53 us with microsecond parts
    for d3 in ([40_000 * TE.DAY + 1] * 3, [150_000 * TE.DAY + 1], [T, 1, 1], [T + 1, T + 1], [T - 1, 1, 1, 1], [3 * T + 3, 7], [T + 1, -1, -T]):
        evs = [ev(j * S, d, {"a": 1, "b": j % 2}, j) for j, d in enumerate(d3)] + [ev(99 * S, 5, {"a": 2}, None)]
        yield ("merge", ["a"], evs)
        yield ("merge", ["a", "b"], evs)
        yield ("chunk", "a", 5.0, evs)
        yield ("chunk", "a", 86400, evs)
        yield ("sort_dur", evs)
        yield ("limit", 2, evs)
        yield ("filter", "a", [1], False, evs)
        yield ("concat", evs[:1], evs[1:])
    # oracle only: durations near timedelta.max / 4 (the sums stay representable)
    q = TE.TD_MAX_US // 4
    yield ("merge", ["a"], [ev(0, q, {"a": 1}), ev(S, q - 1, {"a": 1}), ev(2 * S, q + 1, {"a": 1}), ev(3 * S, 3, {"a": 2})])
    yield ("chunk", "a", 5.0, [ev(0, q, {"a": 1}), ev(S, q - 1, {"a": 1}), ev(2 * S, 1, {"a": 1})])
    yield ("sort_dur", [ev(0, q, {"i": 0}), ev(S, q + 1, {"i": 1}), ev(2 * S, q - 1, {"i": 2}), ev(3 * S, q, {"i": 3})])
    # sort_by_duration: near-ties a float cannot tell apart
    for ds in ([T, T + 1, T - 1, T + 2, T], [2 * T + 1, 2 * T, 2 * T + 2, 2 * T + 1], [T + 1, T, 150_000 * TE.DAY + 1, 150_000 * TE.DAY]):
        yield ("sort_dur", [ev(j * S, d, {"i": j}, j) for j, d in enumerate(ds)])
    # sort_by_timestamp / chunk / limit / concat across the datetime range (neighbours 1 ms apart)
    far = [t - BASE for t in TE.FAR_INSTANTS]
    evs = [ev(t + off, 1000, {"i": j, "a": 1}, None) for j, (t, off) in enumerate((t, off) for t in far for off in (1000, 0, 2000) if TE.in_range(BASE + t + off + 1000))]
    yield ("sort_ts", evs)
    yield ("sort_ts", evs[::-1])
    yield ("sort_ts", rng.sample(evs, len(evs)))
    yield ("limit", 7, evs)
    yield ("concat", evs[:5], evs[5:9])
    yield ("filter", "a", [1], True, evs)
    yield ("merge", ["a"], evs)
    for order in (sorted(evs), sorted(evs, reverse=True), rng.sample(evs, len(evs))):
        for p in (5.0, 86399, 86400, 400 * 86400):
            yield ("chunk", "a", p, order)
    # chunk: pulsetimes of a day and more, time differences around them (measured against the LAST event's end)
    for p in TE.PULSES_DAY:
        P = int(p * S)
        for g in (86_399 * S, 86_400 * S, 86_401 * S, P - 1000, P, P + 1000):
            yield ("chunk", "a", p, [ev(0, S, {"a": 1}), ev(g + 10 * S, S, {"a": 1}), ev(9 * S, S, {"a": 1})])
            yield ("chunk", "a", p, [ev(g + 10 * S, S, {"a": 1}), ev(g + 10 * S + 5, S, {"a": 1}), ev(9 * S, S, {"a": 1})])
    for _ in range(n):
        m = rng.choice([1, 2, 3, 5])
        evs = [ev(rng.choice(far + [0, S, 2 * S]) + rng.choice([0, 1000, 2000]), rng.choice(big + [0, 1, S, -1]), {"a": rng.choice([1, 2]), "b": rng.choice(["x", "y"])},
                  rng.choice([None, j])) for j in range(m)]
        if not all(TE.in_range(t) and TE.in_range(t + d) for t, d, _, _ in evs):
            continue
        k = rng.choice(["merge", "chunk", "sort_ts", "sort_dur", "limit", "filter", "concat"])
        yield {"merge": ("merge", [rng.choice(["a", "b"])], evs), "chunk": ("chunk", "a", rng.choice(TE.PULSES_DAY + [5.0, 0]), evs), "sort_ts": ("sort_ts", evs),
               "sort_dur": ("sort_dur", evs), "limit": ("limit", rng.randrange(-2, 4), evs), "filter": ("filter", "a", [1], rng.random() < 0.5, evs),
               "concat": ("concat", evs[: m // 2], evs[m // 2:])}[k]


def gen_deep():
    for depth in (300, 600, 900):
        for shape in ("dict", "list", "mixed"):
            mk = lambda j: {"a": j % 2, "b": "x", "blob": TE.nested(depth, shape, "leaf%d" % (j % 2))}      # noqa: E731
            evs = [ev(j * S, (1 << j) * S, mk(j), j) for j in range(4)]
            yield ("merge", ["a"], evs)
            yield ("chunk", "b", 5.0, evs)
            yield ("sort_dur", evs)
            yield ("sort_ts", evs[::-1])
            yield ("filter", "a", [1], False, evs)
            yield ("limit", 2, evs)
            yield ("concat", evs[:2], evs[2:])


# --------------------------------------------------------------------------- the streams


def plans_for(kind):
    f = FNAME[kind]
    return TE.container_plans(f), TE.left_out_plans(f)


def run(R, cases):
    ck = R.ck
    rng = ck.rng
    quick = ck.tier == "quick"
    t0 = time.time()
    E = Edge(R)
    TX.make_room(ck)

    # -- containers: corpus cases of every transform
    by_kind = {}
    for c in cases:
        if c[0] == "merge" and not c[1]:
            continue                      # no keys: the argument itself is returned (txedge.OBSERVATIONS)
        if len(c[-1]) >= 1:
            by_kind.setdefault(c[0], []).append(c)
    n_cont = 0
    for kind, cs in by_kind.items():
        cs = cs[:: max(1, len(cs) // (60 if quick else 2000))]
        plans, left = plans_for(kind)
        for j, case in enumerate(cs):
            if kind == "chunk" and case[2] == -1:
                continue
            for kinds in (plans if j < 8 else [plans[j % len(plans)], plans[(j * 5 + 2) % len(plans)]]):
                n_cont += 1
                ck.count("container:" + FNAME[kind] + "/" + "+".join(kinds))
                E.one("container", case, kinds=kinds)
        for kinds in left:
            E.one("container-left-out", cs[len(cs) // 2], kinds=kinds, judged=False)

    # -- data dict types
    n_dt = 0
    for case in gen_dicttype(rng, 400 if quick else 40_000):
        n_dt += 1
        kinds = ("list",) if n_dt % 4 else (rng.choice(TE.container_plans(FNAME[case[0]])))
        E.one("dicttype", case, kinds=kinds)

    # -- numeric extremes
    n_ext = 0
    for case in gen_extreme(rng, 500 if quick else 50_000):
        n_ext += 1
        E.one("extreme", case)

    # -- faults
    for case in gen_deep():
        E.one("deep", case, allow=(RecursionError,))
    steps = 0
    for kind, cs in by_kind.items():
        for case in cs[:3]:
            bad, EI = E.one("deepcopy-dry-run", case)
            steps += EI.copies
            for nth in range(min(EI.copies, 6)):
                E.one("deepcopy-fault", case, fault=nth, allow=(MemoryError,))
    ck.count("deepcopy steps made by the transforms (dry runs): %d" % steps)
    ck.coverage["round5"] = {
        "container": f"{n_cont} calls: corpus cases of every transform, each list parameter handed over as every supported container kind "
                     "(txedge.SUPPORT); unsupported combinations run and counted (input_distribution: container-left-out:...)",
        "container_observations": {k: v for k, v in TE.OBSERVATIONS.items() if k in FNAME.values()},
        "dicttype": f"{n_dt} cases: data as defaultdict(str/list/int), Counter, OrderedDict, __missing__, Str / Int values; with and without the key; "
                    "vals containing the factories' defaults",
        "extreme": f"{n_ext} cases: durations at / beyond 2**53 us (sums, near-ties), ~timedelta.max / 4 (oracle only), timestamps of the years "
                   f"{TE.FAR_YEARS}, chunk pulsetimes {TE.PULSES_DAY}; sum_durations left out (float route of the unchanged code)",
        "fault": f"unrelated data nested 300 / 600 / 900 deep; deepcopy steps seen in dry runs: {steps}",
        "wall_s": round(time.time() - t0, 1)}
