"""Re-run one concrete SqliteStorage history of the C06 / C18 checks on the implementation
and print what the property oracles say.
usage: python -m harness.c06_replay '{"lazy": true, "steps": [[dt_us, tick_us, [call, args...]], ...]}'
(the clock advances dt_us before the call and tick_us after every reading during it)"""
import json
import sys

from . import common
from . import c06_lib as lib


def main():
    arg = sys.argv[1]
    case = json.load(open(arg)) if not arg.lstrip().startswith("{") else json.loads(arg)
    if "history" in case:
        case = case["history"]
    common.setup_impl_env()
    import aw_datastore.storages.sqlite as sq
    from aw_core.models import Event
    r = lib.run_history(sq, Event, case["lazy"], case["steps"])
    v06, v18 = lib.oracles(r)
    print(f"{len(r.steps)} calls, {len(r.rec.issue_time)} write statements, {len(r.rec.obs)} crash points observed")
    for o in r.rec.obs:
        if o["kind"] == "call-end":
            c = r.rec.calls[o["call"]]
            J = o.get("J") or []
            print(f"  t={o['t'] / 1e6:12.6f}s  {str(c['spec']):48s} issued={o['issued']:4d} committed-prefix={J[-1] if J else '??':>4} "
                  f"n={o['n']} {'raised ' + c['outcome'] if c['outcome'] else ''}")
    for sig, d in v06 + v18:
        print("VIOLATES", sig, "-", d)
    if not v06 and not v18:
        print("oracles: ok")
    return 1 if (v06 or v18) else 0


if __name__ == "__main__":
    sys.exit(main())
