"""Re-run one C09 case on the implementation and print what the property oracle says.
usage: python -m harness.c09_replay '["isect"|"union", events1, events2]'
(an event is [ts_us, dur_us, data, id])
       python -m harness.c09_replay --script '<script json>'     a sequence of calls in one process (harness/c09_hist.py)
       python -m harness.c09_replay --edge <replay file>         an `edge_call` replay (harness/c09_edge.py; also: -m harness.txedge replay <file>)"""
import json
import sys

from . import common
from . import c09


def main_script(script):
    from . import c09_hist
    common.setup_impl_env()
    labels = c09_hist.SnapLabels()
    records, findings = c09_hist.run_script(script, c09_hist.Env(), labels, c09, stop_at_first=False)
    for r in records:
        if r["kind"] == "aborted":
            print("step", r["step"], "aborted:", r["why"])
        else:
            print("step %d %s via %s\n   inputs : %s %s\n   output : %s" % (r["step"], r["kind"], r["via"], r["va"], r["vb"], r["res"]))
    for k, clause, msg, soft in findings:
        print("oracle : step %d: %s" % (k, msg))
    if not findings:
        print("oracle : ok")
    return 1 if findings else 0


def main():
    if sys.argv[1] == "--script":
        return main_script(json.loads(sys.argv[2]))
    if sys.argv[1] == "--edge":             # a round-5 replay file (container kinds, typed data, faults): harness/c09_edge.py
        from . import c09_edge
        return c09_edge.replay_main(sys.argv[2])
    case = json.loads(sys.argv[1])
    case = tuple([case[0], [tuple(x) for x in case[1]], [tuple(x) for x in case[2]]] + case[3:])
    common.setup_impl_env()
    from aw_core.models import Event
    import importlib
    fpi = importlib.import_module("aw_transform.filter_period_intersect")   # the package re-exports a function of the same name
    labels = common.Labels()
    res, va, vb, mod = c09.run_impl(case, Event, fpi, labels)
    print("inputs :", va, vb)
    print("output :", res)
    if case[0] == "isect":
        bad = c09.oracle_isect(va, vb, res, mod, labels)
    else:
        bad = c09.oracle_union(va, vb, res, labels)
    print("oracle :", bad or "ok")
    return 1 if bad else 0


if __name__ == "__main__":
    sys.exit(main())
