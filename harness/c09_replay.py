"""Re-run one C09 case on the implementation and print what the property oracle says.
usage: python -m harness.c09_replay '["isect"|"union", events1, events2]'
(an event is [ts_us, dur_us, data, id])"""
import json
import sys

from . import common
from . import c09


def main():
    case = json.loads(sys.argv[1])
    case = tuple([case[0], [tuple(x) for x in case[1]], [tuple(x) for x in case[2]]] + case[3:])
    common.setup_impl_env()
    from aw_core.models import Event
    import importlib
    fpi = importlib.import_module("aw_transform.filter_period_intersect")   # the package re-exports a function of the same name
    labels = common.Labels()
    res, va, vb, mod = c09.run_impl(case, Event, fpi, labels)
    print("inputs :", va, vb)
    print("output :", res)
    if case[0] == "isect":
        bad = c09.oracle_isect(va, vb, res, mod, labels)
    else:
        bad = c09.oracle_union(va, vb, res, labels)
    print("oracle :", bad or "ok")
    return 1 if bad else 0


if __name__ == "__main__":
    sys.exit(main())
