"""Shared machinery of every check: building the Coq development and the extracted
driver, running cases through the model, the VIOLATION / KNOWN-FINDING protocol,
evidence files.  Nothing here knows about a particular property."""
import fcntl
import hashlib
import json
import os
import random
import re
import shutil
import subprocess
import sys
import tempfile
import time

VERIF = os.path.dirname(os.path.dirname(os.path.abspath(__file__)))
REPO = os.environ.get("VERIF_REPO", "/repo")
COQ = os.path.join(VERIF, "coq")
BUILD = os.path.join(VERIF, "build")
GUARD = "AW_CORE_VERIF"

# ---------------------------------------------------------------------------
# environment of the implementation under test


def setup_impl_env():
    """Import aw-core from /repo's working tree and keep every file it writes inside a
    private temp dir (PeeweeStorage creates the default data dir even for filepath=)."""
    if REPO not in sys.path:
        sys.path.insert(0, REPO)
    os.environ[GUARD] = "1"
    tmp = tempfile.mkdtemp(prefix="awverif-")
    for k in ("XDG_DATA_HOME", "XDG_CONFIG_HOME", "XDG_CACHE_HOME", "XDG_STATE_HOME"):
        os.environ[k] = os.path.join(tmp, k.lower())
    import atexit
    atexit.register(lambda: shutil.rmtree(tmp, ignore_errors=True))
    import logging
    logging.disable(logging.CRITICAL)
    # aw_core.dirs.ensure_path_exists is check-then-makedirs (no exist_ok): workers forked later that open their
    # first storage at the same moment can race on it (seen once as FileExistsError in C03).  Create the
    # directories here, in the parent, before anything forks.
    for sub in ("aw-server", "aw-core"):
        try:
            os.makedirs(os.path.join(os.environ["XDG_DATA_HOME"], "activitywatch", sub), exist_ok=True)
        except OSError:
            pass
    try:
        from aw_core.dirs import get_data_dir
        get_data_dir("aw-server")
    except Exception:  # noqa: BLE001 -- a tree whose dirs module is broken is reported by the check proper
        pass
    return tmp


# ---------------------------------------------------------------------------
# s-expressions of integers (wire format of the extracted models)


def sx(x):
    """Python nested lists/ints/bools/None -> s-expression text.  None -> (), i.e. the
    option encoding used by Base/Sexp.v needs Some v written as [v]."""
    if x is None:
        return "()"
    if isinstance(x, bool):
        return "1" if x else "0"
    if isinstance(x, int):
        return str(x)
    if isinstance(x, (list, tuple)):
        return "(" + " ".join(sx(y) for y in x) + ")"
    raise TypeError(f"cannot encode {type(x)}")


def unsx(s):
    toks = re.findall(r"\(|\)|-?\d+", s)
    pos = 0

    def item():
        nonlocal pos
        t = toks[pos]
        pos += 1
        if t == "(":
            out = []
            while toks[pos] != ")":
                out.append(item())
            pos += 1
            return out
        return int(t)

    v = item()
    if pos != len(toks):
        raise ValueError("trailing tokens in " + s)
    return v


def opt(v):
    return [] if v is None else [v]


def unopt(l):
    return None if l == [] else l[0]


class Labels:
    """One integer label per class of Python == on the values seen (so the model never
    re-implements 1 == 1.0 == True or dict comparison)."""

    def __init__(self):
        self.reps = []

    def label(self, v):
        for i, r in enumerate(self.reps):
            if type(r) is type(v) and r == v:
                return i
            if r == v:
                return i
        self.reps.append(v)
        return len(self.reps) - 1

    def value(self, i):
        return self.reps[i]


# ---------------------------------------------------------------------------
# building


def sh(cmd, cwd=None, timeout=1200, env=None):
    p = subprocess.run(cmd, cwd=cwd, shell=isinstance(cmd, str), stdout=subprocess.PIPE,
                       stderr=subprocess.STDOUT, timeout=timeout, text=True, env=env)
    return p.returncode, p.stdout


class BuildLock:
    def __enter__(self):
        os.makedirs(BUILD, exist_ok=True)
        self.f = open(os.path.join(BUILD, ".lock"), "w")
        fcntl.flock(self.f, fcntl.LOCK_EX)
        return self

    def __exit__(self, *a):
        fcntl.flock(self.f, fcntl.LOCK_UN)
        self.f.close()


def regen_coqproject():
    head = open(os.path.join(COQ, "_CoqProject.head")).read()
    files = []
    for d in ("Base", "Model", "Proofs", "Props", "Gen", "Bridge"):
        for root, _, fs in os.walk(os.path.join(COQ, d)):
            for f in fs:
                if f.endswith(".v"):
                    files.append(os.path.relpath(os.path.join(root, f), COQ))
    text = head + "\n".join(sorted(files)) + "\n"
    path = os.path.join(COQ, "_CoqProject")
    old = open(path).read() if os.path.exists(path) else None
    if old != text or not os.path.exists(os.path.join(COQ, "Makefile")):
        open(path, "w").write(text)
        rc, out = sh("coq_makefile -f _CoqProject -o Makefile", cwd=COQ)
        if rc != 0:
            raise RuntimeError(out)


def regenerate_gen(log):
    """Tie B: re-emit coq/Gen/*.v from /repo's working tree (files rewritten only when
    their text changes).  Returns {kernel: error} for kernels the translator refused."""
    tr = os.path.join(VERIF, "translate", "py2v.py")
    if not os.path.exists(tr):
        return {}
    rc, out = sh([sys.executable, tr, REPO, os.path.join(COQ, "Gen")], timeout=120)
    log.append(out)
    failed = {}
    for line in out.splitlines():
        m = re.match(r"TRANSLATE-FAIL (\S+): (.*)", line)
        if m:
            failed[m.group(1)] = m.group(2)
    return failed


def coq_make(targets, log, jobs=8, timeout=3000):
    """Full .vo build (never -vos/-vok) of the given targets and their dependencies."""
    # the lock covers regeneration and the dependency scan; compilation itself runs
    # unlocked so that one long proof build does not serialise every other check
    # (targets of different properties are disjoint apart from Base/, which is stable)
    # The regenerated kernels (coq/Gen) and the bridge lemmas over them are compiled while
    # the lock is held, so that a concurrent run against another tree (VERIF_REPO) cannot
    # swap the generated text between regeneration and compilation.
    bridge_out = ""
    with BuildLock():
        failed = regenerate_gen(log)
        regen_coqproject()
        sh(["timeout", "600", "make", ".Makefile.d"], cwd=COQ, timeout=660)
        locked = [t for t in targets if t.startswith("Bridge/") or t.startswith("Gen/")]
        rc0 = 0
        if locked:
            rc0, bridge_out = sh(["timeout", str(timeout), "make", f"-j{jobs}"] + locked, cwd=COQ,
                                 timeout=timeout + 60)
    if rc0 != 0:
        log.append(bridge_out)
        coq_make.last_translate_failures = failed
        return False, bridge_out
    rest = [t for t in targets if t not in locked] if locked else targets
    if locked and not rest:
        rc, out = rc0, bridge_out
    else:
        rc, out = sh(["timeout", str(timeout), "make", f"-j{jobs}"] + rest, cwd=COQ,
                     timeout=timeout + 60)
        out = bridge_out + out
    log.append(out)
    coq_make.last_translate_failures = failed
    return rc == 0, out


def print_assumptions(vfile, log):
    """Re-run coqc on a Props file (cheap: it only holds `exact lemma`) and collect what
    Print Assumptions reports under every theorem.  Returns (ok, {theorem: [axioms]})."""
    path = os.path.join(COQ, vfile)
    src = open(path).read()
    names = re.findall(r"^Print Assumptions\s+([A-Za-z0-9_']+)\s*\.", src, re.M)
    cache = os.path.join(BUILD, "assumptions", vfile.replace("/", "_") + ".txt")
    vo = path + "o"
    if os.path.exists(cache) and os.path.exists(vo) and os.path.getmtime(cache) >= os.path.getmtime(vo):
        out = open(cache).read()
    else:
        if True:
            rc, out = sh(["timeout", "900", "coqc", "-Q", ".", "AwVerif", "-w",
                          "-notation-overridden,-deprecated-hint-without-locality,-deprecated-instance-without-locality",
                          vfile], cwd=COQ, timeout=960)
        log.append(out)
        if rc != 0:
            return False, {}
        os.makedirs(os.path.dirname(cache), exist_ok=True)
        open(cache, "w").write(out)
    blocks = []
    cur = None
    for line in out.splitlines():
        if line.startswith("Closed under the global context"):
            blocks.append([])
            cur = None
        elif line.startswith("Axioms:"):
            cur = []
            blocks.append(cur)
        elif cur is not None:
            # an axiom entry starts in column 0 with its qualified name; its type may start on
            # the same line or (for long names) on the next, indented, line
            m = re.match(r"^([A-Za-z_][A-Za-z0-9_.']*)\s*(:|$)", line)
            if m and not line.startswith(("File ", "Warning", "COQ")):
                cur.append(m.group(1))
    if len(blocks) != len(names):
        return False, {}
    return True, dict(zip(names, blocks))


def theorem_names(vfile):
    src = open(os.path.join(COQ, vfile)).read()
    return re.findall(r"^(?:Theorem|Lemma)\s+([A-Za-z0-9_']+)", src, re.M)


def forbidden_scan():
    """No Admitted / admit / Axiom / Parameter / ... anywhere in the development."""
    pat = re.compile(r"\b(Admitted|admit|Axiom|Axioms|Parameter|Parameters|Conjecture|Admit Obligations|"
                     r"Unset Guard Checking|Unset Positivity Checking|Unset Universe Checking|bypass_check|"
                     r"type-in-type|impredicative-set|native_compute)\b")
    hits = []
    for root, _, fs in os.walk(COQ):
        for f in fs:
            if f.endswith(".v"):
                p = os.path.join(root, f)
                txt = re.sub(r"\(\*.*?\*\)", "", open(p).read(), flags=re.S)
                for i, line in enumerate(txt.splitlines(), 1):
                    if pat.search(line):
                        hits.append(f"{os.path.relpath(p, VERIF)}:{i}: {line.strip()}")
    return hits


def build_driver(prop, log, exname=None):
    """Extract coq/Extract/Ex<prop>.v (ExtrOcamlBasic only) and link it with ocaml/main.ml."""
    exname = exname or f"Ex{prop}"
    d = os.path.join(BUILD, prop)
    os.makedirs(d, exist_ok=True)
    if True:
        rc, out = sh(f"timeout 600 coqc -Q ../../coq AwVerif ../../coq/Extract/{exname}.v -o {exname}.vo "
                     f"&& cp ../../ocaml/main.ml . "
                     f"&& timeout 600 ocamlfind ocamlopt -O2 -w -a model.mli model.ml main.ml -o driver 2>&1 "
                     f"|| (timeout 600 ocamlfind ocamlopt -w -a model.mli model.ml main.ml -o driver)",
                     cwd=d, timeout=1300)
    log.append(out)
    return os.path.exists(os.path.join(d, "driver")) and rc == 0, out


def run_driver(prop, cases, timeout=3000):
    """cases: list of s-expression strings -> list of decoded results."""
    d = os.path.join(BUILD, prop, "driver")
    env = dict(os.environ)
    env["OCAMLRUNPARAM"] = "l=8G"
    p = subprocess.run(["bash", "-c", f"ulimit -s unlimited 2>/dev/null; exec {d}"],
                       input="\n".join(cases) + "\n", stdout=subprocess.PIPE,
                       stderr=subprocess.PIPE, text=True, timeout=timeout, env=env)
    lines = p.stdout.splitlines()
    if p.returncode != 0 or len(lines) != len(cases):
        raise RuntimeError(f"driver failed rc={p.returncode} got {len(lines)} lines for {len(cases)} cases: {p.stderr[:500]}")
    return [unsx(l) for l in lines]


# ---------------------------------------------------------------------------
# known findings


def load_known():
    p = os.path.join(VERIF, "known_findings.json")
    if not os.path.exists(p):
        return []
    return json.load(open(p)).get("findings", [])


# ---------------------------------------------------------------------------
# a check run


class Check:
    def __init__(self, prop, argv=None):
        argv = argv if argv is not None else sys.argv[1:]
        self.prop = prop
        self.tier = (argv[0] if argv else os.environ.get("VERIF_TIER", "quick"))
        if self.tier not in ("quick", "thorough"):
            self.tier = "quick"
        self.seed = int(os.environ.get("VERIF_SEED", "20260926"))
        self.rng = random.Random(self.seed)
        self.t0 = time.time()
        self.log = []
        self.violations = []       # (kind, description, replay_obj)
        self.known_hits = []
        self.obligations = 0
        self.discharged = 0
        self.axioms = {}
        self.trusted = []
        self.checker_cmds = []
        self.coverage = {}
        self.assumptions = []
        self.evaluations = 0
        self.nontrivial = set()
        self.samples = []
        self.dist = {}
        self.broken = []           # names of theorems / bridges / correspondence streams that no longer check
        self.known = [k for k in load_known() if k.get("property") == prop and k.get("status") == "open"]

    # -- bookkeeping
    def count(self, key, n=1):
        self.dist[key] = self.dist.get(key, 0) + n

    def sample(self, obj, limit=6):
        if len(self.samples) < limit:
            self.samples.append(obj)

    def note_case(self, canon, nontrivial=True):
        self.evaluations += 1
        if nontrivial:
            self.nontrivial.add(hashlib.sha1(json.dumps(canon, sort_keys=True, default=str).encode()).hexdigest())

    # -- proof side
    def prove(self, props_file=None, extra_targets=(), gen_kernels=()):
        """Build the property file (and bridges); collect Print Assumptions.  Returns True
        when every obligation compiled."""
        props_file = props_file or f"Props/{self.prop}.v"
        hits = forbidden_scan()
        if hits:
            self.broken.append("forbidden constructs: " + "; ".join(hits[:5]))
        targets = [props_file + "o"] + [t + "o" for t in extra_targets]
        names = theorem_names(props_file)
        for t in extra_targets:
            names += theorem_names(t)
        self.obligations += len(names)
        ok, out = coq_make(targets, self.log)
        failed = getattr(coq_make, "last_translate_failures", {})
        for k in gen_kernels:
            if k in failed:
                self.broken.append(f"tie B: translator refused kernel {k}: {failed[k]}")
        self.checker_cmds.append("make -C coq " + " ".join(targets) + "  (coqc 8.16.1, full .vo build)")
        if not ok:
            m = re.search(r'File "\./([^"]+)", line (\d+)[^\n]*\n((?:.*\n){0,6})', out)
            where = f"{m.group(1)}:{m.group(2)}: {m.group(3).strip()[:300]}" if m else out[-400:]
            self.broken.append("proof obligation no longer checks: " + where)
            return False
        ok2, ax = print_assumptions(props_file, self.log)
        if not ok2:
            self.broken.append(f"Print Assumptions pass failed on {props_file}")
            return False
        self.axioms.update(ax)
        self.discharged += len(names)
        if self.tier == "thorough" and os.environ.get("VERIF_COQCHK", "1") == "1":
            mod = "AwVerif." + props_file[:-2].replace("/", ".")
            rc, out = sh(["timeout", "1500", "coqchk", "-silent", "-o", "-Q", ".", "AwVerif", mod], cwd=COQ, timeout=1600)
            self.log.append(out)
            self.checker_cmds.append(f"coqchk -o -Q . AwVerif {mod}")
            self.coverage["coqchk"] = {"ok": rc == 0, "tail": out.strip().splitlines()[-25:]}
            if rc != 0:
                self.broken.append("coqchk rejected " + mod)
                return False
        return True

    def driver(self, exname=None):
        ok, out = build_driver(self.prop, self.log, exname)
        if not ok:
            self.broken.append("model no longer extracts/compiles: " + out[-300:])
        return ok

    # -- corpus
    def run_witnesses(self, prefixes):
        """Run the minimised defect witnesses of corpus/witnesses.py (each in its own process)
        against /repo's working tree; a witness that fails is a concrete failing input."""
        for pre in prefixes:
            env = dict(os.environ)
            env["PYTHONPATH"] = REPO
            env["VERIF_REPO"] = REPO
            rc, out = sh([sys.executable, os.path.join(VERIF, "corpus", "witnesses.py"), pre], timeout=600, env=env)
            self.log.append(out)
            for line in out.splitlines():
                m = re.match(r"(w\w+): (ok|FAILS: (.*))$", line)
                if not m:
                    continue
                self.evaluations += 1
                self.count("corpus-witness")
                if m.group(2) != "ok":
                    self.failing_input(f"{self.prop}:witness:{m.group(1)}", f"corpus witness {m.group(1)}: {m.group(3)}",
                                       {"witness": m.group(1), "observed": m.group(3),
                                        "rerun": f"PYTHONPATH={REPO} /venv/bin/python {VERIF}/corpus/witnesses.py {m.group(1)}"})

    # -- verdict
    def replay_path(self, obj):
        d = os.path.join(VERIF, "replays", self.prop)
        os.makedirs(d, exist_ok=True)
        h = hashlib.sha1(json.dumps(obj, sort_keys=True, default=str).encode()).hexdigest()[:12]
        p = os.path.join(d, h + ".json")
        with open(p, "w") as f:
            json.dump(obj, f, indent=1, default=str, sort_keys=True)
        return p

    def failing_input(self, signature, description, replay):
        """The implementation violates the property statement on a concrete input."""
        for k in self.known:
            if k.get("signature") == signature:
                if signature not in [s for s, _ in self.known_hits]:
                    self.known_hits.append((signature, k.get("what", description)))
                return
        if len(self.violations) < 20:
            self.violations.append((signature, description, replay))

    def disagreement(self, stream, description, replay):
        """Model and implementation differ on a case: the theorem no longer speaks about
        the code.  Not by itself a failing input."""
        if len(self.broken) < 20:
            self.broken.append(f"correspondence[{stream}]: {description}")
        self.coverage.setdefault("disagreement_replays", [])
        if len(self.coverage["disagreement_replays"]) < 5:
            self.coverage["disagreement_replays"].append(replay)

    def finish(self, rule, level_note=None):
        wall = time.time() - self.t0
        rc = 0
        lines = []
        for sig, what in self.known_hits:
            lines.append(f"KNOWN-FINDING: property={self.prop} {what}")
        if self.violations:
            rc = 1
            sig, desc, replay = self.violations[0]
            obj = {"property": self.prop, "kind": "failing-input", "signature": sig, "description": desc,
                   "replay": replay, "seed": self.seed, "tier": self.tier,
                   "rerun": f"VERIF_SEED={self.seed} ./run.sh {self.tier} {self.prop}",
                   "other_failing_inputs": [{"signature": s, "description": d, "replay": r}
                                            for s, d, r in self.violations[1:6]],
                   "also_broken": self.broken[:10]}
            path = self.replay_path(obj)
            lines.append(f"VIOLATION property={self.prop} replay={path}")
        elif self.broken:
            rc = 1
            obj = {"property": self.prop, "kind": "no-failing-input-found",
                   "no_longer_checks": self.broken,
                   "disagreements": self.coverage.get("disagreement_replays", []),
                   "searched": {"evaluations": self.evaluations, "rule": rule},
                   "seed": self.seed, "tier": self.tier,
                   "rerun": f"VERIF_SEED={self.seed} ./run.sh {self.tier} {self.prop}"}
            path = self.replay_path(obj)
            lines.append(f"VIOLATION property={self.prop} replay={path} no-failing-input-found")
        tb = ["Coq 8.16.1 kernel (coqc; vm_compute where stated; no native_compute)",
              "extraction: ExtrOcamlBasic directives only (bool, option, unit, list, prod, sumbool, sumor); "
              "OCaml 4.13.1; ocaml/main.ml decimal<->Z glue",
              "Python harness (generators, canonicalisation, property oracle)"]
        axs = sorted({a for v in self.axioms.values() for a in v})
        tb.append("axioms reported by Print Assumptions: " + (", ".join(axs) if axs else "none (closed under the global context)"))
        tb += self.trusted
        cov = {
            "obligations": max(self.obligations, 1),
            "discharged": self.discharged,
            "checker_cmd": " ; ".join(self.checker_cmds) or "none",
            "trusted_base": tb,
            "evaluations": self.evaluations,
            "distinct_nontrivial": len(self.nontrivial),
            "rule": rule,
            "samples": self.samples or ["(no case was generated)"],
            "per_theorem_axioms": self.axioms,
            "input_distribution": self.dist,
            "no_longer_checks": self.broken,
            "known_findings_hit": [s for s, _ in self.known_hits],
        }
        cov.update(self.coverage)
        ev = {"property_id": self.prop, "tier": self.tier, "seed": self.seed, "level": "proof",
              "coverage": cov, "assumptions": self.assumptions, "wall_s": round(wall, 2),
              "violations": len(self.violations) + (1 if (self.broken and not self.violations) else 0)}
        # runs against a scratch tree (seeded changes, mutation trials) must not overwrite the
        # evidence of the real tree: they set VERIF_EVIDENCE_DIR
        evdir = os.environ.get("VERIF_EVIDENCE_DIR") or os.path.join(VERIF, "evidence")
        os.makedirs(evdir, exist_ok=True)
        with open(os.path.join(evdir, f"{self.prop}.json"), "w") as f:
            json.dump(ev, f, indent=1, default=str)
        with open(os.path.join(BUILD, f"{self.prop}.{self.tier}.log"), "w") as f:
            f.write("\n".join(self.log))
        for l in lines:
            print(l)
        print(f"{self.prop} {self.tier}: obligations {self.discharged}/{self.obligations}, "
              f"{self.evaluations} cases ({len(self.nontrivial)} distinct non-trivial), "
              f"{len(self.violations)} failing inputs, {len(self.broken)} broken ties, {wall:.1f}s")
        sys.stdout.flush()
        return rc


def shrink_list(items, still_fails, max_steps=400):
    """Greedy delta-debugging on a list."""
    steps = 0
    cur = list(items)
    n = 2
    while len(cur) >= 1 and steps < max_steps:
        chunk = max(1, len(cur) // n)
        reduced = False
        i = 0
        while i < len(cur) and steps < max_steps:
            cand = cur[:i] + cur[i + chunk:]
            steps += 1
            if still_fails(cand):
                cur = cand
                reduced = True
            else:
                i += chunk
        if not reduced:
            if chunk == 1:
                break
            n = min(len(cur), n * 2) or 1
    return cur
