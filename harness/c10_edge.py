"""C10 (round 5): flood on EDGE INPUT TYPES, NUMERIC EXTREMES and under FAULTS (generic part: harness/txedge.py;
hook: `c10_edge.run(R)` at the end of c10_hist.run, before the model comparison).

  container  the chain handed over as a tuple, a deque, a list subclass, iter(list), reversed / map / filter objects
             (the unchanged flood deep-copies its argument, then sorts the copy: all of these work exactly like a
             list - txedge.SUPPORT; a generator cannot be deep-copied: run and COUNTED only).  Judged like every
             call (oracle, typed provenance, model) + the caller's events, their data dicts (keys ADDED, type) and
             the container itself (when it can be read twice) are untouched.
  dicttype   chains whose data are dict subclasses with __missing__ (defaultdict(str) / (list), Counter, a plain
             __missing__), OrderedDict, str / int subclasses as values, next to plain dicts with the same items:
             flood compares data with ==, so the expectation is the plain-dict reading; outputs carry the very
             (typed) data of their input event.
  extreme    the statement says 'all pulsetimes >= 0': 86399 / 86400 / 86401 s, 86400.5 s, two days, 400 days, with
             gaps just below / at / above each and around one day; durations at and beyond 2**53 us (ms grid);
             chains that start in year 1 .. 9999.  Domain = the property's own (non-overlapping, ms grid) with
             every event's end a representable datetime (flood adds duration to timestamp).
  fault      data nested 300 / 600 / 900 deep and a one-off MemoryError injected into copy.deepcopy at the first /
             last / a random invocation: the call raises (RecursionError / the MemoryError) or returns exactly what
             the fault-free call returns - never another result; the caller's objects are untouched either way.
"""
import copy
import time

from . import txedge as TE
from . import txhist as TX
from .evutil import BASE, pulse_us

MODULE = "aw_transform.flood"
S = 1_000_000
DATA = [{"app": "a"}, {"app": "b"}, {"app": "a", "n": 1}]


class FloodEdge:
    def __init__(self, flood, kind="list", fault=None):
        self.flood, self.kind, self.fault = flood, kind, fault
        self.handed = self.raised = None
        self.copies = 0

    def __call__(self, objs, p):
        self.handed = TE.Handed(self.kind, objs) if self.kind != "list" else None
        with TE.DeepcopyFault(self.fault) as f:
            how, val = TE.under_default_limit(self.flood, self.handed.arg if self.handed else objs, p)
        self.copies = f.calls
        if how == "raised":
            self.raised = val
            raise val
        return val


class Edge:
    def __init__(self, R):
        self.R, self.ck = R, R.ck
        self.real = R.flood

    def one(self, stream, p, specs, container="list", fault=None, allow=(), judged=True, expected=None):
        """fresh objects from `specs` [(ts, dur, data, id)] -> (verdict text or None, output views or "raised", stand-in)"""
        R, ck, c10 = self.R, self.ck, self.R.c10
        route = f"edge:{container}" + (f"+deepcopy-fault@{fault}" if fault is not None else "")
        F = FloodEdge(self.real, container, fault)
        with TE.harness_limit():
            objs = TE.build(R.Event, specs)
            before = TE.snap(objs)
            R.flood = F
            try:
                inp, out, bad = R.verdict("direct", p, objs)
            finally:
                R.flood = self.real
            if bad and F.raised is not None and isinstance(F.raised, tuple(allow)):
                ck.count(f"{stream}:raises {type(F.raised).__name__} (allowed by the fault rule)")
                bad, out = None, "raised"
            elif bad == "skip":          # a shuffled hand-over reordered a tie: out of the property's domain
                ck.count(f"{stream}: out of domain after the shuffle (skipped)")
                return None, out, F
            if expected is not None and out != "raised" and not bad and out != expected:
                bad = f"fault: returned {c10.rel(out)} where the fault-free call returns {c10.rel(expected)}"
            if not (bad or "").startswith("input-modified"):
                m = TE.changed(objs, before) or (F.handed.touched() if F.handed else None)
                if m:
                    bad = "input-modified: input modified: " + m
        ck.count("stream:" + stream)
        if not judged:
            return bad, out, F
        rep = lambda: TE.edge_replay(MODULE, "flood", [(container, specs)], scalars=[p],      # noqa: E731
                                     fault=({"deepcopy_raises": "MemoryError", "nth": fault} if fault is not None else None),
                                     observed=out if isinstance(out, str) else c10.rel(out)[:40])
        ck.note_case([stream, container, pulse_us(p), [(t, d, TE.show(x, 80), i) for t, d, x, i in specs[:40]], len(specs)],
                     nontrivial=out != "raised" and (len(out) < len(inp) or any(a != b for a, b in zip(inp, out))))
        if bad:
            ck.failing_input("C10:" + bad.split(":")[0], f"[{stream}/{route}] " + (bad if len(bad) < 900 else bad[:900] + " ..."), rep())
        if out != "raised" and not (bad or "").startswith("raised"):
            if TE.wire_ok([v for t, d, _, _ in specs for v in (t, d, t + d)] + [pulse_us(p)]):
                R.pending.append((stream, p, inp, out, c10.wire_case(pulse_us(p), inp), rep))
            else:
                ck.count(f"{stream}: beyond the driver's 63-bit integers (oracle only)")
        return bad, out, F


# --------------------------------------------------------------------------- generators


def chain(t0, parts, unit=1000):
    """parts: (gap, dur, data) in `unit`s -> specs with ids"""
    t, specs = t0, []
    for j, (g, d, x) in enumerate(parts):
        t += g * unit
        specs.append((t, d * unit, x, j))
        t += d * unit
    return specs


def gen_dicttype(rng, n):
    kinds = list(TE.DICT_KINDS) + ["defaultdict(int)", "plain"]
    for k1 in kinds:
        for k2 in (k1, "plain"):
            for g in (1, 2, 3):     # below / at / above the pulsetime of 2 units
                a, a2, b = TE.exotic(DATA[2], k1), TE.exotic(DATA[2], k2), TE.exotic(DATA[1], k1)
                yield 2, chain(BASE, [(0, 3, a), (g, 1, a2), (1, 1, b), (g, 3, TE.exotic(DATA[1], k2))], S)
                yield 2, chain(BASE, [(0, 1, a), (g, 3, a2), (2, 0, b)], S)
    for _ in range(n):
        parts = [(rng.choice([0, 1, 2, 3]), rng.choice([0, 1, 3]), TE.exotic(rng.choice(DATA), rng.choice(kinds))) for _ in range(rng.choice([2, 3, 4, 5]))]
        specs = chain(BASE, [(0,) + parts[0][1:]] + parts[1:], S)
        if rng.random() < 0.5:
            specs = rng.sample(specs, len(specs))
        yield 2, specs


def gen_extreme(rng, n):
    ms = 1000
    # pulsetimes of a day and more, gaps around one day and around the pulsetime
    for p in TE.PULSES_DAY:
        P = pulse_us(p)
        edges = sorted({86_399 * S, 86_400 * S, 86_401 * S, P // ms * ms - ms, P // ms * ms, P // ms * ms + ms})
        for g1 in edges:
            for (d1, d2, same) in ((3 * S, S, True), (S, 3 * S, False), (0, S, True), (S, S, False)):
                yield p, chain(BASE, [(0, d1 // ms, DATA[0]), (g1 // ms, d2 // ms, DATA[0] if same else DATA[1]),
                                      (edges[-1] // ms + 5, 1, DATA[1])], ms)
            for g2 in edges[::2]:
                yield p, chain(BASE, [(0, 1000, DATA[0]), (g1 // ms, 2000, DATA[1]), (g2 // ms, 1000, DATA[0])], ms)
    # durations at and beyond 2**53 us
    for d in TE.EXTREME_DURS_MS:
        for p in (2, 86400):
            for g in (0, 1, pulse_us(p) // ms, pulse_us(p) // ms + 1):
                yield p, chain(TE.instant(1000), [(0, d // ms, DATA[0]), (g, 5, DATA[0]), (g, d // ms, DATA[1]), (g, 0, DATA[1])], ms)
    # chains far from the present
    for t0 in TE.FAR_INSTANTS:
        for g in (1, 2, 3):
            specs = chain(t0, [(0, 3, DATA[0]), (g, 1, DATA[0]), (g, 2, DATA[1]), (4 - g, 0, DATA[0])], S)
            if TE.in_range(specs[-1][0] + specs[-1][1]):
                yield 2, specs
    # ... ending exactly at the last millisecond of the datetime range
    for g in (1, 2, 3):
        yield 2, chain(TE.DT_MAX_MS - (9 + 2 * g) * S, [(0, 3, DATA[0]), (g, 1, DATA[0]), (g, 5, DATA[1])], S)
    for _ in range(n):
        p = rng.choice(TE.PULSES_DAY + [0, 2, 5, 0.002])
        P = pulse_us(p) // ms
        near = [0, 1, max(0, P - 1), P, P + 1, 86_399_000, 86_400_000, 86_401_000]
        parts = []
        for j in range(rng.choice([2, 3, 4, 6])):
            d = rng.choice([0, 1, 5000, 86_400_000] + [x // ms for x in TE.EXTREME_DURS_MS[:5]] * (rng.random() < 0.3))
            parts.append((0 if j == 0 else rng.choice(near), d, rng.choice(DATA)))
        specs = chain(rng.choice(TE.FAR_INSTANTS[:12] + [BASE] * 6), parts, ms)
        if not TE.in_range(specs[-1][0] + specs[-1][1]):
            continue
        if rng.random() < 0.5:
            specs = rng.sample(specs, len(specs))
        yield p, specs


def gen_deep():
    for depth in (300, 600, 900):
        for shape in ("dict", "list", "mixed"):
            for g in (1, 3):
                mk = lambda leaf: {"app": "a", "blob": TE.nested(depth, shape, leaf)}      # noqa: E731
                yield 2, chain(BASE, [(0, 3, mk("x")), (g, 1, mk("x")), (g, 2, mk("y")), (1, 0, {"app": "b"})], S)
                yield 2, chain(BASE, [(0, 1, {"app": "b"}), (g, 3, {"app": "b"}), (g, 2, mk("x"))], S)


# --------------------------------------------------------------------------- the streams


def run(R):
    ck, c10 = R.ck, R.c10
    rng = ck.rng
    quick = ck.tier == "quick"
    t0 = time.time()
    E = Edge(R)
    TX.make_room(ck)

    # -- containers
    corpus = [c for c in list(c10.gen_grid(rng, 2, 150 if quick else 5000)) + list(c10.gen_random(rng, 150 if quick else 5000)) if len(c[2]) >= 1]
    corpus = [(p, [(t, d, x, i) for i, (t, d, x) in enumerate(evs)]) for (_, p, evs) in corpus]
    corpus = [(p, specs) for p, specs in corpus if c10.in_domain(sorted([(i, t, d, 0) for t, d, _, i in specs], key=lambda v: v[1]))]
    plans = [k[0] for k in TE.container_plans("flood")]
    n_cont = 0
    for j, (p, specs) in enumerate(corpus):
        for kind in (plans if j < 40 else [plans[j % len(plans)], plans[(j + 3) % len(plans)]]):
            n_cont += 1
            ck.count("container:" + kind)
            E.one("container", p, specs, container=kind)
    for (kind,) in TE.left_out_plans("flood"):
        for p, specs in corpus[5:60:27]:
            bad, out, F = E.one("container-left-out", p, specs, container=kind, judged=False)
            ck.count(f"container-left-out:flood/{kind}: " + (f"raises {type(F.raised).__name__}" if F.raised is not None else "returns"))

    # -- data dict types
    for p, specs in gen_dicttype(rng, 250 if quick else 20_000):
        E.one("dicttype", p, specs, container=rng.choice(["list", "list", "tuple", "deque"]))

    # -- numeric extremes
    n_ext = 0
    for p, specs in gen_extreme(rng, 600 if quick else 50_000):
        n_ext += 1
        E.one("extreme", p, specs)

    # -- faults
    for p, specs in gen_deep():
        E.one("deep", p, specs, allow=(RecursionError,))
    n_fault = 0
    for p, specs in corpus[3:: max(1, len(corpus) // (25 if quick else 400))]:
        # a Fragile value in every event's data: the fault can also strike INSIDE the copy of the list (txedge.Fragile)
        specs = [(t, d, dict(x, f=TE.Fragile("v")), i) for t, d, x, i in specs]
        bad, out, F = E.one("deepcopy-dry-run", p, specs)
        ck.count("deepcopy steps per call: %s" % ("0" if not F.copies else "1" if F.copies == 1 else ">1"))
        if bad or not F.copies:
            continue
        for nth in sorted({0, min(1, F.copies - 1), F.copies - 1, rng.randrange(F.copies)}):
            n_fault += 1
            for kind in ("list", rng.choice(["tuple", "deque", "iter"])):
                E.one("deepcopy-fault", p, specs, container=kind, fault=nth, allow=(MemoryError,), expected=out)
    ck.coverage["round5"] = {
        "container": f"{n_cont} calls: {len(corpus)} in-domain grid / random chains handed over as {plans} (all kinds on the first 40, two each "
                     f"after that); left out (counted only): {[k[0] for k in TE.left_out_plans('flood')]} - {TE.OBSERVATIONS['flood']}",
        "dicttype": "chains whose data are " + ", ".join(TE.DICT_KINDS) + " next to plain dicts with the same items; gaps below / at / above the pulsetime",
        "extreme": f"{n_ext} chains: pulsetimes {TE.PULSES_DAY} s with gaps around one day and around the pulsetime, durations at and beyond 2**53 us, "
                   "chains starting in years 1 .. 9999 and ending at the last representable millisecond",
        "fault": f"data nested 300 / 600 / 900 deep (RecursionError or the exact result); {n_fault} injected MemoryErrors in copy.deepcopy x 2 containers",
        "wall_s": round(time.time() - t0, 1)}
