"""C07, round 5: ENGINE FAULTS the caller survives, inside the standard loop.

One call of the engine - the COMMIT a read or a write issues, the INSERT / UPDATE / DELETE of a write - fails ONCE (or
`times` consecutive calls of the kind: a lock held a little longer), the storage call propagates the exception, the
caller (harness/c07_life.py) catches it and carries on with the same storage object: it repeats the round of the
loop, or skips the heartbeat, or deletes / creates the bucket again.  Two mechanisms, same positions:

  "wrap"  the call raises before it reaches the engine (sqlite3.OperationalError 'database is locked' from a
          delegating wrapper of the storage's connection; peewee.OperationalError from the database's execute_sql);
  "auth"  the ENGINE refuses the statement: the connection's authorizer denies exactly the counted statement
          (SQLITE_AUTH at prepare time, 'not authorized'; for COMMIT the transaction stays open), nothing of the
          storage object is replaced but the counting wrapper;
  "lock"  (COMMIT on sqlite, file in rollback-journal mode) a second connection holds a shared lock: SQLITE_BUSY.

Positions are counted per step of the caller (one round of the loop = the limit-1 read + the write; one bucket
operation): kind "commit" = the n-th conn.commit() of the step (sqlite; peewee autocommits), kind "execute" = its
n-th INSERT / UPDATE / DELETE statement.  What the engine does on a fault (the assumption the expected values rest on,
sampled with a real lock in harness/c18_fault.py): a COMMIT that fails leaves the transaction open and loses
nothing; a statement that fails writes nothing and leaves the statements before it in the open transaction."""
import sqlite3

WRITE_KW = ("INSERT", "UPDATE", "DELETE", "REPLACE")
_WRITE_ACTIONS = (sqlite3.SQLITE_INSERT, sqlite3.SQLITE_UPDATE, sqlite3.SQLITE_DELETE)


def is_write(sql):
    try:
        return sql.lstrip().split(None, 1)[0].upper() in WRITE_KW
    except Exception:  # noqa: BLE001
        return False


class Engine:
    """counts the engine calls of the caller's step in progress; the armed one fails"""

    def __init__(self):
        self.armed = None
        self.n = {"commit": 0, "execute": 0}
        self.fired = 0
        self.position = None        # (kind, index, sql keyword) of the call that failed

    def arm(self, kind, nth, mech="wrap", times=1):
        self.n = {"commit": 0, "execute": 0}
        self.fired = 0
        self.position = None
        self.armed = (kind, nth, mech, times)

    def disarm(self):
        self.armed = None
        return self.fired

    def hit(self, kind):
        """-> None | "wrap" | "auth": what to do with this engine call"""
        i = self.n[kind]
        self.n[kind] += 1
        a = self.armed
        if a and a[0] == kind and a[1] <= i < a[1] + a[3] and self.fired == i - a[1]:
            return a[2]
        return None

    def note(self, kind, what=None):
        self.fired += 1
        if self.position is None:
            self.position = (kind, self.n[kind] - 1, what)


def _deny_once(real_conn, eng, kind, pred, thunk, what=None):
    """run thunk() with an authorizer on the real sqlite3 connection that denies the first action `pred` accepts"""
    state = {"armed": True}

    def authorizer(action, a1, a2, dbname, source):
        if state["armed"] and pred(action, a1):
            state["armed"] = False
            return sqlite3.SQLITE_DENY
        return sqlite3.SQLITE_OK
    real_conn.set_authorizer(authorizer)        # (also expires the prepared statements: the next one is compiled anew)
    try:
        return thunk()
    finally:
        real_conn.set_authorizer(None)
        if not state["armed"]:
            eng.note(kind, what)


def _locked():
    return sqlite3.OperationalError("database is locked")


def _commit_under_a_real_lock(real_conn, eng):
    """mechanism "lock" (the file in rollback-journal mode, busy_timeout 20 ms: store option "journal": "delete"): a second
    connection sits inside a read transaction, so the storage's COMMIT cannot get the exclusive lock and the engine
    itself answers SQLITE_BUSY ('database is locked'); nothing of the storage object is touched"""
    path = real_conn.execute("PRAGMA database_list").fetchall()[0][2]
    reader = sqlite3.connect(path, timeout=0.02, isolation_level=None)
    try:
        try:
            reader.execute("BEGIN")
            reader.execute("SELECT count(*) FROM sqlite_master").fetchall()       # a shared lock, held
        except sqlite3.OperationalError:
            # (the storage's connection still holds the PENDING lock of a COMMIT that failed: no new reader gets in - no fault)
            return real_conn.commit()
        try:
            return real_conn.commit()
        except sqlite3.OperationalError:
            eng.note("commit", "COMMIT")
            raise
    finally:
        reader.close()


class FaultyCursor:
    def __init__(self, real, conn):
        self.__dict__["_real"] = real
        self.__dict__["_conn"] = conn

    def execute(self, sql, *a):
        return self._conn._statement(self._real.execute, sql, a)

    def executemany(self, sql, *a):
        return self._conn._statement(self._real.executemany, sql, a)

    def __iter__(self):
        return iter(self._real)

    def __getattr__(self, name):
        return getattr(self._real, name)

    def __setattr__(self, name, v):
        setattr(self._real, name, v)


class FaultyConnection:
    """delegates to the storage's real sqlite3 connection"""

    def __init__(self, real, eng):
        self.__dict__["_real"] = real
        self.__dict__["_eng"] = eng

    def _statement(self, call, sql, a):
        if is_write(sql):
            kw = sql.lstrip().split(None, 1)[0].upper()
            how = self._eng.hit("execute")
            if how == "wrap":
                self._eng.note("execute", kw)
                raise _locked()
            if how == "auth":
                return _deny_once(self._real, self._eng, "execute", lambda act, a1: act in _WRITE_ACTIONS,
                                  lambda: call(sql, *a), kw)
        return call(sql, *a)

    def commit(self):
        how = self._eng.hit("commit")
        if how == "wrap":
            self._eng.note("commit", "COMMIT")
            raise _locked()                  # nothing flushed, the transaction stays open
        if how == "lock":
            return _commit_under_a_real_lock(self._real, self._eng)
        if how == "auth":
            return _deny_once(self._real, self._eng, "commit",
                              lambda act, a1: act == sqlite3.SQLITE_TRANSACTION and a1 == "COMMIT", self._real.commit, "COMMIT")
        return self._real.commit()

    def execute(self, sql, *a):
        return self._statement(self._real.execute, sql, a)

    def executemany(self, sql, *a):
        return self._statement(self._real.executemany, sql, a)

    def cursor(self, *a, **k):
        return FaultyCursor(self._real.cursor(*a, **k), self)

    def __getattr__(self, name):
        return getattr(self._real, name)

    def __setattr__(self, name, v):
        setattr(self._real, name, v)


def install(backend, st):
    """-> (Engine, undo) for a storage object of the back end; None for the memory back end (no engine)"""
    eng = Engine()
    if backend == "sqlite":
        real = st.conn
        st.conn = FaultyConnection(real, eng)

        def undo():
            st.conn = real
        return eng, undo
    if backend == "peewee":
        import peewee
        db = st.db
        orig = db.execute_sql

        def execute_sql(sql, params=None, *a, **k):
            if is_write(sql):
                kw = sql.lstrip().split(None, 1)[0].upper()
                how = eng.hit("execute")
                if how == "wrap":
                    eng.note("execute", kw)
                    raise peewee.OperationalError("database is locked")
                if how == "auth":
                    return _deny_once(db.connection(), eng, "execute", lambda act, a1: act in _WRITE_ACTIONS,
                                      lambda: orig(sql, params, *a, **k), kw)
            return orig(sql, params, *a, **k)
        db.execute_sql = execute_sql         # instance attribute of the module-level database object: removed by undo

        def undo():
            try:
                del db.execute_sql
            except AttributeError:
                pass
        return eng, undo
    return None, (lambda: None)
