"""Full build: Gen regeneration, _CoqProject, make -j16 of every .v, every driver."""
import glob
import os
import sys

from . import common


def main():
    log = []
    hits = common.forbidden_scan()
    if hits:
        print("forbidden constructs:\n  " + "\n  ".join(hits))
        return 1
    failed = common.regenerate_gen(log)
    for k, why in failed.items():
        print(f"warning: translator refused {k}: {why}")
    common.regen_coqproject()
    ok, out = common.coq_make([], log, jobs=16, timeout=5400)
    if not ok:
        print(out[-3000:])
        print("setup: Coq build failed")
        return 1
    rc = 0
    for ex in sorted(glob.glob(os.path.join(common.COQ, "Extract", "Ex*.v"))):
        name = os.path.basename(ex)[:-2]
        prop = name[2:]
        ok, out = common.build_driver(prop, log, name)
        if not ok:
            print(out[-2000:])
            print(f"setup: driver for {prop} failed")
            rc = 1
    print("setup: ok" if rc == 0 else "setup: FAILED")
    return rc


if __name__ == "__main__":
    sys.exit(main())
