"""Full build: Gen regeneration, _CoqProject, make -j16 of every .v, every driver."""
import glob
import os
import sys

from . import common


def claimed_targets():
    """Build what the claimed properties need (manifest.d/Cxx.json, key _build), so that a
    work-in-progress file of an unclaimed property cannot break setup."""
    import json
    targets, drivers = [], []
    ready = set(json.load(open(os.path.join(common.VERIF, "manifest.d", "_ready.json"))))
    for f in sorted(glob.glob(os.path.join(common.VERIF, "manifest.d", "C*.json"))):
        c = json.load(open(f))
        b = c.get("_build", {})
        pid = c["property_id"]
        if pid not in ready:
            continue
        targets += [t + "o" for t in b.get("targets", [f"Props/{pid}.v"])]
        for d in b.get("drivers", [f"Ex{pid}"]):
            drivers.append((d[2:] if d.startswith("Ex") else d, d))
    return sorted(set(targets)), drivers


def main():
    log = []
    hits = common.forbidden_scan()
    if hits:
        print("forbidden constructs:\n  " + "\n  ".join(hits))
        return 1
    targets, drivers = claimed_targets()
    ok, out = common.coq_make(targets, log, jobs=16, timeout=5400)
    for k, why in getattr(common.coq_make, "last_translate_failures", {}).items():
        print(f"warning: translator refused {k}: {why}")
    if not ok:
        print(out[-3000:])
        print("setup: Coq build failed")
        return 1
    rc = 0
    for prop, name in drivers:
        ok, out = common.build_driver(prop, log, name)
        if not ok:
            print(out[-2000:])
            print(f"setup: driver for {prop} failed")
            rc = 1
    print("setup: ok" if rc == 0 else "setup: FAILED")
    return rc


if __name__ == "__main__":
    sys.exit(main())
