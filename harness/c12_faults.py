"""C12, first sentence, for queries whose STORAGE READ fails -- and with the "before" state taken from what the
harness WROTE, not from a read.

Round 5.  "Running any query, successful or failing, leaves every bucket's events and metadata exactly as they
were": the dump-before / dump-after oracle of harness/c12.py reads every bucket before the query, and a read is
not neutral on every back end (the sqlite store commits its lazily committed writes before a SELECT).  A query
that fails INSIDE the store -- an event that cannot be decoded (its end lies beyond year 9999: replace / replace_last /
insert have no range check), a one-off engine fault while the statement runs or while rows are fetched, a fault
in the storage method before / after the engine did its work -- can therefore only be judged against a record the
harness keeps of its own writes: `Ledger`.  A scenario is

    writes nobody has read yet (insert_one / insert_many / replace / replace_last / delete, 1..45 statements,
    in the bucket the query reads and in the others)  ->  one query with a fault armed (or none)  ->
    every bucket read back and compared with the ledger  ->  the same query again without the fault, compared
    with the direct windowed read.

Faults are injected below the storage API, never into aw-core's own code paths by name:
  sqlite  `storage.conn` is replaced by a delegating proxy: the k-th SELECT of the query raises
          sqlite3.OperationalError at execute() or after j fetched rows;
  peewee  `db.execute_sql` of the bound database: the k-th SELECT raises peewee.OperationalError;
  all     the storage object's read method raises before / after doing its work; the unreadable stored event."""
import json
import sqlite3
from datetime import datetime, timedelta, timezone

from .evutil import BASE, dt, us_of_dt, us_of_td

FAR = datetime(9999, 12, 31, 23, 59, 59, tzinfo=timezone.utc)       # + 5 s of duration = year 10000
NEAR_LO, NEAR_HI = dt(BASE - 86_400_000_000), dt(BASE + 86_400_000_000)


class InjectedFault(Exception):
    pass


# ---------------------------------------------------------------------------
# the harness's own record of what it wrote

class Ledger:
    """bucket -> list of {"id", "ts" (us | "far"), "dur" (us), "data"}; metadata as read right after the buckets were
    created (before any event was written)"""

    def __init__(self, storage, Event):
        self.st = storage
        self.Event = Event
        self.rows = {}
        self.meta = {}
        self.ops = []            # replayable text of every write since the last read-back
        self.pending = 0         # statements written since the last read-back

    def create(self, b, host):
        self.st.create_bucket(b, "currentwindow", "c", host, "2020-01-01T00:00:00+00:00", None, {"owner": b})
        self.rows[b] = []

    def baseline_metadata(self):
        for b in self.rows:
            self.meta[b] = json.dumps(self.st.get_metadata(b), sort_keys=True, default=str)

    def _event(self, ts, dur, data):
        return self.Event(timestamp=(FAR if ts == "far" else dt(ts)), duration=timedelta(microseconds=dur), data=dict(data))

    def _log(self, text, n=1):
        self.ops.append(text)
        self.pending += n

    def insert_one(self, b, ts, dur, data):
        e = self.st.insert_one(b, self._event(ts, dur, data))
        self.rows[b].append({"id": getattr(e, "id", None), "ts": ts, "dur": dur, "data": data})
        self._log(f"insert_one({b!r}, timestamp={ts}, duration={dur} us, data={json.dumps(data)})")

    def insert_many(self, b, items):
        self.st.insert_many(b, [self._event(ts, dur, data) for ts, dur, data in items])
        for ts, dur, data in items:
            self.rows[b].append({"id": None, "ts": ts, "dur": dur, "data": data})
        self._log(f"insert_many({b!r}, {[(ts, dur, json.dumps(d)) for ts, dur, d in items]})", len(items))

    def last(self, b):
        """the event replace_last addresses (timestamps within a bucket are distinct in these scenarios)"""
        rows = self.rows[b]
        return max(rows, key=lambda r: (float("inf") if r["ts"] == "far" else r["ts"])) if rows else None

    def replace_last(self, b, ts, dur, data):
        r = self.last(b)
        if r is None:
            return False
        self.st.replace_last(b, self._event(ts, dur, data))
        r.update(ts=ts, dur=dur, data=data)
        self._log(f"replace_last({b!r}, timestamp={ts}, duration={dur} us, data={json.dumps(data)})")
        return True

    def with_id(self, b):
        return [r for r in self.rows[b] if r["id"] is not None]

    def replace(self, b, r, ts, dur, data):
        self.st.replace(b, r["id"], self._event(ts, dur, data))
        r.update(ts=ts, dur=dur, data=data)
        self._log(f"replace({b!r}, id {r['id']}, timestamp={ts}, duration={dur} us, data={json.dumps(data)})")

    def delete(self, b, r):
        self.st.delete(b, r["id"])
        self.rows[b].remove(r)
        self._log(f"delete({b!r}, id {r['id']})")

    # -- comparing
    def expected(self, b, near_only):
        rows = [r for r in self.rows[b] if not (near_only and r["ts"] == "far")]
        return sorted((r["ts"] if r["ts"] != "far" else us_of_dt(FAR), r["dur"], json.dumps(r["data"], sort_keys=True)) for r in rows)

    def known_ids(self, b, near_only):
        return sorted(r["id"] for r in self.rows[b] if r["id"] is not None and not (near_only and r["ts"] == "far"))

    def read_back(self):
        """every bucket as the store has it now vs. as written; -> list of differences (empty = exactly as written)"""
        diffs = []
        try:
            names = sorted(self.st.buckets())
        except Exception as ex:
            ops, self.ops, self.pending = self.ops, [], 0
            return [{"bucket": None, "what": f"buckets() raises {type(ex).__name__}"}], ops
        if names != sorted(self.rows):
            diffs.append({"bucket": None, "what": "set of buckets", "written": sorted(self.rows), "stored": names})
        for b in sorted(self.rows):
            if b not in names:
                continue
            near_only = False
            try:
                evs = self.st.get_events(b, -1)
            except Exception:
                # the bucket holds the event no read can decode: the events around BASE through a windowed read
                near_only = True
                try:
                    evs = self.st.get_events(b, -1, NEAR_LO, NEAR_HI)
                except Exception as ex:
                    diffs.append({"bucket": b, "what": f"the bucket cannot be read back ({type(ex).__name__})"})
                    continue
            got = sorted((us_of_dt(e.timestamp), us_of_td(e.duration), json.dumps(e.data, sort_keys=True)) for e in evs)
            want = self.expected(b, near_only)
            if got != want:
                diffs.append({"bucket": b, "what": "events", "n_written": len(want), "n_stored": len(got),
                              "written": want if len(want) <= 12 else "(see the writes)", "stored": got if len(got) <= 12 else "(long)",
                              "missing": [r for r in want if r not in got][:5], "unexpected": [r for r in got if r not in want][:5]})
            ids = {e.id for e in evs}
            lost = [i for i in self.known_ids(b, near_only) if i not in ids]
            if lost and got == want:
                diffs.append({"bucket": b, "what": "event ids", "ids_written_and_no_longer_there": lost[:10]})
            n = self.st.get_eventcount(b)
            if n != len(self.rows[b]):
                diffs.append({"bucket": b, "what": "event count", "written": len(self.rows[b]), "stored": n})
            m = json.dumps(self.st.get_metadata(b), sort_keys=True, default=str)
            if m != self.meta.get(b):
                diffs.append({"bucket": b, "what": "metadata", "written": self.meta.get(b), "stored": m})
        ops, self.ops, self.pending = self.ops, [], 0
        return diffs, ops


# ---------------------------------------------------------------------------
# fault injection below the storage API

class Fault:
    """kind: None | "select" (k-th SELECT raises at execute) | "fetch" (k-th SELECT raises after j rows) |
    "method-before" / "method-after" (the storage read method raises before / after its work)"""

    def __init__(self, kind=None, k=0, j=0):
        self.kind, self.k, self.j = kind, k, j
        self.armed = False
        self.fired = None
        self.seen = 0

    def text(self):
        if self.kind is None:
            return "no fault"
        if self.kind == "select":
            return f"SELECT number {self.k} of the query raises OperationalError when executed (once)"
        if self.kind == "fetch":
            return f"SELECT number {self.k} of the query raises OperationalError after {self.j} fetched row(s) (once)"
        return f"the first storage read of events raises {'before' if self.kind == 'method-before' else 'after'} doing its work (once)"

    def hit_select(self, sql):
        """-> None | "execute" | "fetch" for this statement"""
        if not self.armed or self.kind not in ("select", "fetch") or not str(sql).lstrip().upper().startswith("SELECT"):
            return None
        n, self.seen = self.seen, self.seen + 1
        if n != self.k:
            return None
        return "execute" if self.kind == "select" else "fetch"


class CursorProxy:
    def __init__(self, cur, fault):
        self._c, self._f, self._left = cur, fault, None

    def execute(self, sql, *a):
        hit = self._f.hit_select(sql)
        if hit == "execute":
            self._f.armed, self._f.fired = False, "execute: " + " ".join(str(sql).split())[:80]
            raise sqlite3.OperationalError("disk I/O error (injected once)")
        self._c.execute(sql, *a)
        self._left = self._f.j if hit == "fetch" else None
        if hit == "fetch":
            self._sql = " ".join(str(sql).split())[:80]
        return self

    def _tick(self):
        if self._left is not None:
            if self._left == 0:
                self._left = None
                self._f.armed, self._f.fired = False, "fetch: " + self._sql
                raise sqlite3.OperationalError("disk I/O error (injected once)")
            self._left -= 1

    def __iter__(self):
        return self

    def __next__(self):
        self._tick()
        return next(self._c)

    def fetchone(self):
        self._tick()
        return self._c.fetchone()

    def fetchall(self):
        return list(self)

    def __getattr__(self, name):
        return getattr(self._c, name)


class ConnProxy:
    """stands in for a sqlite3.Connection (which has no writable attributes): everything is delegated"""

    def __init__(self, conn, fault):
        self._conn, self._f = conn, fault

    def cursor(self, *a, **k):
        return CursorProxy(self._conn.cursor(*a, **k), self._f)

    def execute(self, sql, *a):
        return CursorProxy(self._conn.cursor(), self._f).execute(sql, *a)

    def __enter__(self):
        self._conn.__enter__()
        return self

    def __exit__(self, *exc):
        return self._conn.__exit__(*exc)

    def __getattr__(self, name):
        return getattr(self._conn, name)


class Injector:
    def __init__(self, backend, storage):
        self.backend, self.st = backend, storage
        self.fault = Fault()
        self.undo = []
        if backend == "sqlite":
            real = storage.conn
            storage.conn = ConnProxy(real, self)
            self.undo.append(lambda: setattr(storage, "conn", real))
        elif backend == "peewee":
            import peewee
            db = storage.db
            orig = db.execute_sql

            def execute_sql(sql, *a, **k):
                if self.fault.hit_select(sql):
                    self.fault.armed, self.fault.fired = False, "execute: " + " ".join(str(sql).split())[:80]
                    raise peewee.OperationalError("disk I/O error (injected once)")
                return orig(sql, *a, **k)
            db.execute_sql = execute_sql
            self.undo.append(lambda: delattr(db, "execute_sql"))
        for name in ("get_events", "get_eventcount"):
            self._wrap_method(name)

    # the proxies ask the injector, which forwards to the fault armed at the moment
    def hit_select(self, sql):
        return self.fault.hit_select(sql)

    @property
    def j(self):
        return self.fault.j

    @property
    def armed(self):
        return self.fault.armed

    @armed.setter
    def armed(self, v):
        self.fault.armed = v

    @property
    def fired(self):
        return self.fault.fired

    @fired.setter
    def fired(self, v):
        self.fault.fired = v

    def _wrap_method(self, name):
        orig = getattr(self.st, name)
        had = name in vars(self.st)

        def f(*a, **k):
            fl = self.fault
            if fl.armed and fl.kind == "method-before":
                fl.armed, fl.fired = False, name + " (before)"
                raise InjectedFault("storage read failed (injected once)")
            r = orig(*a, **k)
            if fl.armed and fl.kind == "method-after":
                fl.armed, fl.fired = False, name + " (after)"
                raise InjectedFault("storage read failed (injected once)")
            return r
        setattr(self.st, name, f)
        self.undo.append((lambda: setattr(self.st, name, orig)) if had else (lambda: delattr(self.st, name)))

    def arm(self, fault):
        self.fault = fault
        fault.armed, fault.seen, fault.fired = fault.kind is not None, 0, None

    def disarm(self):
        self.fault.armed = False

    def remove(self):
        for u in reversed(self.undo):
            u()
        self.undo = []


def committed_rows(storage):
    """number of event rows a second connection sees (= what is committed)"""
    path = [r[2] for r in storage.conn.execute("PRAGMA database_list").fetchall() if r[1] == "main"][0]
    con = sqlite3.connect(path, timeout=5)
    try:
        return con.execute("SELECT count(*) FROM events").fetchone()[0]
    finally:
        con.close()


# ---------------------------------------------------------------------------
# scenarios

APPS = ["firefox", "code", "term", "slack"]
RULES = '[[["Work"], {"type": "regex", "regex": "code|term"}]]'


def fault_kinds(backend):
    ks = [("none",), ("unreadable", "replace_last"), ("unreadable", "replace"), ("unreadable", "insert"),
          ("method-before",), ("method-after",)]
    if backend in ("sqlite", "peewee"):
        ks += [("select", 0), ("select", 1), ("select", 2), ("select", 3)]
    if backend == "sqlite":
        ks += [("fetch", 0, 0), ("fetch", 1, 0), ("fetch", 1, 1), ("fetch", 2, 0), ("fetch", 2, 2), ("fetch", 3, 1)]
    return ks


def programs(target, other):
    """(label, statements): the read that is to fail comes first, after another read, after a built-in that changed
    what an earlier read returned, as a count"""
    return [
        ("read", [f'RETURN = query_bucket("{target}")']),
        ("count", [f'RETURN = query_bucket_eventcount("{target}")']),
        ("read-after-read", [f'e0 = query_bucket("{other}")', f'e1 = query_bucket("{target}")', "RETURN = concat(e0, e1)"]),
        ("read-after-builtin", [f'e0 = query_bucket("{other}")', f"e0 = categorize(e0, {RULES})", f'n = query_bucket_eventcount("{target}")',
                                f'e1 = query_bucket("{target}")', 'RETURN = {"e0": e0, "e1": e1, "n": n}']),
        ("read-twice", [f'e1 = query_bucket("{target}")', f'e2 = query_bucket("{target}")', "RETURN = e2"]),
    ]


WRITE_SHAPES = ["one-elsewhere", "one-in-target", "five", "mixed", "many", "bulk", "none"]


def pending_writes(led, rng, shape, buckets, target, clock):
    """writes nobody reads before the query; timestamps are distinct within a bucket (clock)"""
    def ev():
        clock[0] += rng.choice([1000, 500_000, 1_000_000, 3_000_000])
        return (BASE + clock[0], rng.choice([0, 1000, 250_000, 4_000_000]), {"app": rng.choice(APPS), "title": "pending write", "n": clock[0]})
    others = [b for b in buckets if b != target] or [target]
    if shape == "none":
        return
    if shape == "one-elsewhere":
        led.insert_one(rng.choice(others), *ev())
    elif shape == "one-in-target":
        led.insert_one(target, *ev())
    elif shape == "five":
        b = rng.choice(others)
        for _ in range(5):
            led.insert_one(b, *ev())
    elif shape == "bulk":
        led.insert_many(rng.choice(buckets), [ev() for _ in range(rng.choice([1, 3, 12]))])
        led.insert_one(rng.choice(others), *ev())
    else:
        n = rng.randrange(3, 8) if shape == "mixed" else rng.randrange(25, 44)
        for _ in range(n):
            b = rng.choice(buckets)
            r = rng.random()
            ided = led.with_id(b)
            if r < 0.55 or not led.rows[b]:
                led.insert_one(b, *ev())
            elif r < 0.7 and ided:
                led.replace(b, rng.choice(ided), *ev())
            elif r < 0.85:
                led.replace_last(b, *ev())
            elif ided:
                led.delete(b, rng.choice(ided))
            else:
                led.insert_one(b, *ev())


def run_fault_rounds(backend, fac, rng, Event, Datastore, query2, QueryException, rep, count, n_random, seed):
    """one storage per round of scenarios (the read-back after a scenario is the next one's clean start)"""
    from . import c12_reads as reads
    kinds = fault_kinds(backend)
    # (every single write of the peewee store is a transaction of its own, some 10 ms each: short write shapes there)
    shapes = [w for w in WRITE_SHAPES[:-1] if not (backend == "peewee" and w in ("many", "five"))]
    corpus = []
    for i, fk in enumerate(kinds):
        for pi in range(5):
            # every fault kind with every program shape; the write shapes rotate
            corpus.append((fk, pi, shapes[(i + pi) % len(shapes)]))
    for pi in range(5):
        corpus.append((("none",), pi, "none"))
    scen = corpus + [(rng.choice(kinds), rng.randrange(5), rng.choice(shapes)) for _ in range(n_random)]
    per_round = 24
    for r0 in range(0, len(scen), per_round):
        storage = fac()
        led = Ledger(storage, Event)
        buckets = ["b1", "b2", "b3"][:1 + (r0 // per_round) % 3] if r0 else ["b1", "b2", "b3"]
        for i, b in enumerate(buckets):
            led.create(b, "host%d" % (i % 2))
        led.baseline_metadata()
        clock = [0]
        for b in buckets:                      # some committed content
            led.insert_many(b, [(BASE + 1000 * i, 1000, {"app": APPS[i % 4], "title": "committed", "n": i}) for i in range(-3, 0)])
        led.read_back()
        inj = Injector(backend, storage)
        ds = Datastore(lambda testing=False, **kw: storage)
        for fk, pi, shape in scen[r0:r0 + per_round]:
            target = rng.choice(buckets)
            other = rng.choice(buckets)
            label, stmts = programs(target, other)[pi]
            text = ";\n".join(stmts) + ";"
            a = BASE - 5_000_000
            b = BASE + clock[0] + rng.choice([0, 1_000_000, 120_000_000])
            st, en = dt(a), dt(b).astimezone(timezone(timedelta(minutes=rng.choice([0, 60, 345]))))
            far = None
            if fk[0] == "unreadable":
                # an event of the target bucket is moved / put where no read can decode it; the window reaches it
                if fk[1] == "replace_last":
                    if not led.last(target):
                        led.insert_one(target, BASE + clock[0] + 1000, 0, {"app": "x", "title": "moved later"})
                        clock[0] += 1000
                elif fk[1] == "replace" and not led.with_id(target):
                    led.insert_one(target, BASE + clock[0] + 1000, 0, {"app": "x", "title": "moved later"})
                    clock[0] += 1000
                en = FAR
            pending_writes(led, rng, shape, buckets, target, clock)
            if fk[0] == "unreadable":
                data = {"app": "term", "title": "ends in year 10000"}
                if fk[1] == "replace_last":
                    led.replace_last(target, "far", 5_000_000, data)
                elif fk[1] == "replace":
                    led.replace(target, rng.choice(led.with_id(target)), "far", 5_000_000, data)
                else:
                    led.insert_one(target, "far", 5_000_000, data)
                far = led.last(target)
                fault = Fault()
            elif fk[0] == "none":
                fault = Fault()
            else:
                fault = Fault(fk[0], *fk[1:])
            n_pending = led.pending
            inj.arm(fault)
            status = "ok"
            try:
                query2.query("q", text, st, en, ds)
            except QueryException as ex:
                status = "query-error:" + type(ex).__name__
            except Exception as ex:
                status = "other-error:" + type(ex).__name__
            finally:
                inj.disarm()
            # tie to Model/CommitReadFault.v (sqlite): the failing read's script is [Commit; ReadFails] -- when the statement
            # that failed is the read of events / the count, everything written is durable at that point: a second
            # connection sees as many event rows as the ledger has
            durable = None
            if backend == "sqlite" and status != "ok" and (fk[0] == "unreadable" or (fault.fired and fault.kind in ("select", "fetch")
                                                                                    and "FROM events" in fault.fired)):
                durable = committed_rows(storage)
                count("fault-scenario:sqlite:second connection looked at the committed rows after the failing read")
            diffs, ops = led.read_back()
            count("fault-scenario:" + fk[0])
            count("fault-scenario:query-" + status.split(":")[0])
            count("fault-scenario:writes-pending-when-the-query-ran", n_pending)
            if fault.kind is not None:
                count("fault-scenario:fault-fired" if fault.fired else "fault-scenario:fault-not-reached")
            replay = {"backend": backend, "population_seed": seed, "buckets": buckets,
                      "writes_not_read_before_the_query": ops, "fault": fault.text() if fk[0] != "unreadable" else
                      "no injection: an event of the bucket ends in year 10000 (see the writes)", "fault_fired_at": fault.fired,
                      "query": text, "start": st.isoformat(), "end": en.isoformat(), "outcome": status}
            if diffs:
                d0 = diffs[0]
                rep["failing"].append({"signature": "C12:query-changed-store",
                                       "description": f"[{backend}] after a query ({status}; {replay['fault']}) bucket {d0.get('bucket')!r} is not "
                                                      f"as it was written: {d0['what']}"
                                                      + (f" ({d0['n_written']} written, {d0['n_stored']} stored)" if d0["what"] == "events" else ""),
                                       "replay": dict(replay, differences=diffs[:3])})
            if durable is not None and durable != sum(len(v) for v in led.rows.values()) and not diffs:
                rep["disagreements"].append([f"[sqlite] after a read that failed ({replay['fault']}; at {fault.fired}) a second connection sees "
                                             f"{durable} event rows, {sum(len(v) for v in led.rows.values())} were written: the model's failing "
                                             f"read is [Commit; ReadFails] (the commit comes before the SELECT)", replay])
            rep["cases"].append([[backend, "fault", list(fk), label, shape, r0, len(rep["cases"])], bool(n_pending and status != "ok")])
            # the event no read can decode goes away again (a recorded write), then the same query without a fault
            if far is not None:
                if far["id"] is not None:
                    led.delete(target, far)
                else:
                    led.replace_last(target, BASE + clock[0] + 1000, 0, {"app": "x", "title": "moved back"})
                    clock[0] += 1000
                en = dt(b)
            try:
                res = query2.query("q", f'RETURN = {{"e": query_bucket("{target}"), "n": query_bucket_eventcount("{target}")}};', st, en, ds)
                bk = Datastore(lambda testing=False, **kw: storage)[target]
                direct = (reads.ev_rows(bk.get(starttime=st, endtime=en)), bk.get_eventcount(starttime=st, endtime=en))
                if (reads.ev_rows(res["e"]), res["n"]) != direct:
                    rep["failing"].append({"signature": "C12:query_bucket-is-not-the-windowed-read",
                                           "description": f"[{backend}] the query after a failed one: query_bucket / query_bucket_eventcount "
                                                          f"({len(res['e'])} events / {res['n']}) differ from the direct windowed read "
                                                          f"({len(direct[0])} / {direct[1]})",
                                           "replay": dict(replay, retried=True, query_bucket=reads.ev_rows(res["e"]), direct=direct[0])})
            except Exception as ex:
                count("fault-scenario:retry-raised:" + type(ex).__name__)
            diffs, _ = led.read_back()
            if diffs:
                rep["failing"].append({"signature": "C12:query-changed-store",
                                       "description": f"[{backend}] after the query that followed a failed one, bucket {diffs[0].get('bucket')!r} "
                                                      f"is not as it was written: {diffs[0]['what']}",
                                       "replay": dict(replay, retried=True, differences=diffs[:3])})
        inj.remove()
