"""Sessions for the C17 and C11 checks: several queries in ONE process against one or more live Datastore
objects, with buckets created, deleted and re-created between the queries.  The models are pure functions
of one query text (+ the bucket ids existing at that moment), so any dependence of a query's outcome on what
ran before it is a disagreement, and - through the expectation each query op carries - a failing input.

A session is a JSON-able list of ops (this is also the replay format):
    ["datastore", name, storage(, shares)]  a further Datastore ("main" = Impl.ds always exists); storage memory | sqlite |
                                            sqlite-file (a file of its own, every write committed at once); shares = name
                                            of an earlier datastore: the new one is a SECOND Datastore object over the
                                            same store (the same MemoryStorage object / a second connection to the file)
    ["create", ds, bucket id, events(, hostname)]   events = [[offset from 2020-01-01T00:00Z in us, duration in us, data], ...];
                                            hostname of the bucket's metadata, default "h1"
    ["delete", ds, bucket id]
    ["query", ds, text, expectation(, context(, options))]
                                            context = [query name, start, end of the query period] | null; an edge of the
                                            period is an offset from 2020-01-01T00:00Z in us or an ISO 8601 text (naive
                                            when it carries no offset); default "q-name", 2020-01-01Z .. 2020-01-02Z;
                                            expectation = {} | {"names": [bucket ids]} (value when all of them exist in the
                                            STORE of ds at that point - whichever Datastore object put them there -, else
                                            FunctionError; computed from the ops, never asked of the tree under test) |
                                            {"class": c} | {"value": canon};
                                            options = {"thread": name of the worker thread the query runs on (it stays alive
                                            between its queries; default: the main thread), "env": process-level settings in
                                            force while it runs (harness/c17_impl.py `environment`: logging, recursionlimit,
                                            warnings, tz, int_digits)}
    ["repeat", n, [op, ...]]                the ops n times over (long runs in a short replay file)

A query that does not come back within the time limit never meets its expectation, whatever that is.

`python -m harness.c17_session <file.json>` replays {"ops": [...]} in a FRESH process, prints every query's
canonical outcome and exits 1 when the LAST query's outcome differs from its expectation (what `minimise`
uses to drop ops that are not needed, and what a replay file's `rerun` names)."""
import json
import os
import subprocess
import sys
import tempfile
from datetime import timedelta

from . import common
from .c17_impl import T_START


def canon(impl, v, depth=0):
    """JSON-able, type-strict canonical form of a query value (Events by content, not by identity)."""
    if depth > 60:
        return ["deep"]
    if v is None or type(v) in (bool, int, str):
        return [type(v).__name__, v]
    if type(v) is float:
        return ["float", repr(v)]
    if type(v) is list:
        return ["list", [canon(impl, x, depth + 1) for x in v]]
    if type(v) is dict:
        return ["dict", [[canon(impl, k, depth + 1), canon(impl, x, depth + 1)] for k, x in v.items()]]
    if isinstance(v, impl.Event):
        return ["event", (v.timestamp - T_START) // timedelta(microseconds=1), v.duration // timedelta(microseconds=1),
                canon(impl, dict(v.data), depth + 1)]
    if isinstance(v, timedelta):
        return ["timedelta", v // timedelta(microseconds=1)]
    return ["object", type(v).__name__]


def show_canon(c):
    """Canonical form back to readable text: Python literals, events as Event(+offset, duration, data) in seconds."""
    if not isinstance(c, list) or not c:
        return repr(c)
    t = c[0]
    if t == "str":
        return ascii(c[1])      # code points outside ASCII by number: two strings that look alike stay apart
    if t in ("int", "bool", "NoneType"):
        return repr(c[1])
    if t == "float":
        return c[1]
    if t == "list":
        return "[" + ", ".join(show_canon(x) for x in c[1]) + "]"
    if t == "dict":
        return "{" + ", ".join(show_canon(k) + ": " + show_canon(v) for k, v in c[1]) + "}"
    if t == "event":
        return f"Event(+{c[1] / 1e6:g}s, {c[2] / 1e6:g}s, {show_canon(c[3])})"
    if t == "timedelta":
        return f"timedelta({c[1] / 1e6:g}s)"
    return "<" + " ".join(str(x) for x in c) + ">"


def outcome_key(r):
    kind, payload = r["outcome"]
    return "value" if kind == "value" else (payload if kind == "error" else kind)


class Session:
    def __init__(self, impl):
        self.impl = impl
        self.dss = {"main": impl.ds}

    def expectation(self, op):
        """(kind, what) by construction from the ops applied so far, or None."""
        ds, exp = self.dss[op[1]], (op[3] if len(op) > 3 else {})
        if "names" in exp:
            have = self.impl.buckets_of(ds)
            return ("class", "value" if all(n in have for n in exp["names"]) else "FunctionError")
        if "class" in exp:
            return ("class", exp["class"])
        if "value" in exp:
            return ("value", exp["value"])
        return None

    def apply(self, op):
        """-> None, or for a query (result of Impl.run, datastore, bucket ids existing there, expectation)"""
        impl = self.impl
        if op[0] == "datastore":
            if op[1] not in self.dss:
                self.dss[op[1]] = impl.new_datastore(op[2], shares=self.dss[op[3]] if len(op) > 3 and op[3] else None)
            return None
        if op[0] == "repeat":
            for _ in range(op[1]):
                for sub in op[2]:
                    self.apply(sub)
            return None
        ds = self.dss[op[1]]
        if op[0] == "create":
            impl.create_bucket(ds, op[2], [tuple(e) for e in (op[3] if len(op) > 3 else [])], *op[4:5])
            return None
        if op[0] == "delete":
            impl.delete_bucket(ds, op[2])
            return None
        assert op[0] == "query", op
        want = self.expectation(op)
        opts = op[5] if len(op) > 5 and op[5] else {}
        r = impl.run(op[2], ds=ds, ctx=op[4] if len(op) > 4 else None, thread=opts.get("thread"), env=opts.get("env"))
        return r, ds, impl.buckets_of(ds), want

    def holds(self, r, want):
        """Does the query's outcome meet its by-construction expectation?"""
        if r["outcome"][0] in ("timeout", "recursion"):
            return False
        if want is None:
            return True
        if want[0] == "class":
            return outcome_key(r) == want[1]
        return r["outcome"][0] == "value" and canon(self.impl, r["outcome"][1]) == want[1]


def unroll(ops):
    """(op, the session up to and including it - still in the compact form) for every op of a session, the ops
    of a repeat block one by one."""
    for i, op in enumerate(ops):
        if op[0] != "repeat":
            yield op, ops[:i + 1]
            continue
        for k in range(op[1]):
            for j, sub in enumerate(op[2]):
                yield sub, ops[:i] + ([["repeat", k, op[2]]] if k else []) + op[2][:j + 1]


def replay_in_fresh_process(ops, timeout=120):
    """True when, replayed in a fresh process, the last query of ops still misses its expectation."""
    with tempfile.NamedTemporaryFile("w", suffix=".json", delete=False) as f:
        json.dump({"ops": ops}, f)
    try:
        env = dict(os.environ)
        env["PYTHONPATH"] = common.REPO + os.pathsep + common.VERIF
        env["VERIF_REPO"] = common.REPO
        p = subprocess.run([sys.executable, "-m", "harness.c17_session", f.name], cwd=common.VERIF, env=env,
                           stdout=subprocess.PIPE, stderr=subprocess.STDOUT, text=True, timeout=timeout)
        return p.returncode == 1 and "LAST QUERY MISSES ITS EXPECTATION" in p.stdout
    except subprocess.TimeoutExpired:
        return False
    finally:
        os.unlink(f.name)


def minimise(ops, max_steps=40, droppable=lambda op: True):
    """Drop ops before the last one (a query) as long as the last query still misses its expectation in a
    fresh process.  Returns (ops, confirmed): confirmed = the full session reproduces in a fresh process.
    droppable: which ops may go (a check whose expectations do not follow the ops - C11's are values computed
    beforehand from the datastore contents - keeps the ops that build those contents)."""
    if not replay_in_fresh_process(ops):
        return ops, False
    idx = [i for i, op in enumerate(ops[:-1]) if droppable(op)]

    def build(keep):
        keep = set(keep)
        return [op for i, op in enumerate(ops[:-1]) if i in keep or i not in idx] + [ops[-1]]
    kept = common.shrink_list(idx, lambda cand: replay_in_fresh_process(build(cand)), max_steps=max_steps)
    return build(kept), True


def main(argv):
    doc = json.load(open(argv[1]))
    ops = doc["ops"] if isinstance(doc, dict) and "ops" in doc else doc["replay"]["session"]
    common.setup_impl_env()
    from .c17_impl import Impl
    s = Session(Impl())
    last = None
    for op in ops:
        try:
            out = s.apply(op)
        except Exception as e:       # e.g. a delete of a bucket a dropped create no longer makes: not a reproduction
            print(f"op {op[:3]!r} cannot be applied: {type(e).__name__}: {e}")
            return 2
        if out is not None:
            r, ds, have, want = out
            got = canon(s.impl, r["outcome"][1]) if r["outcome"][0] == "value" else outcome_key(r)
            ok = s.holds(r, want)
            last = ok
            print(json.dumps({"ds": op[1], "query": op[2], "buckets": have, "expected": want, "observed": got, "ok": ok})[:2000])
    sys.stdout.flush()
    rc = 0
    if last is False:
        print("LAST QUERY MISSES ITS EXPECTATION")
        rc = 1
    if s.impl.hung:         # a worker thread that never came back: do not wait for it (nor for what it holds)
        sys.stdout.flush()
        os._exit(rc)
    return rc


if __name__ == "__main__":
    sys.exit(main(sys.argv))
