"""C18 — buffered writes are flushed once they are about ten seconds old.  Same machinery
as C06 (harness/c06_lib.py): the real SqliteStorage under a fake clock, every statement
boundary observed through a second connection, compared with Model/Commit.v and with the
property statement."""
import os
import sqlite3
import sys
import time

from . import common
from .common import Check
from . import c06_lib as lib
from . import c06_gen as gen
from . import c18_gen as gen18
from . import c18_lib as lib18

RULE = ("deterministic corpus (one write of every kind 9.999 s / 9.999999 s / 10 s / 10.000001 s / 10.001 s / 30 s / 1 h "
        "after a flush, then a second one 1 ms later; trickles with periods 4 s .. 11 s; idle hours then bursts; clocks "
        "that advance 1 µs .. 11 s between the three readings of one conditional_commit; plus the whole C06 corpus; "
        "round 2: ages with every size of days / hours / seconds / microseconds component (10.5 s .. 23:59:59.999999, "
        "N days + 0 / 1 µs / 4 s / 9.999999 s / 10 s / 11 s, weeks, years), trickles and clock jumps of more than a day; "
        "sessions that close the store (with or without a flush) and open a new instance on the existing file, whose first "
        "call is an event write 3 s .. 1 day after opening, optionally behind a read that does not flush) "
        "then seeded random histories with gaps drawn around the 10 s boundary, with day/hour/second/µs components, and "
        "with re-openings; the committed state is read through a "
        "second connection at every statement boundary and after every call; the opening of a store instance counts as a "
        "flush at the instant its constructor returned (taken from the fake clock, not from the store); thorough adds one "
        "real-time run with time.sleep(11).  Round 3: every history runs twice - on the storage object, and with the store "
        "opened by Datastore(SqliteStorage, testing, filepath=.., enable_lazy_commit=..) and every call made through "
        "Datastore / Bucket (create/update/delete_bucket, buckets, ds[b].insert(event | list) / replace / replace_last / "
        "delete / get / get_by_id / get_eventcount / metadata; Bucket object new or reused; missing bucket -> KeyError); "
        "the write is dated at the entry of the API call and judged when the API call returns, by the statement trace "
        "and by table content (the row with the call's own label is / the deleted id is not in the file as a second "
        "connection sees it); histories whose previous flush is a read of every kind, Datastore-level calls between "
        "writes, a second store (another file) alive in the process doing its own flushes and bursts; one black-box run "
        "per layer with single writes of 10 001 and 15 000 events.  "
        "Round 5, engine faults (harness/c18_fault.py): the store's connection behind a delegating wrapper whose commit() / "
        "write execute() / executemany() raises sqlite3.OperationalError once (or for the whole call) at a chosen call index, "
        "the caller catches the exception and carries on: written-out histories (flush; +12 s a write of which the COMMIT "
        "raises; the next write +1 s / +5 s / +9.9 s / +10.000001 s later; count-branch COMMIT, bucket operations, reads, "
        "statements of multi-statement calls, bulk statements part-way, eager store, re-opened store), a COMMIT that raises at "
        "EVERY commit position of the age corpus followed by such writes, seeded random positions, both layers; one run per "
        "layer with a real lock (rollback-journal mode, a reader's shared lock makes the COMMIT raise by itself); oracle "
        "relative to the last flush that happened (second connection).  "
        "non-trivial = distinct history in which conditional_commit both buffered and flushed, or (fault stream) in which a "
        "commit step raised")


def real_time_run(ck, sq, Event):
    """No fake clock: insert, sleep 11 s, insert -> both rows visible to a second connection."""
    d = lib.scratch_dir()
    try:
        p = os.path.join(d, "rt.db")
        st = sq.SqliteStorage(testing=True, filepath=p)
        st.create_bucket("b", "t", "c", "h", lib.T0.isoformat(), None, None)
        st.insert_one("b", lib._ev(Event, 1))
        c2 = sqlite3.connect(p, isolation_level=None)
        n1 = c2.execute("SELECT count(*) FROM events").fetchone()[0]
        time.sleep(11)
        st.insert_one("b", lib._ev(Event, 2))
        n2 = c2.execute("SELECT count(*) FROM events").fetchone()[0]
        c2.close()
        st.conn.close()
        ck.evaluations += 1
        ck.count("real-time-run")
        ck.coverage["real_time_run"] = {"visible_before_sleep": n1, "visible_after_write_at_11s": n2}
        if n2 != 2:
            ck.failing_input("C18:old-write-not-flushed",
                             f"real clock: an insert issued 11 s after the last flush returned with {2 - n2} of 2 rows uncommitted",
                             {"steps": ["create_bucket", "insert_one", "time.sleep(11)", "insert_one"], "visible": n2})
    finally:
        import shutil
        shutil.rmtree(d, ignore_errors=True)


def main(argv=None):
    ck = Check("C18", argv)
    common.setup_impl_env()
    import aw_datastore.storages.sqlite as sq
    from aw_core.models import Event

    ck.run_witnesses(["w08", "w21", "w22"])
    proved = ck.prove(extra_targets=["Bridge/BridgeCommit.v", "Model/CommitDriver.v", "Props/C18api.v", "Model/CommitApiDriver.v",
                                     "Props/C18fault.v", "Bridge/BridgeCommitFault.v", "Model/CommitFaultDriver.v"],
                      gen_kernels=["commit", "conditional_commit", "sqlite_scripts", "commit_fault", "conditional_commit_fault"])
    if proved:      # what the theorems about engine faults rest on (Print Assumptions of Props/C18fault.v)
        ok_ax, ax = common.print_assumptions("Props/C18fault.v", ck.log)
        if ok_ax:
            ck.axioms.update(ax)
        else:
            ck.broken.append("Print Assumptions pass failed on Props/C18fault.v")
    have_driver = ck.driver()

    quick = ck.tier == "quick"
    # quick: the count-only grid of insert_many sizes is left to C06
    histories = [h for h in gen.corpus() if not quick or not h[0].startswith("insert_many-")]
    histories += gen18.corpus()
    n_random = 60 if quick else 2000
    for i in range(n_random):
        profile = ["trickle", "mixed", "trickle", "burst"][i % 4]
        histories.append((f"random-{profile}-{i}", ck.rng.random() > 0.05, gen.random_history(ck.rng, profile)))
    for i in range(40 if quick else 1500):
        profile = ["reopen", "longidle", "reopen"][i % 3]
        histories.append((f"random-{profile}-{i}", ck.rng.random() > 0.05, gen18.random_session(ck.rng, profile)))
    histories += gen18.api_corpus()
    # every history runs as a session of harness/c18_lib.py (one store instance unless it re-opens),
    # and it runs twice: on the storage object, and through Datastore / Bucket (the generators are
    # called again for the second run, so the random ones draw a second history)
    histories = [(n, lz, h, "storage") for n, lz, h in histories] + [(n + "@api", lz, h, "api") for n, lz, h in histories]
    pending, wire = lib18.run_sessions(ck, sq, Event, histories)
    lib18.big_writes(ck, sq, Event)
    if have_driver:
        lib18.compare_with_model(ck, "C18", pending, wire)
    # round 5: histories in which the ENGINE raises (a COMMIT, a statement, a bulk statement part-way), the caller
    # survives and carries on; oracle relative to the last flush that happened (harness/c18_fault.py)
    from . import c18_fault
    c18_fault.run_faults(ck, sq, Event, have_driver)
    if not quick:
        real_time_run(ck, sq, Event)

    ck.assumptions += [
        "clock: the fake datetime.now() installed in aw_datastore.storages.sqlite never decreases (the theorems' "
        "mono_from hypothesis); it may advance between the readings of one call",
        "flush instants for the oracle are taken from the outside: F = the latest instant at which the second connection "
        "saw nothing pending (so F is at or after the store's own last_commit); for a newly opened store instance (new or "
        "existing file) F starts at the instant the constructor returned",
        "a store goes away either by closing its connection with the writes still pending (process exit; they are lost, "
        "the next instance starts from the committed file) or after a commit; there is no close() in the storage class",
        "nothing flushes a buffered write when no further call arrives (there is no timer): the age bound is relative to "
        "the last flush, as the property text says, not to the crash instant",
        "SQLite transaction semantics as for C06 (oracle, sampled through the second connection)",
        "API layer: 'an event write issued at t' is one call of a Datastore / Bucket method, issued when the method is "
        "entered; 'the previous flush' is the last instant BEFORE that entry at which nothing was pending (what the "
        "wrapper does between entry and return is part of the write, never a previous flush)",
        "engine faults: a COMMIT that raises makes nothing durable and leaves the transaction open; a statement that raises "
        "is rolled back on its own; the rows an executemany went through before it raised stay in the open transaction "
        "(SQLite; sampled through the second connection, and by the real-lock run); 'returns normally' = no exception "
        "reaches the caller; the writes of a call that raised may be at risk, and old, until the next write returns",
    ]
    ck.trusted += ["translate/k_commit.py (tie B: commit, conditional_commit incl. the operand order of the age test, scripts)",
                   "translate/k_commitfault.py (tie B: statement order of commit() around self.conn.commit(), exception "
                   "propagation through conditional_commit)"]
    return ck.finish(RULE)


if __name__ == "__main__":
    sys.exit(main())
