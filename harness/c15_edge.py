"""C15 (round 5): union_no_overlap on EDGE INPUT TYPES, NUMERIC EXTREMES and under FAULTS (generic part:
harness/txedge.py; hook: `c15_edge.run(R)` at the end of c15_hist.run, before the model comparison).

  container  list one as a tuple / a list subclass, list two as a list subclass (what the unchanged tree handles like
             a list: it deep-copies both arguments, then uses len(), indexing, item assignment on the copy of list
             two and tail slices - txedge.SUPPORT / OBSERVATIONS).  Judged like every call (statement with typed
             equality, model) + the caller's events, their data (keys ADDED, dict type) and the containers
             untouched.  deque / generator / iterators on either side and a tuple as list two: run and COUNTED.
  dicttype   the random pairs with every event's data turned into a dict subclass with __missing__
             (defaultdict(str) / (list), Counter, a plain __missing__), an OrderedDict, or given str / int
             subclasses as values: data is opaque to union_no_overlap, so every list-one event comes back unchanged
             and every piece keeps its source's data - typed (a piece whose data became a plain dict, or gained a
             key, does not).
  extreme    the statement restricts neither the year nor the size: layouts with every kind of cut (before /
             after / spanning / inside / shared edges / zero length) placed at millisecond-aligned instants from
             year 1 to year 9999 and at the last representable millisecond, with units of 1 ms, 1 s and more than
             2**53 us.  Domain = the property's own (sorted, non-overlapping, ms grid) with every event's end a
             representable datetime (the code adds duration to timestamp).
  fault      data nested 300 / 600 / 900 deep and a one-off MemoryError at every kind of step of the copies (the two
             argument copies, the copies inside _split_event, the copy of a data value): the call raises
             (RecursionError / the MemoryError) or returns exactly what the fault-free call returns; the caller's
             objects are untouched either way.
"""
import hashlib
import time

from . import txedge as TE
from . import txhist as TX
from .evutil import BASE

MODULE = "aw_transform.union_no_overlap"
S = 1_000_000


class RouteEdge:
    """stands in for the module in c15.run_impl"""

    def __init__(self, uno, kinds=("list", "list"), fault=None):
        self.uno, self.kinds, self.fault = uno, kinds, fault
        self._split_event = uno._split_event
        self.last = self.raised = None
        self.handed = []
        self.copies = 0

    def union_no_overlap(self, a, b):
        self.last = self.raised = None
        self.handed = [TE.Handed(k, l) if k != "list" else None for k, l in zip(self.kinds, (a, b))]
        args = [h.arg if h else l for h, l in zip(self.handed, (a, b))]
        with TE.DeepcopyFault(self.fault) as f:
            how, val = TE.under_default_limit(self.uno.union_no_overlap, *args)
        self.copies = f.calls
        if how == "raised":
            self.raised = val
            raise val
        self.last = val
        return val

    def touched(self):
        for k, h in enumerate(self.handed):
            m = h.touched() if h else None
            if m:
                return f"events{k + 1}: {m}"
        return None


class Edge:
    def __init__(self, R):
        self.R, self.ck = R, R.ck

    def one(self, stream, case, kinds=("list", "list"), fault=None, allow=(), judged=True, expected=None):
        """-> (verdict text or None, impl result ("ok", views) / ("err", class) / "raised", the stand-in)"""
        R, ck, c15 = self.R, self.ck, self.R.c15
        route = "edge:" + "+".join(kinds) + (f"+deepcopy-fault@{fault}" if fault is not None else "")
        H = RouteEdge(R.uno, kinds, fault)
        R.routes[route] = H
        try:
            with TE.harness_limit():
                a, b = TE.build(R.Event, case["a"]), TE.build(R.Event, case["b"])
                before = TE.snap(a), TE.snap(b)
                if not judged:
                    try:
                        H.union_no_overlap(a, b)
                    except Exception:  # noqa: BLE001   H.raised has it
                        pass
                    return None, None, H
                out, bad = R.verdict(case, route, live=(a, b))
                if H.raised is not None and isinstance(H.raised, tuple(allow)):
                    ck.count(f"{stream}:raises {type(H.raised).__name__} (allowed by the fault rule)")
                    bad, out = None, "raised"
                elif H.raised is not None and not bad:
                    bad = f"raises: union_no_overlap raised {type(H.raised).__name__}: {str(H.raised)[:100]}"
                if expected is not None and out != "raised" and not bad and not TE.same_typed(out, expected):
                    bad = f"fault: returned {str(out)[:300]} where the fault-free call returns {str(expected)[:300]}"
                if not (bad or "").startswith("inputs-not-modified"):
                    m = TE.changed(a, before[0], "list-one event") or TE.changed(b, before[1], "list-two event") or H.touched()
                    if m:
                        bad = "inputs-not-modified: " + m
        finally:
            del R.routes[route]
            ck.count("stream=" + stream)
        ck.evaluations += 1
        rep = lambda: TE.edge_replay(MODULE, "union_no_overlap", [(kinds[0], case["a"]), (kinds[1], case["b"])],      # noqa: E731
                                     fault=({"deepcopy_raises": "MemoryError", "nth": fault} if fault is not None else None),
                                     observed=str(out)[:1500])
        if bad:
            ck.failing_input("C15:" + bad.split(":")[0], f"[{stream}/{route}] " + bad, rep())
        if c15.features(case)[1]:
            ck.nontrivial.add(hashlib.sha1(repr((stream, route, [(t, d, TE.show(x, 60), i) for t, d, x, i in case["a"] + case["b"]])).encode()).hexdigest())
        if out != "raised" and out is not None and out[0] == "ok":
            nums = [v for l in (case["a"], case["b"]) for t, d, _, _ in l for v in (t, d, t + d)]
            if TE.wire_ok(nums):
                with TE.harness_limit():
                    w = c15.case_wire(case, R.labels)
                    io = [0, [(i, t, d, R.labels.label(x)) for i, t, d, x in out[1]]]
                R.pending.append((stream, w, io, rep))
            else:
                ck.count(f"{stream}: beyond the driver's 63-bit integers (oracle only)")
        return bad, out, H


# --------------------------------------------------------------------------- generators

# layouts on a 0..12 grid: (list one intervals, list two intervals) - every kind of cut
LAYOUTS = [
    ([(2, 5), (7, 9)], [(0, 4), (4, 8), (8, 12)]),          # cut before / spanning an end and a start / after
    ([(2, 5)], [(0, 12)]),                                   # list two contains list one: two pieces
    ([(0, 12)], [(2, 5), (5, 5), (6, 12)]),                  # list one contains everything of list two
    ([(2, 4), (4, 6), (8, 8)], [(1, 3), (3, 9), (9, 9)]),    # touching list-one events, zero-length events, shared edges
    ([(3, 6)], [(3, 6)]),                                    # identical
    ([(3, 6)], [(0, 3), (6, 9)]),                            # shared edges only
    ([(1, 2), (4, 5), (7, 8), (10, 11)], [(0, 12)]),         # one list-two event spanning four
    ([(0, 1), (5, 7)], [(1, 5), (6, 6), (7, 12)]),
    ([], [(0, 3), (3, 3)]),
    ([(0, 3)], []),
]


def layout(t0, la, lb, unit, data=lambda side, i: {"k": "%s%d" % (side, i)}):
    return {"kind": "union", "stream": "edge",
            "a": [(t0 + s * unit, (e - s) * unit, data("a", i), None if i % 2 else i) for i, (s, e) in enumerate(la)],
            "b": [(t0 + s * unit, (e - s) * unit, data("b", i), 10 + i if i % 2 else None) for i, (s, e) in enumerate(lb)]}


def end_ok(case):
    return all(TE.in_range(t) and TE.in_range(t + d) for l in (case["a"], case["b"]) for t, d, _, _ in l)


def gen_extreme(rng, n):
    big = TE.TWO53 // 1000 * 1000 + 1000
    for t0 in TE.FAR_INSTANTS + [BASE]:
        for j, (la, lb) in enumerate(LAYOUTS):
            for unit in (1000, S) if j < 4 else (S,):
                c = layout(t0, la, lb, unit)
                if end_ok(c):
                    yield c
    for la, lb in LAYOUTS:
        yield layout(TE.DT_MAX_MS - 12 * S, la, lb, S)              # ends at the last representable millisecond
        yield layout(TE.DT_MIN_US, la, lb, 1000)                    # starts at the first
        for t0 in (TE.instant(2), TE.instant(1000), TE.instant(1969)):
            c = layout(t0, la, lb, big)                             # every duration beyond 2**53 us
            if end_ok(c):
                yield c
    for _ in range(n):
        la, lb = rng.choice(LAYOUTS)
        unit = rng.choice([1000, 1000, S, 86_400 * S, big])
        t0 = rng.choice(TE.FAR_INSTANTS + [BASE])
        c = layout(t0 + rng.randrange(0, 1000) * 1000, la, lb, unit)
        if end_ok(c):
            yield c


def gen_deep():
    for depth in (300, 600, 900):
        for shape in ("dict", "mixed"):
            for j in (0, 1, 3, 6):
                la, lb = LAYOUTS[j]
                yield layout(BASE, la, lb, S, data=lambda side, i: {"k": "%s%d" % (side, i), "blob": TE.nested(depth, shape, side)})
                yield layout(BASE, la, lb, S, data=lambda side, i: ({"k": "%s%d" % (side, i), "blob": TE.nested(depth, shape, side)}
                                                                      if (side, i) == ("b", 0) else {"k": "%s%d" % (side, i)}))


def retype(case, rng, kinds):
    def f(specs):
        return [(t, d, TE.exotic(x, rng.choice(kinds)), i) for t, d, x, i in specs]
    return dict(case, a=f(case["a"]), b=f(case["b"]))


# --------------------------------------------------------------------------- the streams


def run(R):
    ck, c15 = R.ck, R.c15
    rng = ck.rng
    quick = ck.tier == "quick"
    t0 = time.time()
    E = Edge(R)
    TX.make_room(ck)
    pairs = [dict(c, stream="edge") for c in c15.gen_random(rng, 260 if quick else 20_000, "random")]

    # -- containers
    plans = TE.container_plans("union_no_overlap")
    n_cont = 0
    for j, case in enumerate(pairs):
        for kinds in (plans if j < 60 else [plans[j % len(plans)]]):
            n_cont += 1
            ck.count("container:" + "+".join(kinds))
            E.one("container", case, kinds=kinds)
    for kinds in TE.left_out_plans("union_no_overlap"):
        for case in pairs[3:40:12]:
            _, _, H = E.one("container-left-out", case, kinds=kinds, judged=False)
            ck.count(f"container-left-out:union_no_overlap/{'+'.join(kinds)}: " + (f"raises {type(H.raised).__name__}" if H.raised is not None else "returns"))

    # -- data dict types
    kinds_d = list(TE.DICT_KINDS) + ["defaultdict(int)"]
    for j, case in enumerate(pairs[: 200 if quick else len(pairs)]):
        E.one("dicttype", retype(case, rng, kinds_d if j % 3 else kinds_d[j % len(kinds_d): j % len(kinds_d) + 1]),
              kinds=rng.choice([("list", "list"), ("list", "list"), ("tuple", "listsub")]))

    # -- numeric extremes
    n_ext = 0
    for case in gen_extreme(rng, 300 if quick else 30_000):
        if not c15.in_domain(case):
            raise AssertionError("the extremes generator left the property's domain")
        n_ext += 1
        E.one("extreme", case)

    # -- faults
    for case in gen_deep():
        E.one("deep", case, allow=(RecursionError,))
    n_fault = 0
    cut = [c for c in pairs if len(c["a"]) >= 1 and len(c["b"]) >= 1][: 14 if quick else 300] + [layout(BASE, la, lb, S) for la, lb in LAYOUTS[:4]]
    for k_case, case in enumerate(cut):
        fr = lambda specs: [(t, d, dict(x, f=TE.Fragile("v")), i) for t, d, x, i in specs]      # noqa: E731
        case = dict(case, a=fr(case["a"]), b=fr(case["b"]))
        bad, out, H = E.one("deepcopy-dry-run", case)
        ck.count("deepcopy steps per call: %s" % ("<=2" if H.copies <= 2 else ">2"))
        if bad or not H.copies:
            continue
        picks = {0, 1, H.copies - 1, rng.randrange(H.copies), rng.randrange(H.copies)}
        if k_case >= len(cut) - 4 or not quick:          # the hand-made layouts: every step
            picks |= set(range(min(H.copies, 40)))
        for nth in sorted(k for k in picks if 0 <= k < H.copies):
            n_fault += 1
            E.one("deepcopy-fault", case, fault=nth, allow=(MemoryError,), expected=out)
    ck.coverage["round5"] = {
        "container": f"{n_cont} calls: {len(pairs)} random sorted non-overlapping pairs handed over as {['+'.join(p) for p in plans]}; left out (counted "
                     f"only): {['+'.join(p) for p in TE.left_out_plans('union_no_overlap')]} - {TE.OBSERVATIONS['union_no_overlap']}",
        "dicttype": "the random pairs with every event's data as " + ", ".join(kinds_d),
        "extreme": f"{n_ext} layouts (every kind of cut) at ms-aligned instants of the years {TE.FAR_YEARS}, at datetime.min and ending at the last "
                   "representable millisecond; units 1 ms, 1 s, 1 day, > 2**53 us",
        "fault": f"data nested 300 / 600 / 900 deep (RecursionError or the exact result); {n_fault} injected MemoryErrors (argument copies, the copies "
                 "inside _split_event, the copy of a data value)",
        "wall_s": round(time.time() - t0, 1)}
