"""C06, round 5: ENGINE FAULTS in the histories of the crash-prefix check.

The property bounds what a crash can lose: "at most the last few dozen (about 50) buffered event
writes".  An operation of the ENGINE can raise - COMMIT (sqlite3.OperationalError 'database is
locked', disk full, a transient I/O error), an execute, an executemany part-way -, the storage
call propagates the exception, the caller survives it and carries on with the same store.  What
the bound is worth afterwards depends on what commit() had already done to its counter when the
engine raised.  No history of harness/c06.py / c06_api.py / c06_state.py ever made the engine
raise.  This module adds (reusing the mechanisms of harness/c18_fault.py by import: the
delegating connection `FaultyConnection`, the recorder that keeps commit steps that raised, the
sessions, the scouting run, the real lock):

  * histories with ONE engine fault at every commit position (every conn.commit() any call
    makes: count branch, age branch, bucket calls, reads) and at the statement positions (every
    write statement of the calls that issue several, the bulk statement part-way, a sample of
    the single statements) of the C06 corpus (harness/c06_gen.py), each followed by a burst of 52
    single-event writes and the next steps of the original history; written-out histories
    (count-branch COMMIT raising at n = 49..52 for every kind of write, a lock held for a whole
    call, every COMMIT raising for 70 calls, bucket calls whose COMMIT / second statement
    raises, the eager store); seeded random histories with random faults; both layers
    (storage object, Datastore / Bucket);
  * the C06 statement restricted to calls that RETURNED NORMALLY (`fault_violations`; black box:
    second connection + which calls raised, nothing of it reads the store's attributes): at
    every crash point (before every write statement, after every commit step, after every call)
    the durable state is the effect of a prefix of the statements issued (C06:not-a-prefix); at
    most 50 writes of COMPLETED calls that RETURNED NORMALLY are beyond it (C06:unbounded-loss;
    Props/C06fault.v: C06f_bounded_loss - the writes of calls that raised are not counted, they
    may be missing in any number); a bucket call that returned normally left nothing pending
    (C06:bucket-op-not-durable); a bucket-level call both of whose statements ran is never half
    durable (C06:operation-split); eager store: a write or bucket call that returned normally
    left nothing pending (C06:completed-op-not-durable:auto-committing-store);
  * correspondence with the extracted fault machine (Model/CommitFault.v) and the call-level
    vocabulary of Model/CommitFaultCalls.v (driver build/C06Fault, cases 6 / 7 / 8): counter,
    last_commit, committed prefix after every step, which steps raised, which steps of a call
    still ran, which calls returned normally, and the acknowledged writes beyond the durable
    prefix as the MODEL counts them against the oracle's own count;
  * one run per layer with a REAL lock at the count-branch flush (`real_lock_run`).

Replay: python -m harness.c06_fault '{"lazy": .., "layer": .., "faults": true, "steps": [...]}'
        python -m harness.c06_fault '{"real_lock": {"layer": ..}}'"""
import json
import os
import shutil
import sqlite3
import sys
import time

from . import common
from . import c06_lib as lib
from . import c18_lib as lib18
from . import c18_fault as f18
from .c06_lib import S, THRESHOLD
from .c06_gen import MS, _create, _ins
from .c18_fault import _fault

RULE = ("  Round 5, engine faults (harness/c06_fault.py): the store's connection behind a delegating wrapper whose commit() / "
        "write execute() / executemany() raises sqlite3.OperationalError once (or for a whole call) at a chosen engine call, "
        "the caller catches the exception and carries on: one fault at every commit position and at the statement positions "
        "of the C06 corpus (374 commit positions, 2989 statement positions, 329 bulk-row positions; quick: a seeded quarter of the "
        "commit positions and of the statements of multi-statement calls, every 150th single statement, every 10th bulk-row "
        "position; thorough: all commit, multi-statement and bulk-row positions, every 5th single statement), each followed by 52 "
        "single-event writes; written-out "
        "histories (count-branch COMMIT raising at n = 49..52 per kind of write, a lock held for a whole call, 70 calls whose "
        "COMMIT raises, bucket calls, eager store); seeded random faults; storage layer and Datastore / Bucket layer; a real "
        "lock at the count-branch flush; oracle = the C06 statement restricted to calls that returned normally")

REPLAY_CMD = "PYTHONPATH=%s:%s /venv/bin/python -m harness.c06_fault '%s'"
SIG_PREFIX = "C06:not-a-prefix"
SIG_LOSS = "C06:unbounded-loss"
SIG_BUCKET = "C06:bucket-op-not-durable"
SIG_SPLIT = "C06:operation-split"
SIG_EAGER = "C06:completed-op-not-durable:auto-committing-store"
BURST = 52


# ---------------------------------------------------------------------------
# sessions: c18_fault's, with an observer that re-reads the file only when it changed


def dump_sums(conn):
    """c06_lib.dump with the order-sensitive aggregates for tables of every size (c06_lib.dump lists the rows of tables
    of up to 150 events; one digest per issued statement and per observed crash point is taken here)"""
    bk = conn.execute("SELECT rowid, id, name, type, client, hostname, created, datastr FROM buckets ORDER BY rowid").fetchall()
    ev = conn.execute("SELECT count(*), sum(id), sum(id * bucketrow), sum(id * (starttime % 1000003)), "
                      "sum(id * ((endtime - starttime) % 1000003)), "
                      "sum(id * (cast(substr(datastr, 7) AS INTEGER) % 1000003)), max(id), min(id) FROM events").fetchone()
    return (ev[0], len(bk), hash((ev, tuple(bk))))


class Recorder6F(f18.RecorderF):
    """RecorderF whose second connection reads the tables only when `PRAGMA data_version` says that another
    connection has committed since the last reading (as harness/c06_state.py; every crash point is still observed),
    and whose digests (shadow and observer alike) are `dump_sums`."""

    def __init__(self, storage, path, clock):
        super().__init__(storage, path, clock)
        self.shadow.dumper = dump_sums
        d0 = dump_sums(self.shadow.db)
        self.shadow.digests = [d0]
        self.shadow.index = {d0: [0]}
        self.base = d0

    def observe(self, kind):
        st = self.st
        dv = self.c2.execute("PRAGMA data_version").fetchone()[0]
        if getattr(self, "_dv", None) != dv:
            self._dv, self._digest = dv, dump_sums(self.c2)
            self.n_dumps = getattr(self, "n_dumps", 0) + 1
        self.obs.append({"i": len(self.micro), "kind": kind, "digest": self._digest,
                         "n": lib18._int_or_none(getattr(st, "num_uncommitted_statements", None)),
                         "last": lib18._fake_us_or_none(getattr(st, "last_commit", None)),
                         "issued": len(self.issue_time), "call": len(self.calls), "t": self.clock.now})

    def close(self):
        """-> the store's own view equals the shadow after all issued writes?"""
        self.st.conn.set_trace_callback(None)
        self.st._rec = None
        ok = dump_sums(self.st.conn) == self.shadow.digests[len(self.issue_time)]
        self.c2.close()
        self.shadow.db.close()
        self.clock.hook = None
        return ok


class Runner6F(f18.RunnerF):
    recorder_class = Recorder6F


class Session6F(f18.FaultSession):
    runner_class = Runner6F


def run_session(sq, Event, lazy, history, layer="storage"):
    s = Session6F(sq, Event, lazy, layer)
    try:
        s.open()
        for dt, tick, spec in (history(s) if callable(history) else history):
            s.step(dt, tick, spec)
    finally:
        s.finish()
    return s


def scout(sq, Event, lazy, history):
    """c18_fault.scout on the sessions above: runs a history without faults -> (concrete steps, per step the number of
    conn.commit() calls, of write statements, the rows of its executemany or None, buckets alive after it)"""
    s = Session6F(sq, Event, lazy, "storage")
    info = []
    try:
        s.open()
        for dt, tick, spec in (history(s) if callable(history) else history):
            r = s.cur
            r.ctl.reset()
            s.step(dt, tick, spec)
            c = s.cur.rec.calls[-1]
            info.append({"commits": r.ctl.n["commit"], "writes": r.ctl.n["execute"],
                         "rows": spec[3] if spec[0] == "insert_many" else None,
                         "buckets": list(s.cur.bucket_ids()), "raised": c["outcome"] is not None})
    finally:
        s.finish()
    return s.steps, info


# ---------------------------------------------------------------------------
# the property statement, restricted to calls that returned normally (black box)


def acked_prefix_sums(rec):
    """acc[j] = number of the first j issued writes that belong to a call that returned normally"""
    flags = [False] * len(rec.issue_time)
    for c in rec.calls:
        if c["outcome"] is None:
            for t in range(c["first_token"], c["end_token"]):
                flags[t] = True
    acc = [0]
    for f in flags:
        acc.append(acc[-1] + (1 if f else 0))
    return acc


def fault_violations(r):
    """-> list of (signature, description) for one store instance"""
    rec, out = r.rec, []
    sh, calls = rec.shadow, rec.calls
    acc = acked_prefix_sums(rec)
    raised = [i for i, c in enumerate(calls) if c["outcome"] is not None]
    for o in rec.obs:
        o["J"] = sh.matches(o["digest"], o["issued"])
    for o in rec.obs:
        J = o["J"]
        ci = o["call"]
        c = calls[ci] if ci < len(calls) else None
        where = f"observation {o['kind']} in call #{ci} {c['spec'] if c else ''}"
        if not J:
            out.append((SIG_PREFIX, f"{where}: the committed database is not the effect of any prefix of the {o['issued']} "
                                    f"statements issued so far"))
            continue
        if c is None:
            continue
        done = o["issued"] if o["kind"] == "call-end" else c["first_token"]
        j = min(max(J), done)
        o["lost_acked"] = acc[done] - acc[j]
        if r.lazy and o["lost_acked"] > THRESHOLD:
            n_raised = sum(1 for i in raised if i < ci or (i == ci and o["kind"] == "call-end"))
            out.append((SIG_LOSS, f"{where}: {done} statements of completed calls issued, only the first {j} are committed; "
                                  f"{o['lost_acked']} of the missing ones belong to calls that RETURNED NORMALLY (> 50 acknowledged "
                                  f"writes would be lost; {done - j - o['lost_acked']} more belong to the {n_raised} calls that raised)"))
        if o["kind"] == "call-end" and c["outcome"] is None and o["issued"] not in J:
            if c["spec"][0] in lib.BUCKET_CALLS:
                out.append((SIG_BUCKET, f"{where}: RETURNED NORMALLY with {o['issued'] - max(J)} statements uncommitted"))
            elif not r.lazy and c["spec"][0] in lib.EVENT_WRITE_CALLS and c["end_token"] > c["first_token"]:
                out.append((SIG_EAGER, f"{where}: the store was opened with enable_lazy_commit=False and the call RETURNED "
                                       f"NORMALLY with {o['issued'] - max(J)} statements uncommitted"))
    for ci, c in enumerate(calls):
        a, b = c["first_token"], c["end_token"]
        if c["spec"][0] in lib.BUCKET_CALLS + lib.SINGLE_EVENT_CALLS and b - a >= 2:
            for o in rec.obs:
                if o["J"] and not any(j <= a or j >= b for j in o["J"]):
                    out.append((SIG_SPLIT, f"call #{ci} {c['spec']} issued statements {a}..{b - 1}; at observation {o['kind']} "
                                           f"(call #{o['call']}) exactly the first {o['J']} statements are committed"))
                    break
    return out


def session_violations(s):
    out = []
    for r in s.segments:
        for sig, desc in fault_violations(r):
            where = f"store instance #{r.index}" + (" opened and driven through Datastore/Bucket" if s.layer == "api" else "")
            faults = [(i, c["fault"]["fired"]["kind"]) for i, c in enumerate(r.rec.calls) if c.get("fault") and c["fault"].get("fired")]
            out.append((sig, f"{where} ({'lazy' if r.lazy else 'eager'}), engine faults injected at calls "
                             f"{faults[:6]}{'...' if len(faults) > 6 else ''}: {desc}"))
    return out


def replay_obj(s, extra=None):
    case = {"lazy": s.lazy, "layer": s.layer, "faults": True, "steps": s.steps}
    o = {"history": case, "rerun": REPLAY_CMD % (common.REPO, common.VERIF, json.dumps(case))}
    if extra:
        o.update(extra)
    return o


def shrink(sq, Event, lazy, steps, signature, layer):
    def still(cand):
        try:
            s = run_session(sq, Event, lazy, cand, layer)
        except Exception:
            return False
        return any(sig == signature for sig, _ in session_violations(s))
    if len(steps) > 400:
        return steps
    return common.shrink_list(steps, still, max_steps=150)


# ---------------------------------------------------------------------------
# correspondence: the call-level vocabulary (driver case 8)


def wire_cases(lazy, t0, rec):
    """The recorded steps as text, built once: -> (case 6: the flat trace, as c18_fault.wire_fault_trace;
    after[i] = number of model steps that precede the state reached when i micro-steps were recorded;
    case 8: the same steps grouped by call)"""
    ok = "(1 1 1)"

    def marker(kind, t):
        return f"({'(1)' if kind == 'execute' else '(2 ())'} ({t} {t} {t}) {ok})"
    by_pos = {}
    for pos, kind, t, call in rec.markers:
        by_pos.setdefault(pos, []).append((call, marker(kind, t)))
    flat, after, owner = [], [0], []
    bounds = [(c["first_micro"], c["end_micro"]) for c in rec.calls]
    ci = 0
    for i, (k, a, c) in enumerate(rec.micro):
        for call, m in by_pos.get(i, []):
            flat.append(m)
            owner.append(call)
        while ci < len(bounds) and i >= bounds[ci][1]:
            ci += 1
        m = {"E": f"(0 {a})", "R": "(2)", "C": "(3)", "K": f"(4 {a})"}[k]
        fi = rec.finfo.get(i)
        eng = ok if fi is None else "(" + " ".join("1" if x else "0" for x in fi["eng"]) + ")"
        flat.append(f"((0 {m}) ({c[0]} {c[1]} {c[2]}) {eng})")
        owner.append(ci if ci < len(bounds) and bounds[ci][0] <= i else -1)
        after.append(len(flat))
    for call, m in by_pos.get(len(rec.micro), []):
        flat.append(m)
        owner.append(call)
    lz = "1" if lazy else "0"
    groups = [[] for _ in rec.calls]
    for m, call in zip(flat, owner):
        if 0 <= call < len(groups):
            groups[call].append(m)
    case6 = f"(6 {lz} {t0} ({' '.join(flat)}))"
    case8 = f"(8 {lz} {t0} ({' '.join('(' + ' '.join(g) + ')' for g in groups)}))"
    return case6, after, case8


def compare_calls(r, out8):
    """-> list of disagreement descriptions (Model/CommitFaultCalls.v against the run)"""
    rec, bad = r.rec, []
    flags, states = out8
    if len(states) != len(rec.calls) or len(flags) != len(rec.issue_time):
        return [f"call-level model: {len(states)} calls / {len(flags)} flags, implementation {len(rec.calls)} calls / "
                f"{len(rec.issue_time)} statements issued"]
    acc = [0]
    for f in flags:
        acc.append(acc[-1] + (1 if f else 0))
    end_obs = {o["call"]: o for o in rec.obs if o["kind"] == "call-end"}
    for ci, (c, (ret, clen, plen, n)) in enumerate(zip(rec.calls, states)):
        impl_returned = c["outcome"] is None
        wrote = c["end_token"] > c["first_token"]
        fired = f18.fault_position(rec, ci, c) is not None      # a commit step / a statement of the call was made to raise
        if (fired or wrote) and impl_returned and not ret:
            bad.append(f"call #{ci} {c['spec']}: returned normally, the model says one of its steps raised")
        if fired and not impl_returned and ret:
            bad.append(f"call #{ci} {c['spec']}: an engine operation raised and the call raised {c['outcome']}; in the model "
                       f"no step of the call raises")
        o = end_obs.get(ci)
        if o is None:
            continue
        if clen + plen != o["issued"]:
            bad.append(f"after call #{ci}: model committed+pending = {clen + plen}, issued {o['issued']}")
        # the acknowledged writes a crash would lose: the model's count (missing_acked) bounds the oracle's
        model_lost = acc[o["issued"]] - acc[min(clen, o["issued"])]
        if model_lost > THRESHOLD:
            bad.append(f"after call #{ci} {c['spec']}: the extracted model has {model_lost} acknowledged writes beyond its "
                       f"committed prefix (C06f_bounded_loss says at most 50: the trace is not a history of calls_ok calls)")
        if "lost_acked" in o and o["lost_acked"] > model_lost and o.get("J") and max(o["J"]) >= clen:
            bad.append(f"after call #{ci} {c['spec']}: {o['lost_acked']} acknowledged writes are beyond the durable prefix, the "
                       f"model counts {model_lost}")
        if len(bad) > 4:
            break
    return bad


# ---------------------------------------------------------------------------
# histories


def untouched_bucket(info, i, spec, kind):
    """a bucket that exists before and after step i whatever the fault does to the call"""
    after = info[i]["buckets"]
    before = None
    for k in range(i - 1, -1, -1):
        if info[k] is not None:
            before = info[k]["buckets"]
            break
    both = [b for b in after if before is not None and b in before]
    target = spec[1] if len(spec) > 1 else None
    if spec[0] in lib.BUCKET_CALLS:
        both = [b for b in both if b != target] or ([] if spec[0] != "update_bucket" else both)
    if target in both:
        return target
    return both[0] if both else None


def derived(steps, info, i, kind, nth, times=1, tail=8, burst_n=BURST):
    """the history with the engine raising in step i, then a burst of single-event writes 1 ms apart (enough to cross the
    count threshold again whatever the failed operation left counted), then the next steps of the original"""
    dt, tick, spec = steps[i]
    b = untouched_bucket(info, i, spec, kind)
    burst = list(_ins(b, burst_n, dt=MS)) if b is not None else []
    return [tuple(x) for x in steps[:i]] + [_fault(dt, kind, nth, spec, tick, times)] + burst + \
           [tuple(x) for x in steps[i + 1:i + 1 + tail]]


def written_out(quick):
    out = []

    def add(name, h, lazy=True):
        out.append((name, lazy, h))

    # the count-branch flush fails: n writes of one kind, the last one's COMMIT raises (n = 51, 52: the statement that
    # crosses the threshold; n = 49, 50: nothing fires), then more of them
    for n in (49, 50, 51, 52):
        for kind in ("insert_one", "delete", "replace", "replace_last", "mixed"):
            for times in (1, 1000):
                if times == 1000 and (n != 51 or (quick and kind not in ("insert_one", "mixed"))):
                    continue
                if quick and n != 51 and kind != "mixed":
                    continue

                def h(r, n=n, kind=kind, times=times):
                    yield _create("b")
                    yield (MS, 0, ("insert_many", "b", (), 60))
                    yield (MS, 0, ("get_eventcount", "b"))
                    ids = r.event_ids("b")

                    def spec(k):
                        kk = kind if kind != "mixed" else ("insert_one", "delete", "replace_last", "replace")[k % 4]
                        return {"insert_one": ("insert_one", "b"), "delete": ("delete", "b", ids[k % 60]),
                                "replace": ("replace", "b", ids[(k * 7) % 60]), "replace_last": ("replace_last", "b")}[kk]
                    for k in range(n - 1):
                        yield (MS, 0, spec(k))
                    yield _fault(MS, "commit", 0, spec(n - 1), 0, times)
                    for k in range(n, n + 53):
                        yield (MS, 0, spec(k))
                    yield (MS, 0, ("get_events", "b", 0))
                add(f"fault-count-flush-{kind}-{n}" + ("-lock-held" if times > 1 else ""), h)

    # insert_many crossing the threshold: the finally clause's COMMIT raises; a statement of it raises
    for p in (0, 49, 50):
        def h_many(r, p=p):
            yield _create("b")
            yield (MS, 0, ("insert_many", "b", (), 6))
            yield (MS, 0, ("get_eventcount", "b"))
            ids = r.event_ids("b")
            yield from _ins("b", p)
            yield _fault(MS, "commit", 0, ("insert_many", "b", (ids[0], ids[1]), 51 - p))
            yield from _ins("b", 3)
            yield _fault(MS, "executemany", 20, ("insert_many", "b", (ids[2],), 40))
            yield _fault(MS, "execute", 1, ("insert_many", "b", (ids[0], ids[1], ids[2]), 30))
            yield from _ins("b", 52)
        add(f"fault-bulk-on-{p}", h_many)

    # every COMMIT raises for 70 calls: the writes of the calls that raised pile up, the acknowledged ones do not
    def h_all_fail(r):
        yield _create("b")
        yield from _ins("b", 50)
        for _ in range(70):
            yield _fault(MS, "commit", 0, ("insert_one", "b"))
        yield from _ins("b", 3)
        yield from _ins("b", 52)
    add("fault-every-commit-for-70-calls", h_all_fail)

    # the age-branch flush fails, then a burst within 10 s
    def h_age(r):
        yield _create("b")
        yield from _ins("b", 5)
        yield _fault(11 * S, "commit", 0, ("insert_one", "b"))
        yield from _ins("b", 52)
        yield _fault(11 * S, "commit", 0, ("replace_last", "b"), 0, 1000)
        yield from _ins("b", 52, dt=10 * MS)
    add("fault-age-flush-then-burst", h_age)

    # bucket calls and reads whose COMMIT / statement raises
    def h_bucket(r):
        yield _create("a")
        yield from _ins("a", 30)
        yield _fault(MS, "commit", 0, ("create_bucket", "b"))          # the bucket row stays pending, uncounted
        yield from _ins("a", 15)
        yield from _ins("b", 15)
        yield _fault(MS, "commit", 0, ("update_bucket", "a", 1))
        yield _fault(MS, "commit", 0, ("get_eventcount", "a"))
        yield from _ins("a", 20)
        yield (MS, 0, ("update_bucket", "a", 2))                       # returns normally: everything durable
        yield from _ins("b", 10)
        yield _fault(MS, "execute", 1, ("delete_bucket", "b"))          # second DELETE raises: the first stays pending
        yield from _ins("a", 45)
        yield _fault(MS, "commit", 0, ("delete_bucket", "b"))          # both statements ran, the COMMIT raises
        yield from _ins("a", 52)
        yield _fault(MS, "execute", 0, ("create_bucket", "c"))
        yield _fault(MS, "execute", 0, ("delete_bucket", "a"))
        yield from _ins("a", 5)
    add("fault-bucket-calls", h_bucket)

    def h_eager(r):
        yield _create("b")
        yield from _ins("b", 3)
        yield _fault(MS, "commit", 0, ("insert_one", "b"))
        yield (MS, 0, ("insert_one", "b"))
        yield _fault(MS, "commit", 0, ("insert_many", "b", (1,), 4))
        yield _fault(MS, "executemany", 2, ("insert_many", "b", (1,), 4))
        yield (MS, 0, ("delete", "b", 1))
        yield _fault(MS, "commit", 0, ("update_bucket", "b", 1))
        yield (MS, 0, ("replace_last", "b"))
    add("fault-eager", h_eager, lazy=False)
    return out


def corpus(ck, sq, Event, quick):
    """-> (list of (name, lazy, steps-or-generator), coverage dict)"""
    from . import c06_gen as gen
    out = list(written_out(quick))
    cov = {"commit_positions": 0, "commit_positions_run": 0, "statement_positions": 0, "statement_positions_run": 0,
           "bulk_row_positions": 0, "bulk_row_positions_run": 0, "base_histories": 0}
    # quick: a seeded quarter of the commit positions and of the statements of multi-statement calls, every 150th single
    # statement, every 10th bulk row position (another VERIF_SEED picks other positions); thorough: every commit position,
    # every statement of the multi-statement calls, every 5th single statement, every bulk row position
    def pick(pos, quick_mod, thorough_mod=1):
        m = quick_mod if quick else thorough_mod
        return pos % m == ck.seed % m
    pos = 0
    for name, lazy, h in gen.corpus():
        try:
            steps, info = scout(sq, Event, lazy, h)
        except Exception:
            continue
        cov["base_histories"] += 1
        for i, inf in enumerate(info):
            if inf is None or inf["raised"]:
                continue
            for j in range(inf["commits"]):
                cov["commit_positions"] += 1
                pos += 1
                if not pick(pos, 4):
                    continue
                cov["commit_positions_run"] += 1
                out.append((f"fault-at:{name}:step{i}:commit{j}", lazy, derived(steps, info, i, "commit", j)))
            multi = inf["writes"] >= 2 or (inf["rows"] and inf["writes"] >= 1)
            for j in range(inf["writes"]):
                cov["statement_positions"] += 1
                pos += 1
                if not (pick(pos, 4) if multi else pick(pos, 150, 5)):
                    continue
                cov["statement_positions_run"] += 1
                out.append((f"fault-at:{name}:step{i}:statement{j}", lazy,
                            derived(steps, info, i, "execute", j, burst_n=BURST if multi else 5)))
            if inf["rows"]:
                for done in sorted({0, inf["rows"] // 2, inf["rows"] - 1}):
                    cov["bulk_row_positions"] += 1
                    pos += 1
                    if not pick(pos, 10):
                        continue
                    cov["bulk_row_positions_run"] += 1
                    out.append((f"fault-at:{name}:step{i}:row{done}", lazy, derived(steps, info, i, "executemany", done)))
    return out, cov


# ---------------------------------------------------------------------------
# a real lock at the count-branch flush


def real_lock_run(sq, Event, layer):
    """Fake clock, real engine fault (the mechanism of c18_fault.real_lock_run): rollback-journal mode, a second
    connection inside a read transaction, busy_timeout 20 ms: the store's COMMIT raises 'database is locked' by itself
    and leaves the transaction open.  50 single-event writes are buffered, the 51st's count-branch COMMIT meets the
    lock, the lock goes away, writing goes on.  -> (violations, info)"""
    from aw_datastore import Datastore
    d = lib.scratch_dir()
    clock = lib.Clock()
    real = lib.install_fake_datetime(sq, clock)
    out, info = [], {"commit_raised": []}
    try:
        path = os.path.join(d, "lock.db")
        if layer == "api":
            ds = Datastore(sq.SqliteStorage, testing=True, filepath=path, enable_lazy_commit=True)
            st = ds.storage_strategy
            create = lambda: ds.create_bucket("b", "t", "c", "h", created=lib.T0)
            ins = lambda n: ds["b"].insert(lib._ev(Event, n))
            flush = lambda: ds["b"].get_eventcount()
        else:
            st = sq.SqliteStorage(testing=True, filepath=path, enable_lazy_commit=True)
            create = lambda: st.create_bucket("b", "t", "c", "h", lib.T0.isoformat(), None, None)
            ins = lambda n: st.insert_one("b", lib._ev(Event, n))
            flush = lambda: st.get_eventcount("b")
        mode = st.conn.execute("PRAGMA journal_mode=DELETE").fetchall()
        st.conn.execute("PRAGMA busy_timeout = 20")
        info["journal_mode"] = mode[0][0] if mode else None
        create()
        flush()
        reader = sqlite3.connect(path, timeout=0.02, isolation_level=None)

        def durable():
            c = sqlite3.connect(path, timeout=0.02, isolation_level=None)
            try:
                return {json.loads(r[0])["n"] for r in c.execute("SELECT datastr FROM events")}
            finally:
                c.close()

        label, acked, raised_labels = 0, set(), set()

        def write():
            nonlocal label
            label += 1
            clock.now += MS
            try:
                ins(label)
                acked.add(label)
                return None
            except sqlite3.OperationalError as ex:
                raised_labels.add(label)
                return str(ex)

        for round_ in range(2):
            for _ in range(THRESHOLD):
                write()                                          # buffered
            reader.execute("BEGIN")
            reader.execute("SELECT count(*) FROM events").fetchall()      # a shared lock, held
            raised = write()                                     # the statement that crosses the threshold: COMMIT meets the lock
            if raised is not None and round_ == 1:
                raised = write() or raised                       # the lock is still held: the retry meets it again
            reader.execute("COMMIT")                             # the lock goes away
            info["commit_raised"].append(raised)
            if raised is None:
                continue                                         # the engine did not raise: nothing to judge
            for k in range(THRESHOLD + 2):
                write()
                if k not in (0, 1, THRESHOLD - 1, THRESHOLD + 1):
                    continue
                try:
                    got = durable()
                except sqlite3.OperationalError:
                    # the store still holds its lock (its transaction is open): nobody else can read the file
                    info["observer_locked_out"] = info.get("observer_locked_out", 0) + 1
                    if k != THRESHOLD - 1:
                        continue
                    st.conn.close()                              # what a crash now would leave
                    got = durable()
                    info["store_closed_to_observe"] = True
                lost = sorted(acked - got)
                if len(lost) > THRESHOLD:
                    out.append((SIG_LOSS, f"{layer} layer, real lock (a reader's shared lock made the count-branch COMMIT of "
                                          f"write {sorted(raised_labels)[-1]} raise 'database is locked'; the lock was released "
                                          f"straight afterwards): after {k + 1} further single-event writes {len(lost)} writes of "
                                          f"calls that RETURNED NORMALLY (labels {lost[0]}..{lost[-1]}) are not durable (> 50 "
                                          f"acknowledged writes would be lost)"))
                if out or info.get("store_closed_to_observe"):
                    break
            if out or info.get("store_closed_to_observe"):
                break
            flush()
        info["writes"] = label
        info["writes_that_raised"] = len(raised_labels)
        try:
            reader.close()
            st.conn.close()
        except Exception:
            pass
    finally:
        sq.datetime = real
        shutil.rmtree(d, ignore_errors=True)
    return out, info


# ---------------------------------------------------------------------------
# the stream (called from harness/c06.py)


def run(ck, sq, Event, quick):
    from . import c06_gen as gen
    t_begin = time.time()
    # the fault machine's theorems for C06, tie B for the statement order of commit() around the engine call, the driver
    proved = ck.prove(props_file="Props/C06fault.v", extra_targets=["Bridge/BridgeCommitFault.v", "Model/CommitFaultC06Driver.v"],
                      gen_kernels=["commit_fault", "conditional_commit_fault"])
    if not proved:      # a broken bridge stops the build before the model: the stream needs the model all the same
        common.coq_make(["Props/C06fault.vo", "Model/CommitFaultC06Driver.vo"], ck.log)
    have_driver, out = common.build_driver("C06Fault", ck.log, "ExC06Fault")
    if not have_driver:
        ck.broken.append("fault model no longer extracts/compiles: " + out[-300:])
    phases = {"proofs_and_driver": round(time.time() - t_begin, 1)}
    t_phase = time.time()
    hist, cov = corpus(ck, sq, Event, quick)
    phases["scouting"] = round(time.time() - t_phase, 1)
    t_phase = time.time()
    n_corpus = len(hist)
    for i in range(12 if quick else 800):
        profile = ["burst", "mixed", "bulk", "burst"][i % 4]
        hist.append((f"random-faults-{i}", ck.rng.random() > 0.08, f18.random_faults(ck.rng, gen.random_history(ck.rng, profile))))
    # storage layer: everything; Datastore / Bucket layer: the written-out and random histories and (quick) every 6th derived one
    runs = []
    for idx, (n, lz, h) in enumerate(hist):
        runs.append((n, lz, h, "storage"))
        if (not n.startswith("fault-at:") and (not quick or idx % 2 == 0)) or (n.startswith("fault-at:") and idx % (10 if quick else 2) == 0):
            runs.append((n + "@api", lz, h, "api"))
    seen = ck.__dict__.setdefault("_reported_signatures", set())
    pending, wire = [], []
    budget = 300 if quick else 7200
    for name, lazy, h, layer in runs:
        if time.time() - t_begin > budget:
            ck.disagreement("harness", f"the fault histories take more than {budget} s of real time (stopped before {name})",
                            {"history": name})
            break
        try:
            s = run_session(sq, Event, lazy, h, layer)
        except Exception as ex:
            ck.disagreement("harness", f"fault history {name} ({layer} layer) could not be run: {type(ex).__name__}: {ex}",
                            {"history": name, "layer": layer})
            continue
        s.name = name
        for sig, desc in session_violations(s):
            key = (sig, layer, "c06-faults")
            if key in seen:
                ck.count("faults:further-failing-histories:" + sig)
                continue
            seen.add(key)
            steps = shrink(sq, Event, lazy, s.steps, sig, layer)
            ss = run_session(sq, Event, lazy, steps, layer)
            vv = [d for g, d in session_violations(ss) if g == sig]
            ck.failing_input(sig, f"{name}: {vv[0] if vv else desc}", replay_obj(ss, {"found_in": name}))
        fired = 0
        for r in s.segments:
            r.name = f"{name}[instance {r.index}]"
            case6, after, case8 = wire_cases(lazy, r.t0, r.rec)
            i_trace = len(wire)
            wire.append(case6)
            i_calls = len(wire)
            wire.append(case8)
            i_scripts = []
            for ci, c in enumerate(r.rec.calls):
                kind, w = f18.model_case_f(r.rec, ci, c)
                i_scripts.append((kind, len(wire)))
                wire.append(w)
                fl = c.get("fault")
                if fl and fl["fired"]:
                    fired += 1
                    ck.count(f"faults:fired:{layer}:" + fl["kind"])
                    ck.count("faults:fired-in:" + c["spec"][0])
            pending.append((s, r, i_trace, after, i_calls, i_scripts))
            ck.count("faults:micro-steps", len(r.rec.micro))
            ck.count("faults:crash-points-observed", len(r.rec.obs))
            ck.count("faults:calls-that-raised", sum(1 for c in r.rec.calls if c["outcome"] is not None))
            ck.count("faults:commit-steps-that-raised", sum(1 for fi in r.rec.finfo.values() if fi["raised"]))
            worst = max([o.get("lost_acked", 0) for o in r.rec.obs] or [0])
            ck.coverage["faults_max_acknowledged_writes_at_risk"] = max(ck.coverage.get("faults_max_acknowledged_writes_at_risk", 0), worst)
            pend = max([o["issued"] - max(o["J"]) for o in r.rec.obs if o.get("J")] or [0])
            ck.coverage["faults_max_statements_pending"] = max(ck.coverage.get("faults_max_statements_pending", 0), pend)
        ck.count("faults:histories")
        ck.count("faults:histories:" + layer)
        if fired:
            ck.count("faults:histories-in-which-the-engine-raised")
        ck.evaluations += 1
    phases["histories_and_oracle"] = round(time.time() - t_phase, 1)
    t_phase = time.time()
    if have_driver and pending:
        outs = common.run_driver("C06Fault", wire)
        done = set()
        for s, r, i_trace, after, i_calls, i_scripts in pending:
            if outs[i_trace] == [-999] or outs[i_calls] == [-999] or any(outs[i] == [-999] for _, i in i_scripts):
                ck.disagreement("commit-fault-model", f"{r.name}: the driver could not decode the case", replay_obj(s))
                continue
            bad = f18.compare_fault_model(r, outs[i_trace], after, [(k, outs[i]) for k, i in i_scripts])
            bad += compare_calls(r, outs[i_calls])
            for b in bad[:3]:
                ck.disagreement("commit-fault-model", f"{r.name} ({s.layer} layer): {b}",
                                replay_obj(s, {"disagreement": b, "instance": r.index}))
            if id(s) not in done:
                done.add(id(s))
                raised = sum(1 for rr in s.segments for fi in rr.rec.finfo.values() if fi["raised"]) + \
                    sum(len(rr.rec.markers) for rr in s.segments)
                ck.note_case([s.lazy, s.layer, "c06-faults", [(dt, tick, json.dumps(sp)) for dt, tick, sp in s.steps]],
                             nontrivial=raised > 0)
    phases["model_comparison"] = round(time.time() - t_phase, 1)
    t_phase = time.time()
    for layer in lib18.LAYERS:
        try:
            v, info = real_lock_run(sq, Event, layer)
        except Exception as ex:
            ck.disagreement("harness", f"real-lock run ({layer} layer) could not be run: {type(ex).__name__}: {ex}", {"layer": layer})
            continue
        ck.evaluations += 1
        ck.count("faults:real-lock-runs")
        ck.coverage.setdefault("faults_real_lock_run", {})[layer] = info
        for sig, desc in v[:1]:
            case = {"real_lock": {"layer": layer}}
            ck.failing_input(sig, desc, {"real_lock": {"layer": layer},
                                         "rerun": REPLAY_CMD % (common.REPO, common.VERIF, json.dumps(case))})
    phases["real_lock"] = round(time.time() - t_phase, 1)
    cov.update({"written_out_and_derived_histories": n_corpus, "runs": len(runs), "seconds": round(time.time() - t_begin, 1),
                "seconds_by_phase": phases})
    ck.coverage["fault_stream"] = cov
    ck.assumptions.append(
        "engine faults (Model/CommitFault.v header): a COMMIT that raises makes nothing durable and leaves the transaction "
        "open; a statement that raises is rolled back on its own; the rows an executemany went through before it raised stay "
        "in the open transaction (SQLite; sampled through the second connection at every crash point of the fault histories "
        "and by the real-lock run).  'returned normally' = no exception reaches the caller.  The bound of C06 under faults is "
        "about the writes of calls that returned normally (at most 50 of them beyond the durable prefix); the writes of calls "
        "that RAISED are durable or lost in issue order with the rest, are flushed by the next COMMIT that succeeds, are not "
        "rolled back and are not bounded in number (Props/C06fault.v)")
    ck.trusted.append("translate/k_commitfault.py (tie B: statement order of commit() around self.conn.commit(), exception "
                      "propagation through conditional_commit; Bridge/BridgeCommitFault.v)")


# ---------------------------------------------------------------------------
# replay


def main():
    arg = sys.argv[1]
    case = json.load(open(arg)) if not arg.lstrip().startswith("{") else json.loads(arg)
    while "history" not in case and "real_lock" not in case and "replay" in case:
        case = case["replay"]
    if "history" in case:
        case = case["history"]
    common.setup_impl_env()
    import aw_datastore.storages.sqlite as sq
    from aw_core.models import Event
    if "real_lock" in case:
        v, info = real_lock_run(sq, Event, case["real_lock"].get("layer", "storage"))
        print("real-lock run:", info)
    else:
        layer = case.get("layer", "storage")
        s = run_session(sq, Event, case["lazy"], case["steps"], layer)
        v = session_violations(s)
        for r in s.segments:
            acc = acked_prefix_sums(r.rec)
            print(f"store instance #{r.index} ({layer} layer, {'lazy' if r.lazy else 'eager'}): {len(r.steps)} calls, "
                  f"{len(r.rec.issue_time)} write statements, {len(r.rec.obs)} crash points observed")
            for o in r.rec.obs:
                if o["kind"] == "call-end":
                    c = r.rec.calls[o["call"]]
                    J = o.get("J") or []
                    print(f"  t={o['t'] / 1e6:12.6f}s  {str(c['spec']):56s} issued={o['issued']:4d} committed-prefix={J[-1] if J else '??':>4} "
                          f"acknowledged-at-risk={o.get('lost_acked', '?'):>3} n={o['n']} "
                          f"{'RAISED ' + c['outcome'] if c['outcome'] else ''}")
    for sig, d in v:
        print("VIOLATES", sig, "-", d)
    if not v:
        print("oracle: ok")
    return 1 if v else 0


if __name__ == "__main__":
    sys.exit(main())
