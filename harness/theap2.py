"""THEAP2 -- "the inputs are not modified / what the result shares with them" for the C16 transforms
(sort_by_timestamp, sort_by_duration, limit_events, concat, filter_keyvals, merge_events_by_keys,
chunk_events_by_key, sum_durations): tie A for the heap-level model coq/Model/GroupHeap.v (data dicts WITH
STRUCTURE: coq/Model/DictHeap.v; driver coq/Extract/ExTHeap.v -> build/THEAP_<prop>/driver, calls 10..17)
and the sharing clause evaluated on the implementation.

Same kind of check as harness/theap.py (whose case-spec conventions, object table and shrinker are reused),
except that a data dict is NOT one opaque label here: every dict travels as its skeleton
    (2 ((key_label 1 scalar_label) | (key_label 0) ...) (kid ...))       entries in insertion order
and every list value inside event data is a cell of its own (1 value_label (kid ...)), so that "the new dict
refers to THE list object of the first member's data" is something model and code can agree or differ on.

One case = Python argument list(s) built WITH ALIASING (the same Event object several times in a list, Events
sharing one data dict, data dicts sharing ONE list value object, the same list passed twice, two lists
sharing Events) + the call and its parameters.  Per case
  * every mutable object reachable from the arguments gets one location (identity, `is`) -> the input heap;
  * ORACLE (no model involved): every input object has its snapshot content after the call (scalars by type and
    value, members by identity, dict key order, list order) -- `C16:input-modified`; and the result has exactly the
    documented sharing with the input (new list of the caller's own Events / the input list itself for merge
    with no keys / new Events + new dicts whose list values ARE the first member's / chunks whose `subevents`
    hold the caller's Events) -- `C16:sharing`;
  * CORRESPONDENCE: status and error class, then a simultaneous walk from every input object and from the result
    that must be a bijection between model locations and Python objects with equal tags (Event id/ts/dur, dict
    key labels in order + scalar labels + which values are objects, list member counts, value-list labels), input
    objects at their original locations, the model's heap' equal to the input heap on the old indices (frame).

Labels (per case): key strings -> ints >= 100; values -> one int per Python ==/hash class of the hashable-ised
value (tuple(x) for a list), so 1, 1.0, True share a label and a list never shares one with a scalar.
List labels on the wire: ARGUMENT lists, like every list the model allocates, carry EVENT_LIST (-2) and their
label is never compared; a list VALUE inside data carries the label of tuple(value) and is compared.
A None among the events (malformed stream) is a member-less cell (1 label_of_None ()).

Group C19 (categorize, tag, split_url_events, simplify_string; Model/ClassifyHeap.v, calls 20..23): the same check with
harness/c19.py's label tables and engine tables (see "group C19" below).  The annotating functions write the data dicts
of the listed events IN PLACE: the oracle allows exactly the keys a function owns to differ there (`$category` / `$tags` /
the six `$` url keys of events that had "url"; everything else, the Events, the argument list, the rules and every
nested value as before, also when the call raised midway) -- `C19:input-modified-outside-owned`; `C19:sharing`: new
list of the same Events, `$category` IS one of the rules' category list objects or a new ["Uncategorized"], `$tags` a
new list per write, split_url_events returns THE argument list, simplify_string a result that reaches no input object.
The model answers an exception of an in-place function with the heap it reached; the after-state of every input object
is compared with it.

Group C12 (filter_keyvals_regex; Model/FilterRegexHeap.v, call 18; theorems in Props/C12transforms.v - the function is
the built-in q2_filter_keyvals_regex and not part of C16's statement): the C16 codec and oracle (`C12:input-modified`,
`C12:sharing`: a new list holding exactly the caller's own Events whose value under the key is a str the pattern is found
in, by identity and in order); the regex engine travels as a table: whether re.compile(regex) returned, and for every
value label of the case what bool(r.findall(v)) gives on the real `re` (True / False / the exception class).

usable as   python -m harness.theap2 quick | thorough            (evidence/THEAP2.json)
            python -m harness.theap2 replay '<case json>' | <file.json>
and as      from harness import theap2;  ok = theap2.prepare(ck, "C16");  theap2.heap_check(ck, "C16", have_driver=ok)
            (likewise "C19")"""
import copy
import itertools
import json
import os
import random
import re
import sys
from datetime import datetime, timedelta

from . import c19, common
from .common import Check, sx
from .evutil import BASE, dt, mk_event, pulse_us, us_of_dt, us_of_td
from .theap import (ERRCODE, ERRNAME, EVENT_LIST, Built, R, Rec, Table, _model_reach, _shape_str, inst, is_cell,
                    refs_in, relcell, shape_model, shrink_case, tstr)

DRIVER = "THEAP_C16"
MODEL_FILES = ["Model/MemHeap", "Model/TransformHeap", "Model/DictHeap", "Model/Group", "Model/GroupHeap",
               "Model/ClassifyBase", "Model/Classify", "Model/ClassifyHeap", "Model/FilterRegexHeap"]
MODEL_TARGETS = ["Model/GroupHeap.vo", "Model/ClassifyHeap.vo", "Model/FilterRegexHeap.vo"]
SUBEVENTS = "subevents"

RULE = ("per function a deterministic corpus (small layouts over a data alphabet with missing keys, list values incl. [] "
        "and equal-content-but-distinct list objects, equal values under different keys, 1 / 1.0 / True, duplicates of "
        "whole events; sort: every tie pattern of <= 3 keys; limit: every count in -3..len+2; concat: every pair of "
        "lengths <= 3; filter: vals incl. [], values of other keys, list values, both exclude flags; merge: key lists [], "
        "[a], [a,b], [b,a], [a,a], [a,b,a], a key nobody has; chunk: key in a prefix only, pulsetime {0, 0.001, 1, 5.0, 60}, "
        "unsorted timestamps) crossed with aliasing configurations (none; the same Event object 2-3x in the list; Events "
        "sharing ONE data dict; data dicts sharing ONE list value object, all or only the first two of equal content; the "
        "same list as both arguments of concat; two lists sharing Events; combinations), then seeded random layouts with "
        "random aliasing, plus malformed lists (a plain dict / None among the events) and unhashable merge values ([[1]], "
        "a dict holding a list); C19: layouts over a data alphabet with pre-existing `$category` / `$tags` / `$domain` values "
        "(string, list-of-strings object, number), nested containers, every url / title / canary string of harness/c19.py's "
        "pools, rule lists with ties, empty categories, select_keys, one category list object serving two rules or being a "
        "value in event data, urls that make urlparse raise after earlier events were annotated, simplify with missing / "
        "non-str values midway and strings rewritten repeatedly through shared dicts, x the aliasing configurations, then "
        "seeded random events and rules (c19's generators); non-trivial = distinct case with some aliasing among the inputs "
        "and a non-empty result")


# ---------------------------------------------------------------------------
# the functions of a group: how to call, how to put the call on the wire, what the result must share
#
# case spec (JSON-able, self-contained; the conventions of harness/theap.py):
#   {"which": w, "stream": s, "params": {...},
#    "nested": [template...]   shared list VALUE objects; {"$ref": k} inside a data template is THE object nested[k]
#    "data":   [template...]   data dict objects; events naming the same index share the object
#    "events": [[id, ts_rel_us, dur_us, data_index, raw_ts] | ["dict", data_index] | ["none"]]
#    "lists":  [[event index...], ...]   the argument list(s); the same index twice = the same object twice
#    "same_list": bool}        binary functions: the first list object is passed as both arguments


class Fn:
    """one function of a group: call = run the implementation; encode = the call on the wire; expect (before the call) /
    oracle (after it) = the sharing statement; gen = the case generator.  Optional: codec = how values / dicts / lists
    travel (CaseLabels: C16; Codec19: C19); setup(b, case, env) = further arguments built from the spec (rules, category
    list objects: b.extra_roots are registered as input objects, b.guard() renders what is not on the heap);
    owned(keys_before) = the keys of an event's data dict the function may write (None: it may write nothing);
    inplace = the model answers an exception with the heap it reached"""

    def __init__(self, name, callno, prop, nargs, module, call, encode, expect, oracle, gen, argdesc="",
                 codec=None, setup=None, owned=None, inplace=False):
        self.name, self.callno, self.prop, self.nargs, self.module = name, callno, prop, nargs, module
        self.call, self.encode, self.expect, self.oracle, self.gen, self.argdesc = call, encode, expect, oracle, gen, argdesc
        self.codec, self.setup, self.owned, self.inplace = codec, setup, owned, inplace


FUNCS = {}
GROUPS = {}


def register_fn(fn):
    FUNCS[fn.name] = fn
    GROUPS.setdefault(fn.prop, []).append(fn.name)


def _tables():
    """WHICH / CALLNO / PROP in the shape harness/theap.py has them"""
    return tuple(FUNCS), {w: f.callno for w, f in FUNCS.items()}, {w: f.prop for w, f in FUNCS.items()}


# ---------------------------------------------------------------------------
# labels

def freeze(x):
    """the hashable form whose ==/hash classes are the value classes (tuple(x) for a flat list); nested lists and
    dicts (outside the value domain, generated rarely) are frozen recursively"""
    if isinstance(x, list):
        return tuple(freeze(y) for y in x)
    if isinstance(x, dict):
        return ("\0dict", frozenset((k, freeze(v)) for k, v in dict.items(x)))
    return x


class CaseLabels:
    """C16 codec: key strings -> 100.., values -> one label per ==/hash class; every dict is a skeleton cell, every list
    inside data a cell labelled by its value class"""

    def __init__(self):
        self.keys, self.vals = {}, {}

    def k(self, s):
        return self.keys.setdefault(s, 100 + len(self.keys))

    def v(self, x):
        return self.vals.setdefault(freeze(x), len(self.vals))

    def key_name(self, n):
        for s, i in self.keys.items():
            if i == n:
                return s
        return "<key label %s>" % n

    def val_name(self, n):
        for s, i in self.vals.items():
            if i == n:
                return repr(list(s) if isinstance(s, tuple) and not (s and s[0] == "\0dict") else s)
        return "<value label %s>" % n

    def note_event(self, e):
        pass

    def none_cell(self):
        return [1, self.v(None), []]

    def entries(self, o):
        return [[self.k(k), 0] if is_cell(v) else [self.k(k), 1, self.v(v)] for k, v in dict.items(o)]

    def cell(self, o, ks):
        """the cell of a dict or of a list that is not an event list"""
        return [2, self.entries(o), ks] if isinstance(o, dict) else [1, self.v(o), ks]

    def differs(self, cell, o, path):
        """None, or how the model cell differs from the dict / list o (members are compared by the caller)"""
        if isinstance(o, dict):
            if cell[0] != 2:
                return "%s: model cell %s is not a dict, the implementation has the dict %r" % (path, relcell(cell), o)
            mine = self.entries(o)
            if cell[1] != mine:
                return "%s: model dict %s, implementation dict %s (%r)" % (path, self.cellstr(cell), self.cellstr([2, mine, []]), o)
            return None
        if cell[0] != 1:
            return "%s: model cell %s is not a list, the implementation has a list" % (path, self.cellstr(cell))
        if cell[1] != EVENT_LIST:          # a list VALUE of event data: its == class
            mine = self.v(o)
            if cell[1] != mine:
                return "%s: model list label %d (%s), implementation value %r (label %d)" % (
                    path, cell[1], self.val_name(cell[1]), o, mine)
        return None

    def cellstr(self, c):
        c = relcell(c)
        if c and c[0] == 2:
            return "{%s}" % ", ".join("%r: %s" % (self.key_name(e[0]), self.val_name(e[2]) if e[1] == 1 else "<object>") for e in c[1])
        return str(c)


# ---------------------------------------------------------------------------
# assembling case specs

def mk_case(which, rows_lists, params=None, share_data=False, share_lists=False, dups=(), cross=(), same_list=False,
            raw=False, noid=(), stream="corpus"):
    """rows_lists: per argument list, rows [ts_rel_us, dur_us, data_template] | ["dict", template] | ["none"].
    share_data: Events whose templates are textually equal share ONE data dict object.
    share_lists: flat list values of equal content become ONE object ("all"), or only the first two occurrences of each
    content do ("first2": later ones are equal-content-but-distinct objects).
    dups: (list, source position, insert position) -- the same Event object again in that list.
    cross: (source position in list 0, insert position in list 1) -- the two lists share that Event object."""
    nested, data, events, lists = [], [], [], []
    dshare, lshare = {}, {}

    def tpl_of(t):
        t = copy.deepcopy(t)
        if share_lists:
            for k, v in list(t.items()):
                if type(v) is list and not any(is_cell(x) for x in v):
                    key = json.dumps(v)
                    ent = lshare.setdefault(key, [None, 0])
                    if share_lists == "all" or ent[1] < 2:
                        if ent[0] is None:
                            nested.append(v)
                            ent[0] = len(nested) - 1
                        ent[1] += 1
                        t[k] = R(ent[0])
        return t

    def data_index(t):
        key = json.dumps(t)
        if share_data and key in dshare:
            return dshare[key]
        data.append(tpl_of(t))
        if share_data:
            dshare[key] = len(data) - 1
        return len(data) - 1

    for rows in rows_lists:
        idxs = []
        for row in rows:
            if row[0] == "none":
                events.append(["none"])
            elif row[0] == "dict":
                data.append(tpl_of(row[1]))
                events.append(["dict", len(data) - 1])
            else:
                ts, dur, t = row
                eid = None if len(events) in noid else len(events)
                events.append([eid, ts, dur, data_index(t), bool(raw and ts % 1000)])
            idxs.append(len(events) - 1)
        lists.append(idxs)
    for li, src, at in dups:
        if li < len(lists) and lists[li]:
            l = lists[li]
            l.insert(min(at, len(l)), l[src % len(l)])
    for src, at in cross:
        if len(lists) == 2 and lists[0]:
            lists[1].insert(min(at, len(lists[1])), lists[0][src % len(lists[0])])
    if same_list:
        lists = lists[:1]
    return {"which": which, "stream": stream, "params": copy.deepcopy(params or {}), "nested": nested, "data": data,
            "events": events, "lists": lists, "same_list": bool(same_list)}


# data alphabet of the corpora
A_EMPTY, A_1, A_1F, A_TB, A_B1, A_LX, A_LXX, A_LE, A_XX, A_LXY, A_NONE, A_SUB, A_BL = range(13)
ALPHA = [{}, {"a": 1}, {"a": 1.0}, {"a": True, "b": 1}, {"b": 1}, {"a": ["x"]}, {"a": ["x"], "b": ["x"]},
         {"a": [], "c": "x"}, {"b": "x", "a": "x"}, {"a": ["x", "y"], "b": 2}, {"a": None},
         {"a": 2, "subevents": [1]}, {"b": ["x"], "a": 1}]
S, MS = 1_000_000, 1000
# aliasing configurations of the unary functions
UCONF = [dict(), dict(share_data=True), dict(share_lists="all"), dict(dups=[(0, 0, 1)]),
         dict(dups=[(0, 0, 1), (0, 0, 99)]), dict(share_data=True, share_lists="all"),
         dict(share_lists="first2", dups=[(0, 1, 0)]), dict(share_data=True, dups=[(0, 0, 2)], noid=(0, 2))]
DSEQ = [A_LX, A_1, A_LX, A_LXX, A_1, A_BL, A_LXX]


def rows_of(idxs, ts=None, durs=None, unit=S):
    return [[(ts[j] if ts else j) * unit, (durs[j] if durs else 1 << j) * unit, ALPHA[i]] for j, i in enumerate(idxs)]


def malformed_rows():
    e, f = [0, S, ALPHA[A_1]], [S, 2 * S, ALPHA[A_EMPTY]]
    d, n = ["dict", {"a": 1}], ["none"]
    return [[d], [e, d], [d, e], [n], [e, n], [n, e], [f, n], [e, e, d], [e, f, d], [f, d]]


def gen_simple(which, rng, n_random):
    """sort_by_timestamp / sort_by_duration / sum_durations"""
    for n in range(0, 4):
        for pat in itertools.product(range(3), repeat=n):
            if which == "sort_by_duration":
                rows = [[((5 * j + p) % 4) * S, p * S, ALPHA[DSEQ[j]]] for j, p in enumerate(pat)]
            else:
                rows = [[p * S, ((7 * j + p) % 3) * S, ALPHA[DSEQ[j]]] for j, p in enumerate(pat)]
            for cf in (UCONF[:7] if which != "sum_durations" else UCONF[:4]):
                yield mk_case(which, [rows], **cf)
    for durs in ([1, 250, 999_999], [S // 3, S // 3, S // 3, 1], [0, 0], [3 * S + 1, -S, 7]):
        rows = [[j * MS, d, ALPHA[DSEQ[j]]] for j, d in enumerate(durs)]
        for cf in UCONF[:5]:
            yield mk_case(which, [rows], **cf)
    for rows in malformed_rows():
        yield mk_case(which, [rows], stream="malformed")
        yield mk_case(which, [rows], stream="malformed", share_data=True, dups=[(0, 0, 1)])
    for _ in range(n_random):
        yield rand_case(which, rng)


def gen_limit(which, rng, n_random):
    confs = [dict(), dict(share_data=True), dict(dups=[(0, 0, 1)]), dict(share_lists="all", dups=[(0, 1, 0), (0, 0, 99)])]
    for n in range(0, 5):
        rows = rows_of(DSEQ[:n])
        for count in range(-3, n + 3):
            for cf in confs:
                yield mk_case(which, [rows], {"count": count}, **cf)
    for rows in malformed_rows():
        for count in (-1, 0, 1, 5):
            yield mk_case(which, [rows], {"count": count}, stream="malformed")
    for _ in range(n_random):
        yield rand_case(which, rng)


BCONF = [dict(), dict(same_list=True), dict(cross=[(0, 0)]), dict(cross=[(0, 99), (1, 0)]), dict(dups=[(0, 0, 1)]),
         dict(dups=[(1, 0, 1)]), dict(share_data=True, share_lists="first2"),
         dict(share_lists="all", same_list=True, dups=[(0, 0, 1)]),
         dict(share_data=True, cross=[(0, 1)], dups=[(1, 0, 99), (0, 0, 0)])]


def gen_concat(which, rng, n_random):
    for n in range(0, 4):
        for m in range(0, 4):
            la = rows_of(DSEQ[:n])
            lb = [[(10 + j) * S, 2 * S, ALPHA[DSEQ[(j + 2) % len(DSEQ)]]] for j in range(m)]
            for cf in BCONF:
                yield mk_case(which, [la, lb], **cf)
    for rows in malformed_rows():
        yield mk_case(which, [rows, rows_of(DSEQ[:1])], stream="malformed")
        yield mk_case(which, [rows_of(DSEQ[:2]), rows], stream="malformed", cross=[(0, 0)])
        yield mk_case(which, [rows, []], stream="malformed", same_list=True)
    for _ in range(n_random):
        yield rand_case(which, rng)


FVALS = [[], [1], [1, ["x"]], [["x"]], ["x", 2, None], [[]], [True, ["x", "y"]], [["y", "x"], 1.0, "1"]]
FALPHA = [A_EMPTY, A_1, A_1F, A_TB, A_LX, A_LXX, A_LE, A_XX, A_NONE, A_BL]


def gen_filter(which, rng, n_random):
    seqs = [()] + [p for n in (1, 2) for p in itertools.product(FALPHA, repeat=n)]
    k = 0
    for idxs in seqs:
        rows = rows_of(idxs)
        for key in ("a", "b"):
            # every vals list on the short layouts, a rotating one on the others; aliasing configuration rotates
            vs = FVALS if len(idxs) <= 1 else [FVALS[(k + 3) % len(FVALS)]]
            for vals in vs:
                k += 1
                cf = UCONF[k % len(UCONF)]
                yield mk_case(which, [rows], {"key": key, "vals": vals, "exclude": bool(k % 2)}, **cf)
    tri = [(A_LX, A_LXX, A_LX), (A_1, A_1F, A_TB), (A_LE, A_LX, A_LE), (A_XX, A_BL, A_XX), (A_LXY, A_SUB, A_LXY)]
    for idxs in tri:
        for key in ("a", "b", "c", "zz"):
            for vals in FVALS[k % 2::2]:
                for excl in (False, True):
                    k += 1
                    yield mk_case(which, [rows_of(idxs)], {"key": key, "vals": vals, "exclude": excl}, **UCONF[k % len(UCONF)])
    for rows in malformed_rows():
        for excl in (False, True):
            yield mk_case(which, [rows], {"key": "a", "vals": [1], "exclude": excl}, stream="malformed")
    for _ in range(n_random):
        yield rand_case(which, rng)


KEYLISTS = [[], ["a"], ["a", "b"], ["b", "a"], ["a", "a"], ["zz"], ["a", "b", "a"], ["zz", "b"]]
MALPHA = [A_EMPTY, A_1, A_1F, A_TB, A_LX, A_LXX, A_BL, A_LE]
MTRI = [(A_LX, A_LXX, A_LX), (A_LX, A_LX, A_LX), (A_1, A_1F, A_TB), (A_LXX, A_BL, A_LXX), (A_LE, A_EMPTY, A_LE),
        (A_BL, A_LX, A_BL), (A_LXY, A_LX, A_LXY), (A_XX, A_B1, A_XX), (A_EMPTY, A_EMPTY, A_B1), (A_SUB, A_LXY, A_SUB)]
UNHASHABLE = [{"a": [[1]]}, {"a": {"z": [1]}}, {"b": 1, "a": [["x"], "y"]}]


def gen_merge(which, rng, n_random):
    k = 0
    seqs = [()] + [p for n in (1, 2) for p in itertools.product(MALPHA, repeat=n)]
    for idxs in seqs:
        # every key list on the short layouts, every other one (rotating) on the pairs; aliasing configuration rotates
        for keys in (KEYLISTS if len(idxs) <= 1 else KEYLISTS[k % 2::2]):
            k += 1
            yield mk_case(which, [rows_of(idxs)], {"keys": keys}, **UCONF[k % len(UCONF)])
    for idxs in MTRI:
        for keys in KEYLISTS:
            k += 1
            for cf in UCONF[k % 2::2]:
                yield mk_case(which, [rows_of(idxs)], {"keys": keys}, **cf)
    # sub-millisecond timestamps stored unfloored: the new events are built through the constructor (floor)
    for keys in (["a"], ["a", "b"]):
        rows = [[1500, S, ALPHA[A_LX]], [2999, 2 * S, ALPHA[A_LX]], [4000, 4 * S, ALPHA[A_1]]]
        yield mk_case(which, [rows], {"keys": keys}, raw=True)
        yield mk_case(which, [rows], {"keys": keys}, raw=True, share_lists="all", dups=[(0, 0, 2)])
    for t in UNHASHABLE:
        for keys in (["a"], ["b"], ["b", "a"], []):
            for rows in ([[0, S, t]], [[0, S, ALPHA[A_1]], [S, S, t]], [[0, S, t], ["dict", {"a": 1}]]):
                yield mk_case(which, [rows], {"keys": keys}, stream="unhashable")
    for rows in malformed_rows():
        for keys in ([], ["a"], ["zz"]):
            yield mk_case(which, [rows], {"keys": keys}, stream="malformed")
    for _ in range(n_random):
        yield rand_case(which, rng)


CPULSES = [0, 0.001, 1, 5.0, 60]
CALPHA = [A_EMPTY, A_1, A_1F, A_B1, A_LX, A_LXX, A_LXY]


def gen_chunk(which, rng, n_random):
    k = 0
    seqs = [()] + [p for n in (1, 2) for p in itertools.product(CALPHA, repeat=n)]
    for idxs in seqs:
        for key in ("a", "b"):
            k += 1
            yield mk_case(which, [rows_of(idxs)], {"key": key, "pulsetime": CPULSES[k % 5]}, **UCONF[k % len(UCONF)])
    tri = [(A_LX, A_LXX, A_LX), (A_LX, A_LX, A_LX), (A_1, A_1F, A_TB), (A_LX, A_LX, A_B1), (A_1, A_B1, A_1),
           (A_LXX, A_BL, A_LXX), (A_LXY, A_LXY, A_LX), (A_TB, A_BL, A_B1)]
    # sorted (timediff against events[-1] negative: everything within the pulse), reversed and scattered timestamps
    tss = [None, [9, 5, 0], [0, 20, 3]]
    for idxs in tri:
        for ts in tss:
            for key in ("a", "b"):
                for p in CPULSES:
                    k += 1
                    yield mk_case(which, [rows_of(idxs, ts=ts)], {"key": key, "pulsetime": p}, **UCONF[k % len(UCONF)])
    # the pulse edge at millisecond scale: timediff = ts - (events[-1].ts + events[-1].dur) in {p - 1 ms, p, p + 1 ms}
    for x in (2999, 3000, 3001):
        for p in (1, 0.001, 0):
            rows = [[10 * S, S, ALPHA[A_LX]], [x * MS if p == 1 else 2 * S + (x - 2999) * MS, S, ALPHA[A_LX]],
                    [0, 2 * S, ALPHA[A_LX]]]
            for cf in (dict(), dict(share_lists="all"), dict(share_data=True, dups=[(0, 0, 1)])):
                yield mk_case(which, [rows], {"key": "a", "pulsetime": p}, **cf)
    rows = [[1500, S, ALPHA[A_LX]], [2999, 2 * S, ALPHA[A_LX]], [4000, 4 * S, ALPHA[A_1]]]
    yield mk_case(which, [rows], {"key": "a", "pulsetime": 5.0}, raw=True)
    yield mk_case(which, [rows], {"key": "a", "pulsetime": 0}, raw=True, share_lists="first2", dups=[(0, 0, 2)])
    for t in UNHASHABLE[:2]:       # a nested / dict value is shared like any other object
        yield mk_case(which, [[[0, S, t], [S, S, t], [2 * S, S, ALPHA[A_1]]]], {"key": "a", "pulsetime": 5.0})
        yield mk_case(which, [[[0, S, t], [S, S, t]]], {"key": "a", "pulsetime": 5.0}, share_data=True)
    for rows in malformed_rows():
        for key in ("a", "zz"):
            yield mk_case(which, [rows], {"key": key, "pulsetime": 5.0}, stream="malformed")
    for _ in range(n_random):
        yield rand_case(which, rng)


# -- seeded random layouts

# filter_keyvals_regex: patterns (two do not compile), strings, and a data alphabet with non-str values under the key
RXPOOL = ["x", "^x$", "", "y|1", "x+y", ".", "(?i)X", "\\d", "[", "(x", "x$", "^$"]
RXSTRINGS = ["x", "xy", "y", "", "X", "1", "axb", "yx"]
RALPHA = [{}, {"a": "x"}, {"a": "xy", "b": "x"}, {"a": "y"}, {"a": ""}, {"b": "x"}, {"a": "X", "c": ["x"]},
          {"a": 1}, {"a": ["x"]}, {"a": None}, {"a": {"z": "x"}}, {"b": "y", "a": "x"}]


def gen_fregex(which, rng, n_random):
    seqs = [()] + [p for n in (1, 2) for p in itertools.product(range(len(RALPHA)), repeat=n)]
    k = 0
    for idxs in seqs:
        rows = [[j * S, (1 << j) * S, RALPHA[i]] for j, i in enumerate(idxs)]
        for key in ("a", "b"):
            # every pattern on the short layouts, a rotating one on the others; the aliasing configuration rotates
            for rx in (RXPOOL if len(idxs) <= 1 else [RXPOOL[(k + 5) % len(RXPOOL)], RXPOOL[k % 3]]):
                k += 1
                yield mk_case(which, [rows], {"key": key, "regex": rx}, **UCONF[k % len(UCONF)])
    tri = [(1, 2, 1), (1, 3, 11), (2, 1, 7), (1, 1, 8), (4, 1, 4), (6, 2, 6), (5, 11, 5), (1, 10, 1), (1, 9, 2)]
    for idxs in tri:
        rows = [[j * S, (1 << j) * S, RALPHA[i]] for j, i in enumerate(idxs)]
        for key in ("a", "b", "c", "zz"):
            for rx in RXPOOL:
                k += 1
                yield mk_case(which, [rows], {"key": key, "regex": rx}, **UCONF[k % len(UCONF)])
    for rows in malformed_rows():
        for rx in ("x", "["):
            yield mk_case(which, [rows], {"key": "a", "regex": rx}, stream="malformed")
    for _ in range(n_random):
        yield rand_case(which, rng)


VALPOOL = [1, 2, "x", "y", ["x"], ["x", "y"], [], "1", 1.0, True, 0, False, None, ["y", "x"], [1], [1.0], ""]
KEYPOOL = ["a", "b", "c"]


def rand_data(rng, pool):
    d = {}
    ks = list(KEYPOOL)
    rng.shuffle(ks)
    for k in ks:
        if rng.random() < 0.6:
            d[k] = copy.deepcopy(rng.choice(pool))
    if rng.random() < 0.04:
        d[SUBEVENTS] = copy.deepcopy(rng.choice(pool))
    return d


def rand_rows(rng, nmax=6):
    n = rng.choice([0, 1, 2, 2, 3, 3, 4, 5, 6][:nmax + 3])
    pool = rng.sample(VALPOOL, rng.choice([1, 2, 2, 3, 4]))
    unit = rng.choice([S, S, MS, 500_000])
    rows, protos, t = [], [], 0
    for _ in range(n):
        t += rng.choice([0, 0, 1, 1, 2, 3, 7, -1, -3])
        d = rng.choice([0, 0, 1, 1, 2, 3, 5, 5, -1]) * unit + rng.choice([0, 0, 0, 0, 1, 250, 999_999])
        if protos and rng.random() < 0.35:
            x = copy.deepcopy(rng.choice(protos))         # duplicates of whole data dicts
        else:
            x = rand_data(rng, pool)
            protos.append(x)
        rows.append([t * unit + rng.choice([0, 0, 0, 0, 1, 999, 1500]), d, x])
    return rows, pool


def rand_alias(rng, lens, binary):
    al = {"share_data": rng.random() < 0.4, "share_lists": rng.choice([False, False, "all", "first2"])}
    if rng.random() < 0.15:
        al = {}
    dups = []
    if rng.random() < 0.4:
        for _ in range(rng.choice([1, 1, 2])):
            li = rng.randrange(len(lens))
            if lens[li]:
                src = rng.randrange(lens[li])
                dups.append((li, src, src + 1 if rng.random() < 0.5 else rng.randrange(0, lens[li] + 2)))
    al["dups"] = dups
    if binary:
        if rng.random() < 0.15:
            al["same_list"] = True
        elif rng.random() < 0.3 and lens[0]:
            al["cross"] = [(rng.randrange(lens[0]), rng.randrange(0, lens[1] + 1)) for _ in range(rng.choice([1, 1, 2]))]
    if rng.random() < 0.06:
        al["raw"] = True
    if rng.random() < 0.3:
        al["noid"] = tuple(sorted(rng.sample(range(sum(lens) + 2), rng.randrange(0, 3))))
    return al


def rand_case(which, rng):
    fn = FUNCS[which]
    rows, pool = rand_rows(rng)
    stream = "random"
    params = {}
    if which == "limit_events":
        params = {"count": rng.randrange(-3, len(rows) + 3)}
    elif which == "filter_keyvals":
        vals = [copy.deepcopy(rng.choice(pool + VALPOOL[:3])) for _ in range(rng.choice([0, 1, 1, 2, 3]))]
        params = {"key": rng.choice(KEYPOOL + ["zz"]), "vals": vals, "exclude": rng.random() < 0.5}
    elif which == "filter_keyvals_regex":
        params = {"key": rng.choice(KEYPOOL + ["zz"]), "regex": rng.choice(RXPOOL)}
        for row in rows:                      # mostly strings under the key, so that the call usually returns
            if rng.random() < 0.7:
                row[2][params["key"]] = rng.choice(RXSTRINGS)
    elif which == "merge_events_by_keys":
        params = {"keys": [rng.choice(KEYPOOL + ["zz"]) for _ in range(rng.choice([0, 1, 1, 2, 2, 2, 3]))]}
        if rows and rng.random() < 0.04:
            t = rng.choice(rows)[2]
            t[rng.choice(KEYPOOL)] = copy.deepcopy(rng.choice([[[1]], {"z": [1]}, [["x"], "y"]]))
            stream = "random-unhashable"
    elif which == "chunk_events_by_key":
        params = {"key": rng.choice(KEYPOOL), "pulsetime": rng.choice(CPULSES)}
        if rows and rng.random() < 0.5:        # long runs: one value under the key for most events
            v = rng.choice(pool)
            for r in rows:
                if rng.random() < 0.8:
                    r[2][params["key"]] = copy.deepcopy(v)
    if rng.random() < 0.04:
        rows.insert(rng.randrange(0, len(rows) + 1), rng.choice([["dict", rand_data(rng, pool)], ["none"]]))
        stream = "random-malformed"
    lists = [rows]
    if fn.nargs == 2:
        lists.append(rand_rows(rng, 4)[0])
    al = rand_alias(rng, [len(l) for l in lists], binary=fn.nargs == 2)
    return mk_case(which, lists, params, stream=stream, **al)


# ---------------------------------------------------------------------------
# building the Python objects of a case, the object table, the input heap

class Env:
    """the implementation under test (imported once)"""
    _inst = None

    def __init__(self):
        from aw_core.models import Event
        self.Event = Event
        self.mods = {}

    def mod(self, name):
        if name not in self.mods:
            import importlib
            # aw_transform/__init__ rebinds these names to the functions; fetch the modules themselves
            self.mods[name] = importlib.import_module(name)
        return self.mods[name]

    @classmethod
    def get(cls):
        if cls._inst is None:
            cls._inst = Env()
        return cls._inst


def build(case, env):
    fn = FUNCS[case["which"]]
    b = Built()
    b.nested = []
    for t in case["nested"]:
        b.nested.append(inst(t, b.nested))
    b.data = [inst(t, b.nested) for t in case["data"]]
    b.events = []
    for spec in case["events"]:
        if spec[0] == "dict":
            b.events.append(b.data[spec[1]])
            continue
        if spec[0] == "none":
            b.events.append(None)
            continue
        eid, ts, dur, di, raw = spec
        e = mk_event(env.Event, BASE + ts, dur, b.data[di], eid=eid)
        dict.__setitem__(e, "data", b.data[di])        # the constructor replaces a falsy data dict by a new {}
        if raw:
            dict.__setitem__(e, "timestamp", dt(BASE + ts))   # past the setter: not floored to the millisecond
        b.events.append(e)
    lists = [[b.events[i] for i in l] for l in case["lists"]]
    if fn.nargs == 1:
        b.args, b.argnames = [lists[0]], ["events"]
    elif case.get("same_list"):
        b.args, b.argnames = [lists[0], lists[0]], ["events1", "events1"]
    else:
        b.args, b.argnames = [lists[0], lists[1]], ["events1", "events2"]
    b.params = copy.deepcopy(case.get("params") or {})
    b.hint = {}
    for i, o in enumerate(b.nested):
        b.hint[id(o)] = "N%d" % i
    for i, o in enumerate(b.data):
        b.hint[id(o)] = "D%d" % i
    for i, o in enumerate(b.events):
        if o is not None:
            b.hint.setdefault(id(o), "E%d" % i)
    b.hint[id(None)] = "None"
    b.extra_roots, b.guard = [], None
    if fn.setup:
        fn.setup(b, case, env)
    return b


class Walker:
    """the mutable members of an object, in iteration order.  `evlists` are the list objects known to be EVENT lists
    (arguments, the result): a None among their elements counts as a (member-less) object, anywhere else None is a scalar"""

    def __init__(self, Event, evlists):
        self.Event = Event
        self.keep = list(evlists)
        self.ev = {id(l) for l in evlists}

    def add_evlist(self, l):
        if isinstance(l, list) and id(l) not in self.ev:
            self.keep.append(l)
            self.ev.add(id(l))

    def kids(self, o):
        if o is None:
            return []
        if isinstance(o, self.Event):
            d = dict.get(o, "data")            # the object e.data returns
            return [d] if is_cell(d) else []
        if isinstance(o, dict):
            return [v for v in dict.values(o) if is_cell(v)]
        if id(o) in self.ev:
            return [v for v in o if is_cell(v) or v is None]
        return [v for v in o if is_cell(v)]

    def reach(self, root):
        """every mutable object reachable from root (root included), each once, kept alive"""
        seen, out, stack = set(), [], [root]
        while stack:
            o = stack.pop()
            if not is_cell(o) or id(o) in seen:
                continue
            seen.add(id(o))
            out.append(o)
            stack.extend(self.kids(o))
            if isinstance(o, self.Event):       # anything else a defective transform may have hung on the Event
                stack.extend(v for v in dict.values(o) if is_cell(v))
        return out


def register(b, wk):
    tb = Table()
    stack = ([(a, n) for a, n in zip(b.args, b.argnames)] + list(getattr(b, "extra_roots", [])))[::-1]
    while stack:
        o, name = stack.pop()
        if tb.loc(o) is not None:
            continue
        name = b.hint.get(id(o), name)
        tb.add(o, name)
        stack.extend([(k, "%s.%d" % (name, j)) for j, k in enumerate(wk.kids(o))][::-1])
    return tb


def encode_heap(tb, wk, lab):
    for o in tb.objs:
        if isinstance(o, wk.Event):
            lab.note_event(o)
    heap = []
    for o in tb.objs:
        ks = [tb.loc(k) for k in wk.kids(o)]
        if o is None:
            heap.append(lab.none_cell())
        elif isinstance(o, wk.Event):
            heap.append([0, common.opt(dict.get(o, "id")), us_of_dt(o["timestamp"]), us_of_td(o.duration), ks])
        elif id(o) in wk.ev:
            heap.append([1, EVENT_LIST, ks])
        else:
            heap.append(lab.cell(o, ks))
    return heap


def render(o, tb):
    """canonical rendering of ONE object's own content: scalars by type and value, mutable members by identity"""
    def item(v):
        if is_cell(v):
            i = tb.loc(v)
            return ["ref", tb.names[i] if i is not None else "<an object that is not an input object>"]
        if isinstance(v, datetime):
            return ["datetime", us_of_dt(v) - BASE, str(v.utcoffset())]
        if isinstance(v, timedelta):
            return ["timedelta", us_of_td(v)]
        return [type(v).__name__, repr(v)]
    if o is None:
        return ["None"]
    if isinstance(o, dict):
        return [type(o).__name__, [[k, item(v)] for k, v in dict.items(o)]]
    return ["list", [item(v) for v in o]]


def alias_features(b, tb, wk):
    f, args = [], b.args
    same = len(args) == 2 and args[0] is args[1]
    if same:
        f.append("same-list-both-args")
    for a in (args[:1] if same else args):
        if len({id(x) for x in a if x is not None}) < len([x for x in a if x is not None]):
            f.append("same-event-twice")
            break
    if len(args) == 2 and not same and {id(x) for x in args[0]} & {id(x) for x in args[1]} - {id(None)}:
        f.append("lists-share-events")
    parents = {}
    for o in tb.objs:
        if o is None or any(o is a for a in args):
            continue
        for k in wk.kids(o):
            ps = parents.setdefault(tb.loc(k), [])
            # the same dict may hold one list object under two keys: two parent edges
            ps.append((tb.loc(o), isinstance(o, wk.Event)))
    if any(len(ps) > 1 and all(ev for _, ev in ps) for ps in parents.values()):
        f.append("shared-data")
    if any(len(ps) > 1 and not any(ev for _, ev in ps) for ps in parents.values()):
        f.append("shared-list-value")
    cats = getattr(b, "cats", [])
    if len({id(c) for c in cats}) < len(cats):
        f.append("one-category-list-in-two-rules")
    if any(tb.loc(c) in parents for c in cats):
        f.append("category-list-is-a-data-value")
    return f


# ---------------------------------------------------------------------------
# the calls: implementation, wire, expected sharing

def _f(env, fn):
    return getattr(env.mod(fn.module), fn.name)


def call_1(env, fn, b):
    return _f(env, fn)(b.args[0])


def enc_1(fn, r, lab):
    return [fn.callno, r.heap, r.arg_locs[0]]


def call_limit(env, fn, b):
    return _f(env, fn)(b.args[0], b.params["count"])


def enc_limit(fn, r, lab):
    return [fn.callno, r.heap, r.arg_locs[0], r.case["params"]["count"]]


def call_2(env, fn, b):
    return _f(env, fn)(b.args[0], b.args[1])


def enc_2(fn, r, lab):
    return [fn.callno, r.heap, r.arg_locs[0], r.arg_locs[1]]


def call_filter(env, fn, b):
    return _f(env, fn)(b.args[0], b.params["key"], b.params["vals"], exclude=b.params["exclude"])


def enc_filter(fn, r, lab):
    p = r.case["params"]
    return [fn.callno, r.heap, r.arg_locs[0], lab.k(p["key"]), [lab.v(v) for v in p["vals"]], 1 if p["exclude"] else 0]


def call_fregex(env, fn, b):
    return _f(env, fn)(b.args[0], b.params["key"], b.params["regex"])


def thaw(x):
    """a representative of the value class freeze() names"""
    if isinstance(x, tuple):
        if len(x) == 2 and x[0] == "\0dict":
            return {k: thaw(v) for k, v in x[1]}
        return [thaw(y) for y in x]
    return x


def enc_fregex(fn, r, lab):
    """the engine table from the real `re`: does the pattern compile; per value label of the case what
    bool(r.findall(v)) gives (0/1) or which exception class it raises"""
    p = r.case["params"]
    try:
        rx = re.compile(p["regex"])
    except Exception:  # noqa: BLE001 -- re.error: the call raises before anything is read
        rx = None
    rows = []
    for fz, q in sorted(lab.vals.items(), key=lambda kv: kv[1]):
        if rx is None:
            break
        try:
            rows.append([q, 0, 1 if rx.findall(thaw(fz)) else 0])
        except Exception as ex:  # noqa: BLE001 -- the class is the table entry
            rows.append([q, 1, ERRCODE.get(type(ex).__name__, 10)])
    return [fn.callno, r.heap, r.arg_locs[0], lab.k(p["key"]), 0 if rx is None else 1, rows]


def ex_fregex(r, env):
    p = r.case["params"]
    rx = re.compile(p["regex"])
    return [e for e in r.built.args[0] if p["key"] in e.data and bool(rx.findall(e.data[p["key"]]))]


def call_merge(env, fn, b):
    return _f(env, fn)(b.args[0], b.params["keys"])


def enc_merge(fn, r, lab):
    return [fn.callno, r.heap, r.arg_locs[0], [lab.k(k) for k in r.case["params"]["keys"]]]


def call_chunk(env, fn, b):
    return _f(env, fn)(b.args[0], b.params["key"], b.params["pulsetime"])


def enc_chunk(fn, r, lab):
    p = r.case["params"]
    return [fn.callno, r.heap, r.arg_locs[0], lab.k(p["key"]), pulse_us(p["pulsetime"]), lab.k(SUBEVENTS)]


# -- the sharing statement, per function.  Each returns None or a description of the first deviation and appends to
#    `leaves` the input objects the result is allowed (required) to refer to.

def _nm(r, o):
    i = r.tb.loc(o)
    if i is not None:
        return r.tb.names[i]
    return "None" if o is None else "a new %s" % type(o).__name__


def _new_list(r, out, what="the result"):
    if not isinstance(out, list):
        return "%s is a %s, not a list" % (what, type(out).__name__)
    if r.tb.loc(out) is not None:
        return "%s IS the caller's own list object %s (expected: a new list)" % (what, _nm(r, out))
    return None


def _same_objs(r, got, want, what):
    if len(got) != len(want) or any(a is not b for a, b in zip(got, want)):
        return "%s holds [%s]; expected exactly the caller's objects [%s], by identity" % (
            what, ", ".join(_nm(r, o) for o in got[:12]), ", ".join(_nm(r, o) for o in want[:12]))
    return None


# what the result must be is computed BEFORE the call (ex_*: from the caller's objects as they are then; None when
# the list is malformed) and compared AFTER it (or_*)

def ex_sort_ts(r, env):
    evs = r.built.args[0]
    ts = [us_of_dt(e["timestamp"]) for e in evs]
    return [evs[i] for i in sorted(range(len(evs)), key=lambda i: (ts[i], i))]


def ex_sort_dur(r, env):
    evs = r.built.args[0]
    ds = [us_of_td(e.duration) for e in evs]
    return [evs[i] for i in sorted(range(len(evs)), key=lambda i: (-ds[i], i))]


def ex_limit(r, env):
    evs, count = r.built.args[0], r.case["params"]["count"]
    n = len(evs)
    k = min(count, n) if count >= 0 else max(0, n + count)
    return [evs[i] for i in range(k)]


def ex_concat(r, env):
    return [e for a in r.built.args for e in a]


def ex_filter(r, env):
    p = r.case["params"]
    classes = [freeze(v) for v in p["vals"]]
    want = []
    for e in r.built.args[0]:
        hit = p["key"] in e.data and any(freeze(e.data[p["key"]]) == c for c in classes)
        if hit != bool(p["exclude"]):
            want.append(e)
    return want


def or_elements(r, env, leaves):
    leaves.extend(r.expect)
    return _new_list(r, r.out) or _same_objs(r, r.out, r.expect, "the returned list")


def ex_none(r, env):
    return ()


def or_sum(r, env, leaves):
    return None if isinstance(r.out, timedelta) else "sum_durations returned a %s" % type(r.out).__name__


def _fresh(r, o, cls, what, seen):
    if not isinstance(o, cls) or (cls is dict and type(o) is not dict):
        return "%s is a %s" % (what, type(o).__name__)
    if r.tb.loc(o) is not None:
        return "%s IS the caller's own object %s (expected: a new %s)" % (what, _nm(r, o), cls.__name__)
    for w, x in seen:
        if x is o:
            return "%s and %s are the same object" % (w, what)
    seen.append((what, o))
    return None


def _value(r, got, want, what, where, leaves):
    if is_cell(want):
        leaves.append(want)
        if got is not want:
            return "%s is %s, not THE object %s (%s)" % (what, _nm(r, got) if is_cell(got) else repr(got), where, _nm(r, want))
    elif is_cell(got) or type(got) is not type(want) or got != want:
        return "%s is %r, %s is %r" % (what, got, where, want)
    return None


def ex_merge(r, env):
    """the groups, computed independently: per group its first member (input order) and the (key, value object) pairs
    its data must consist of"""
    evs, keys = r.built.args[0], r.case["params"]["keys"]
    if not keys:
        return []
    order, groups = [], []
    for e in evs:
        v = tuple((k in e.data, freeze(e.data[k]) if k in e.data else None) for k in keys)
        if v not in order:
            order.append(v)
            wk = []
            for k in keys:
                if k in e.data and k not in wk:
                    wk.append(k)
            groups.append((e, [(k, e.data[k]) for k in wk]))
    return groups


def or_merge(r, env, leaves):
    evs, keys, out = r.built.args[0], r.case["params"]["keys"], r.out
    if not keys:
        leaves.append(evs)
        return None if out is evs else "keys == []: the result is not the input list object itself (it is %s)" % _nm(r, out)
    bad = _new_list(r, out)
    if bad:
        return bad
    groups = r.expect
    if len(out) != len(groups):
        return "%d result events for %d groups" % (len(out), len(groups))
    seen_e, seen_d = [], []
    for j, (o, (first, want)) in enumerate(zip(out, groups)):
        bad = _fresh(r, o, env.Event, "result[%d]" % j, seen_e)
        d = dict.get(o, "data") if not bad else None
        bad = bad or _fresh(r, d, dict, "result[%d].data" % j, seen_d)
        if bad:
            return bad
        if list(d) != [k for k, _ in want]:
            return "result[%d].data has the keys %s; the group's first member %s has %s of the merge keys" % (
                j, list(d), _nm(r, first), [k for k, _ in want])
        for k, w in want:
            bad = _value(r, d[k], w, "result[%d].data[%r]" % (j, k), "%s.data[%r] of the group's first member" % (_nm(r, first), k), leaves)
            if bad:
                return bad
    return None


def ex_chunk(r, env):
    """the key-bearing prefix and, per event of it, the value object under the key"""
    evs, key = r.built.args[0], r.case["params"]["key"]
    prefix = list(itertools.takewhile(lambda e: key in e.data, evs))
    return prefix, [e.data[key] for e in prefix]


def or_chunk(r, env, leaves):
    key, out = r.case["params"]["key"], r.out
    prefix, values = r.expect
    bad = _new_list(r, out)
    if bad:
        return bad
    seen_e, seen_d, seen_s, cat = [], [], [], []
    for j, c in enumerate(out):
        bad = _fresh(r, c, env.Event, "result[%d]" % j, seen_e)
        d = dict.get(c, "data") if not bad else None
        bad = bad or _fresh(r, d, dict, "result[%d].data" % j, seen_d)
        if bad:
            return bad
        if len(d) != 2 or set(d) != {key, SUBEVENTS}:
            return "result[%d].data has the keys %s, expected exactly %s" % (j, list(d), [key, SUBEVENTS])
        subs = d[SUBEVENTS]
        bad = _fresh(r, subs, list, "result[%d].data['subevents']" % j, seen_s)
        if bad:
            return bad
        if not subs:
            return "result[%d].data['subevents'] is empty" % j
        for i, s in enumerate(subs):
            if r.tb.loc(s) is None or not isinstance(s, env.Event):
                return "result[%d].data['subevents'][%d] is %s, not one of the caller's Event objects" % (j, i, _nm(r, s))
        at = len(cat)
        cat += subs
        if at >= len(prefix) or subs[0] is not prefix[at]:
            continue                      # reported below: the concatenation is not the prefix
        bad = _value(r, d[key], values[at], "result[%d].data[%r]" % (j, key), "%s.data[%r] of the run's first event" % (_nm(r, subs[0]), key), leaves)
        if bad:
            return bad
    leaves.extend(cat)
    return _same_objs(r, cat, prefix, "the concatenation of all subevents lists")


_M, _C, _S, _F = ("aw_transform.merge_events_by_keys", "aw_transform.chunk_events_by_key", "aw_transform.sort_by",
                  "aw_transform.filter_keyvals")
register_fn(Fn("sort_by_timestamp", 10, "C16", 1, _S, call_1, enc_1, ex_sort_ts, or_elements, gen_simple, "events"))
register_fn(Fn("sort_by_duration", 11, "C16", 1, _S, call_1, enc_1, ex_sort_dur, or_elements, gen_simple, "events"))
register_fn(Fn("limit_events", 12, "C16", 1, _S, call_limit, enc_limit, ex_limit, or_elements, gen_limit, "events, count"))
register_fn(Fn("concat", 13, "C16", 2, _S, call_2, enc_2, ex_concat, or_elements, gen_concat, "events1, events2"))
register_fn(Fn("filter_keyvals", 14, "C16", 1, _F, call_filter, enc_filter, ex_filter, or_elements, gen_filter, "events, key, vals, exclude"))
register_fn(Fn("merge_events_by_keys", 15, "C16", 1, _M, call_merge, enc_merge, ex_merge, or_merge, gen_merge, "events, keys"))
register_fn(Fn("chunk_events_by_key", 16, "C16", 1, _C, call_chunk, enc_chunk, ex_chunk, or_chunk, gen_chunk, "events, key, pulsetime"))
register_fn(Fn("sum_durations", 17, "C16", 1, _S, call_1, enc_1, ex_none, or_sum, gen_simple, "events"))
# group C12: the one transform-backed built-in of aw_query/functions.py that is in no other property's statement
register_fn(Fn("filter_keyvals_regex", 18, "C12", 1, _F, call_fregex, enc_fregex, ex_fregex, or_elements, gen_fregex, "events, key, regex"))
# ===========================================================================
# group C19: categorize, tag, split_url_events, simplify_string (Model/ClassifyHeap.v, calls 20..23)
#
# Values travel with harness/c19.py's label tables (c19.Tab): a string value is the scalar label 2*s, any other
# immutable value 2*l+1; a flat list of strings (a rule's category list object, a `$category` / `$tags` value) is the
# cell (2 ((s 1 0) ...) ()); the data dict of an Event is a skeleton cell; any other nested list / dict inside data is
# the opaque cell (1 l (kids)) with l its c19 "other" label.  The engine tables (re, urlparse, www, the three
# substitutions) and the rulespecs are c19.wire_case's, built over the same Tab.
# params: categorize {"classes": [[category, ruledict], ...]}  category = a list of strings (a list object of its own) or
#         {"$ref": k} = THE object nested[k] (one list object serving several rules and / or being a value in event data);
#         tag {"classes": [[tag string, ruledict], ...]};  split_url_events {};  simplify_string {"key": k}

class Codec19:
    def __init__(self):
        self.tab = c19.Tab()
        self.datas, self.keep = set(), []

    def note_event(self, e):
        d = dict.get(e, "data")
        if isinstance(d, dict) and id(d) not in self.datas:
            self.datas.add(id(d))
            self.keep.append(d)

    def k(self, key):
        return self.tab.k(key)

    def scalar(self, v):
        return 2 * self.tab.s(v) if type(v) is str else 2 * self.tab.val(v)[1] + 1

    @staticmethod
    def strlist(o):
        return type(o) is list and all(type(x) is str for x in o)

    def none_cell(self):
        return [1, self.tab.val(None)[1], []]

    def entries(self, o):
        return [[self.tab.k(k), 0] if is_cell(v) else [self.tab.k(k), 1, self.scalar(v)] for k, v in dict.items(o)]

    def cell(self, o, ks):
        if isinstance(o, dict) and id(o) in self.datas:
            return [2, self.entries(o), ks]
        if self.strlist(o):
            return [2, [[self.tab.s(x), 1, 0] for x in o], []]
        return [1, self.tab.val(o)[1], ks]

    def differs(self, cell, o, path):
        if cell[0] == 1 and cell[1] == EVENT_LIST and type(o) is list:
            return None                    # an event list (argument / result): members are compared by the caller
        mine = self.cell(o, None)
        if cell[0] != mine[0] or cell[1] != mine[1]:
            return "%s: model cell %s, the implementation has %r (as a cell: %s)" % (path, self.cellstr(cell), o, self.cellstr(mine))
        return None

    def _sc(self, v):
        try:
            return repr(self.tab.strs[v // 2]) if v % 2 == 0 else repr(self.tab.others[(v - 1) // 2])
        except Exception:  # noqa: BLE001
            return "<scalar label %s>" % v

    def cellstr(self, c):
        c = relcell(c)
        if not c or c[0] != 2:
            return str(c)
        as_dict = "{%s}" % ", ".join("%r: %s" % (self.tab.keyname.get(e[0], "<key %s>" % e[0]), self._sc(e[2]) if e[1] == 1 else "<object>") for e in c[1])
        if c[1] and all(e[1:] == [1, 0] and 0 <= e[0] < len(self.tab.strs) for e in c[1]):
            return "the list of strings %r (or the dict %s)" % ([self.tab.strs[e[0]] for e in c[1]], as_dict)
        return as_dict


def setup_classes(b, case, env):
    cl = env.mod("aw_transform.classify")
    cat = case["which"] == "categorize"
    b.cats, classes = [], []
    for j, (c, rd) in enumerate(case["params"]["classes"]):
        obj = c
        if cat:
            obj = inst(c, b.nested)
            b.cats.append(obj)
            b.hint.setdefault(id(obj), "C%d" % j)
            b.extra_roots.append((obj, "C%d" % j))
        classes.append((obj, cl.Rule(copy.deepcopy(rd))))
    b.classes = classes
    b.guard = lambda: [len(classes)] + [
        [id(c) if cat else repr(c), id(rule), repr(rule.select_keys), repr(rule.ignore_case),
         [rule.regex.pattern, rule.regex.flags] if rule.regex else None] for c, rule in classes]


def call_classes(env, fn, b):
    return getattr(env.mod(fn.module), fn.name)(b.args[0], b.classes)


def call_key(env, fn, b):
    return _f(env, fn)(b.args[0], key=b.params["key"])


def _c19_events(r):
    """the data of every registered Event, once per dict object, in the shape c19.wire_case reads"""
    seen, out = set(), []
    for o in r.tb.objs:
        if isinstance(o, r.wk.Event):
            d = dict.get(o, "data")
            if isinstance(d, dict) and id(d) not in seen:
                seen.add(id(d))
                out.append((None, 0, 0, list(dict.items(d))))
    return out


def enc_classes(fn, r, lab):
    kind = "categorize" if r.which == "categorize" else "tag"
    cls = [(list(c) if kind == "categorize" else c, rd, None)
           for (c, _), (_, rd) in zip(r.built.classes, r.case["params"]["classes"])]
    w = c19.wire_case({"kind": kind, "events": _c19_events(r), "classes": cls}, lab.tab)
    if kind == "categorize":
        return [fn.callno, r.heap, r.arg_locs[0], w[1], [[r.tb.loc(c), x[1]] for (c, _), x in zip(r.built.classes, w[3])]]
    return [fn.callno, r.heap, r.arg_locs[0], w[1], w[3]]


def enc_split(fn, r, lab):
    w = c19.wire_case({"kind": "split", "events": _c19_events(r)}, lab.tab)
    return [fn.callno, r.heap, r.arg_locs[0], w[1], w[2]]


def enc_simplify(fn, r, lab):
    # the three substitutions on every string under the key and on everything they produce (an Event that is twice in
    # the list, or two Events sharing one data dict, are rewritten again): closed under the substitutions
    key = r.case["params"]["key"]
    todo = [dict(items).get(key) for _, _, _, items in _c19_events(r)]
    todo, done, rows = [x for x in todo if type(x) is str], set(), []
    while todo:
        x = todo.pop()
        if x in done:
            continue
        done.add(x)
        pfd = c19.h_subs(x)
        rows.append([lab.tab.s(x)] + [lab.tab.s(y) for y in pfd])
        todo.extend(pfd)
    return [fn.callno, r.heap, r.arg_locs[0], rows, lab.tab.k(key)]


def ex_annot(r, env):
    evs = list(r.built.args[0])
    datas = []
    for e in evs:
        d = dict.get(e, "data")
        if not any(d is x for x in datas):
            datas.append(d)
    return {"events": evs, "datas": datas, "cats": list(getattr(r.built, "cats", []))}


def _same_events(r, leaves):
    leaves.extend(r.expect["events"])
    return _new_list(r, r.out) or _same_objs(r, r.out, r.expect["events"], "the returned list")


def or_categorize(r, env, leaves):
    bad = _same_events(r, leaves)
    if bad:
        return bad
    for d in r.expect["datas"]:
        if "$category" not in d:
            return "%s has no '$category' after the call" % _nm(r, d)
        c = d["$category"]
        if any(c is k for k in r.expect["cats"]):
            continue
        if r.tb.loc(c) is not None:
            return "%s['$category'] IS the caller's object %s, which is not a category list of the rules" % (_nm(r, d), _nm(r, c))
        if type(c) is not list or c != ["Uncategorized"]:
            return ("%s['$category'] is %r: neither (by identity) one of the category list objects of the rules nor a new "
                    "['Uncategorized']" % (_nm(r, d), c))
    return None


def or_tag(r, env, leaves):
    bad = _same_events(r, leaves)
    if bad:
        return bad
    seen = []
    for d in r.expect["datas"]:
        if "$tags" not in d:
            return "%s has no '$tags' after the call" % _nm(r, d)
        t = d["$tags"]
        if type(t) is not list:
            return "%s['$tags'] is a %s" % (_nm(r, d), type(t).__name__)
        if r.tb.loc(t) is not None:
            return "%s['$tags'] IS the caller's own object %s (expected: a new list)" % (_nm(r, d), _nm(r, t))
        for w, x in seen:
            if x is t:
                return "%s['$tags'] and %s['$tags'] are one list object (expected: a new list per write)" % (w, _nm(r, d))
        seen.append((_nm(r, d), t))
    return None


def or_split(r, env, leaves):
    leaves.append(r.built.args[0])
    return None if r.out is r.built.args[0] else "the result is %s, not the argument list object itself" % _nm(r, r.out)


def or_simplify(r, env, leaves):
    return _new_list(r, r.out)         # and nothing reachable from it is an input object: no leaves


# -- generators

D19 = [{"app": "Firefox", "title": "FIREFOX - Mozilla"},
       {"title": "Visual Studio Code", "app": "code"},
       {"$category": "Firefox", "app": "x"},          # a string under the owned key: a regex matches it before the first write only
       {"$category": ["Work"], "$tags": ["code"], "title": "a.b"},
       {},
       {"n": 1, "lst": ["Firefox"], "none": None, "f": 1.5, "b": True},
       {"app": "x", "$category": 7, "nested": {"title": "Firefox", "l": ["code"]}, "$tags": "fire tag"},
       {"$tags": ["Work"], "title": "x", "$category": ["Work", "Programming"], "lst": ["Work"]}]
RULES_C = [
    [[["Work"], {"regex": "fire", "ignore_case": True}], [["Work", "Programming"], {"regex": "code"}], [["Media"], {"regex": "zzz"}]],
    [[["A", "B"], {"regex": "Fire"}], [["A", "B"], {"regex": "x"}], [["A", "X"], {"regex": "."}]],
    [[["Browser"], {"regex": "Firefox"}]],
    [],
    [[["T"], {"regex": ".", "select_keys": ["title"]}], [[], {"regex": "."}], [["T"], {"regex": "code", "select_keys": ["app", "missing"]}]],
    [[["Work"], {"regex": "Work|x"}], [["Work", "Programming"], {"regex": "a\\.b", "select_keys": ["title", "$category"]}],
     [["Work"], {"regex": None}]],
]
RULES_T = [[["/".join(c), rd] for c, rd in rs] for rs in RULES_C]
CCONF = [dict(), dict(share_data=True), dict(share_lists="all", share_cats="data"), dict(dups=[(0, 0, 1)]),
         dict(share_cats="rules"), dict(share_data=True, share_lists="all", share_cats="data", dups=[(0, 0, 99)]),
         dict(share_lists="first2", share_cats="rules", dups=[(0, 1, 0)]), dict(share_data=True, dups=[(0, 0, 2)], noid=(0, 2))]
TRI19 = [(2, 2, 0), (6, 6, 6), (3, 7, 3), (7, 7, 5), (0, 1, 0), (2, 6, 2), (5, 3, 7), (4, 4, 1)]


def mk_case19(which, rows, params=None, share_cats=None, **al):
    """mk_case + share_cats: equal-content category lists of the rules become ONE list object ("rules"), which is also
    THE object of the equal-content list values that share_lists put into the nested pool ("data")"""
    c = mk_case(which, [rows], params, **al)
    if which == "categorize" and share_cats:
        table = {}
        if share_cats == "data":
            table = {json.dumps(t): k for k, t in enumerate(c["nested"]) if Codec19.strlist(t)}
        for cls in c["params"]["classes"]:
            if type(cls[0]) is list:
                key = json.dumps(cls[0])
                if key not in table:
                    c["nested"].append(cls[0])
                    table[key] = len(c["nested"]) - 1
                cls[0] = R(table[key])
    return c


def rows19(tpls, unit=MS):
    return [[j * unit, (j + 1) * unit, copy.deepcopy(t)] for j, t in enumerate(tpls)]


def gen_classes(which, rng, n_random):
    rules = RULES_C if which == "categorize" else RULES_T
    k = 0
    seqs = [()] + [p for n in (1, 2) for p in itertools.product(range(len(D19)), repeat=n)]
    for idxs in seqs:
        for rs in (rules if len(idxs) <= 1 else rules[k % 2::2]):
            k += 1
            yield mk_case19(which, rows19([D19[i] for i in idxs]), {"classes": rs}, **CCONF[k % len(CCONF)])
    for idxs in TRI19:
        for rs in rules:
            k += 1
            for cf in CCONF[k % 2::2]:
                yield mk_case19(which, rows19([D19[i] for i in idxs]), {"classes": rs}, **cf)
    # every string of the pools that some substitution rewrites, under keys the function does not own
    for i, t in enumerate(c19.CANARIES):
        tpl = {"app": t, "title": t, "name": t, "nested": {"title": t, "app": [t]}, "lst": [t]}
        rs = [[["A"] if which == "categorize" else "t1", {"regex": ".", "select_keys": ["title"]}],
              [["A", "B"] if which == "categorize" else "t2", {"regex": re.escape(t[:3]), "ignore_case": True}]]
        yield mk_case19(which, rows19([tpl, tpl]), {"classes": rs}, **CCONF[i % len(CCONF)])
    for _ in range(n_random):
        yield rand_case19(which, rng)


def url_ok(v):
    """a url value the model sees as the harness' tables name it: not a member-less container other than a list of strings"""
    return not is_cell(v) or Codec19.strlist(v) or any(is_cell(x) for x in (v.values() if isinstance(v, dict) else v))


def _jsonable(v):
    try:
        json.dumps(v)
        return True
    except TypeError:
        return False


URLS19 = [u for u in c19.URLS if _jsonable(u) and url_ok(u)] + [[["a"]], {"k": ["http://www.a.b"]}]
OKURL = "http://www.ok.org/x"
SCONF = [dict(), dict(share_data=True), dict(dups=[(0, 0, 1)]), dict(share_lists="all"),
         dict(share_data=True, share_lists="all", dups=[(0, 1, 0)]), dict(dups=[(0, 0, 99), (0, 1, 1)], noid=(1,))]


def gen_split(which, rng, n_random):
    k = 0
    for u in URLS19:
        lays = [[{"url": u, "title": "t"}],
                [{"$domain": "old", "title": "t", "url": u, "$identifier": 7}, {"title": "no url here"}, {"url": OKURL}],
                # a url that makes urlparse raise AFTER an earlier event was annotated; a pre-existing `$domain` list object
                [{"url": OKURL, "$domain": ["old"]}, {"url": u}, {"url": "https://example.com", "lst": ["old"]}],
                [{"url": u, "$path": ["p"]}, {"url": u, "$path": ["p"]}]]
        for lay in lays:
            for _ in range(2):
                k += 1
                yield mk_case19(which, rows19(lay), {}, **SCONF[k % len(SCONF)])
    for i, t in enumerate(c19.CANARIES):
        tpl = {"app": t, "title": t, "name": t, "nested": {"title": t, "app": [t]}, "lst": [t]}
        yield mk_case19(which, rows19([dict(tpl, url="http://www.example.com/(1)%20*;p?FPS:%201#f"), dict([("url", t)] + list(tpl.items()))]),
                        {}, **SCONF[i % len(SCONF)])
    yield mk_case19(which, [], {})
    yield mk_case19(which, rows19([{}, {"URL": "http://www.a.b"}]), {}, share_data=True, dups=[(0, 0, 1)])
    for _ in range(n_random):
        yield rand_case19(which, rng)


def gen_simplify(which, rng, n_random):
    k = 0
    for i, t in enumerate(c19.TITLES):
        for key in ("title", "name"):
            for with_app in (True, False):
                items = ([("app", "a")] if with_app else []) + [(key, t), ("other", "(1) ● keep FPS: 1.0"), ("lst", ["(1) x"])]
                if i % 2:
                    items.reverse()
                for _ in range(2):
                    k += 1
                    # twice: alone, and next to an event of equal data (one dict object under share_data: rewritten twice)
                    lay = [dict(items)] if k % 2 else [dict(items), {"title": "(2) b", "name": "* n", "app": "x"}, dict(items)]
                    yield mk_case19(which, rows19(lay), {"key": key}, **SCONF[k % len(SCONF)])
    # rewritten again and again: the same dict / the same Event several times
    for t in ("(1) (2) (3) x", "● ● * x", "(3) * FPS: 1 FPS: 2.5", "(1) ● (2) * (3) y", "* (1) z"):
        for key in ("title", "name"):
            for cf in (dict(share_data=True), dict(dups=[(0, 0, 1), (0, 0, 1)]), dict(share_data=True, dups=[(0, 0, 99)])):
                yield mk_case19(which, rows19([{"app": "a", key: t}, {"app": "a", key: t}, {"app": "a", key: t}]), {"key": key}, **cf)
    # KeyError / TypeError in the middle: the caller's objects are untouched then too
    for badv in ("<missing>", 5, None, ["(1) a"], {"x": 1}, {"x": ["(1) a"]}, True, 1.5):
        mid = {"app": "b"} if badv == "<missing>" else {"title": badv, "app": "b"}
        for lay in ([mid], [{"title": "(1) a", "app": "x"}, mid, {"title": "(2) c"}], [{"title": "(1) a", "lst": ["l"]}, mid]):
            for cf in (dict(), dict(share_data=True, share_lists="all", dups=[(0, 0, 1)])):
                yield mk_case19(which, rows19(lay), {"key": "title"}, **cf)
    for idxs in TRI19 + [(0,), (1, 1), ()]:
        for key in ("title", "app", "name"):
            k += 1
            yield mk_case19(which, rows19([D19[i] for i in idxs]), {"key": key}, **SCONF[k % len(SCONF)])
    for _ in range(n_random):
        yield rand_case19(which, rng)


def rand_case19(which, rng):
    n = rng.choice([0, 1, 2, 2, 3, 3, 4, 5])
    tpls, protos = [], []
    for _ in range(n):
        if protos and rng.random() < 0.35:
            tpls.append(copy.deepcopy(rng.choice(protos)))          # equal data: ONE dict object under share_data
            continue
        if which == "split_url_events":
            items = c19.rand_data(rng, ("app", "title", "$domain", "$path", "$protocol", "n", "$options", "x", "lst"))
            if rng.random() < 0.75:
                u = rng.choice(URLS19) if rng.random() < 0.8 else rng.choice([x for x in URLS19 if type(x) is str])
                items.insert(rng.randrange(0, len(items) + 1), ("url", copy.deepcopy(u)))
        elif which == "simplify_string":
            items = c19.rand_data(rng, ("app", "title", "name", "n", "extra", "url", "$category", "other", "lst"))
        else:
            items = c19.rand_data(rng)
        d = {}
        for key, v in items:
            if not _jsonable(v) or (key == "url" and not url_ok(v)):
                v = "http://www.b.c/x"
            d.setdefault(key, v)
        tpls.append(d)
        protos.append(d)
    rows = rows19(tpls, unit=rng.choice([MS, S]))
    al = rand_alias(rng, [len(rows)], binary=False)
    al.pop("raw", None)
    params = {}
    if which in ("categorize", "tag"):
        evs = [(None, 0, 0, list(t.items())) for _, _, t in rows]
        classes = []
        for _ in range(rng.randrange(0, 6)):
            rd, _lit = c19.derived_rule(rng, evs) if rng.random() < 0.6 else c19.rand_rule(rng)
            classes.append([list(rng.choice(c19.CATS)) if which == "categorize" else rng.choice(c19.TAGS), rd])
        params = {"classes": classes}
        if which == "categorize":
            al["share_cats"] = rng.choice([None, "rules", "data", "data"])
            if al["share_cats"] == "data" and not al.get("share_lists"):
                al["share_lists"] = "all"
            if rows and rng.random() < 0.4:      # an existing list value equal to a category of the rules
                rng.choice(rows)[2][rng.choice(["$category", "lst", "$tags"])] = list(rng.choice(classes)[0]) if classes else ["x"]
    elif which == "simplify_string":
        key = rng.choice(["title", "title", "title", "name", "app"])
        for _, _, t in rows:
            q = rng.random()
            if q < 0.85:
                t[key] = rng.choice(c19.TITLES + c19.VALUES[:4])
            elif q < 0.92:
                t[key] = copy.deepcopy(rng.choice(c19.NONSTR))
            elif q < 0.96:
                t.pop(key, None)
        params = {"key": key}
    return mk_case19(which, rows, params, stream="random", **al)


_CL, _SP, _SI = "aw_transform.classify", "aw_transform.split_url_events", "aw_transform.simplify"
register_fn(Fn("categorize", 20, "C19", 1, _CL, call_classes, enc_classes, ex_annot, or_categorize, gen_classes, "events, classes",
               codec=Codec19, setup=setup_classes, owned=lambda keys: ["$category"], inplace=True))
register_fn(Fn("tag", 21, "C19", 1, _CL, call_classes, enc_classes, ex_annot, or_tag, gen_classes, "events, classes",
               codec=Codec19, setup=setup_classes, owned=lambda keys: ["$tags"], inplace=True))
register_fn(Fn("split_url_events", 22, "C19", 1, _SP, call_1, enc_split, ex_annot, or_split, gen_split, "events",
               codec=Codec19, owned=lambda keys: c19.URL_KEYS if "url" in keys else [], inplace=True))
register_fn(Fn("simplify_string", 23, "C19", 1, _SI, call_key, enc_simplify, ex_none, or_simplify, gen_simplify, "events, key",
               codec=Codec19))

WHICH, CALLNO, PROP = _tables()
SCALAR_RESULT = {"sum_durations"}


# ---------------------------------------------------------------------------
# one case on the implementation + the oracle

SIG_MOD = {"C16": "C16:input-modified", "C19": "C19:input-modified-outside-owned"}


def run_case(case, env):
    which = case["which"]
    fn = FUNCS[which]
    b = build(case, env)
    wk = Walker(env.Event, b.args)
    tb = register(b, wk)
    r = Rec()
    r.case, r.which, r.fn, r.built, r.tb, r.wk = case, which, fn, b, tb, wk
    r.lab = (fn.codec or CaseLabels)()
    r.n_in = len(tb.objs)
    r.arg_locs = [tb.loc(a) for a in b.args]
    r.heap = encode_heap(tb, wk, r.lab)
    r.wire = sx(fn.encode(fn, r, r.lab))
    r.features = alias_features(b, tb, wk)
    # the data dicts of the listed events: the only objects an annotating function may write (its owned keys)
    r.listed_data = {tb.loc(dict.get(e, "data")) for a in b.args for e in a
                     if isinstance(e, env.Event) and tb.loc(dict.get(e, "data")) is not None}
    r.snap = [render(o, tb) for o in tb.objs]
    r.guard0 = b.guard() if b.guard else None
    r.err, r.out = None, None
    try:
        r.expect = fn.expect(r, env)
    except Exception:  # noqa: BLE001 -- a malformed list: the statement speaks about lists of Events
        r.expect = None
    try:
        r.out = fn.call(env, fn, b)
    except Exception as ex:  # noqa: BLE001 -- the class is the observation
        r.err = type(ex).__name__
    wk.add_evlist(r.out)
    r.findings = []
    oracle(r, env)
    return r


def _outside_owned(fn, before, after):
    """the two renderings of a data dict without the keys the function owns (key order and values of the rest)"""
    owned = set(fn.owned([k for k, _ in before[1]]))
    return [kv for kv in before[1] if kv[0] not in owned], [kv for kv in after[1] if kv[0] not in owned]


def oracle(r, env):
    """'the inputs are not modified (outside the keys the function owns)' and 'the result shares exactly this with them'
    on the implementation; no model involved"""
    tb, prop, which, fn = r.tb, r.fn.prop, r.which, r.fn
    now = [render(o, tb) for o in tb.objs]
    changed, r.written = [], 0
    for i in range(r.n_in):
        if now[i] == r.snap[i]:
            continue
        if fn.owned and i in r.listed_data and now[i][0] == r.snap[i][0] == "dict":
            rb, ra = _outside_owned(fn, r.snap[i], now[i])
            if rb == ra:
                r.written += 1
                continue
            changed.append({"object": tb.names[i], "what": "keys the function does not own changed (or moved)",
                            "before": r.snap[i], "after": now[i]})
            continue
        changed.append({"object": tb.names[i], "before": r.snap[i], "after": now[i]})
    want_p = json.dumps(r.case.get("params") or {}, sort_keys=True)
    try:
        got_p = json.dumps(r.built.params, sort_keys=True)
    except Exception:  # noqa: BLE001
        got_p = repr(r.built.params)
    if got_p != want_p:
        changed.append({"object": "the parameters (%s)" % r.fn.argdesc, "before": want_p, "after": got_p})
    if r.built.guard:
        g = r.built.guard()
        if g != r.guard0:
            changed.append({"object": "the rules (%s)" % r.fn.argdesc, "before": r.guard0, "after": g})
    if changed:
        r.findings.append((SIG_MOD.get(prop, prop + ":input-modified"),
                           "%s modified %d of the caller's objects%s (first: %s)" % (
                               which, len(changed), " outside the keys it owns" if fn.owned else "", changed[0]["object"]),
                           {"changed_objects": changed[:6]}))
    r.shared_out, r.leaves = [], []
    if r.err is not None:
        return
    leaves = []
    try:
        if r.expect is None:
            raise ValueError("the expected result could not be computed: not a list of Events, yet the call returned")
        bad = r.fn.oracle(r, env, leaves)
        reached = r.wk.reach(r.out) if is_cell(r.out) else []
        r.shared_out = [tb.names[tb.loc(o)] for o in reached if tb.loc(o) is not None]
        r.leaves = leaves
        if not bad:
            allowed = set()
            for l in leaves:
                allowed.update(id(o) for o in r.wk.reach(l))
            extra = [tb.names[tb.loc(o)] for o in reached if tb.loc(o) is not None and id(o) not in allowed]
            if extra:
                bad = "the result also reaches the caller's objects %s, which it has no business to refer to" % ", ".join(extra[:6])
    except Exception as ex:  # noqa: BLE001 -- a result the statement cannot even be read on
        bad = "the result could not be inspected (%s: %s)" % (type(ex).__name__, str(ex)[:160])
    if bad:
        r.findings.append((prop + ":sharing", "%s: %s" % (which, bad), {"deviation": bad}))


# ---------------------------------------------------------------------------
# correspondence with the model

def shape_impl(r):
    """sharing description of the result: every object named in<loc> (an input object) or new<k> (first-visit order)"""
    names, tb, keep = {}, r.tb, []

    def name(o):
        i = tb.loc(o)
        if i is not None:
            return "in%d" % i
        if id(o) not in names:
            names[id(o)] = "new%d" % len(names)
            keep.append(o)
        return names[id(o)]

    def go(o, depth):
        if depth > 12:
            return [name(o), "..."]
        return [name(o), [go(k, depth + 1) for k in r.wk.kids(o)]]
    if tb.loc(r.out) is not None:
        return ["the returned list is in%d" % tb.loc(r.out)]
    return [_shape_str(go(k, 0)) for k in r.wk.kids(r.out)]


def correspond(r, mo, env):
    """None, or a description of the first difference between model and implementation"""
    try:
        return _correspond(r, mo, env)
    except Exception as ex:  # noqa: BLE001 -- a result the walk cannot even read is a difference
        return "the implementation's result could not be compared with the model's: %s: %s" % (type(ex).__name__, str(ex)[:200])


def _cellstr(c, lab):
    return lab.cellstr(c)


def _correspond(r, mo, env):
    tb, Event, lab, wk = r.tb, env.Event, r.lab, r.wk
    if not isinstance(mo, list) or not mo or mo in ([-999], [-998]):
        return "the driver could not decode the case (a harness bug): %s" % (mo,)
    if mo[0] == 2:
        return "the model ran out of fuel (implementation: %s)" % (r.err or "returned")
    roots = []
    if mo[0] == 1:
        if r.err is None:
            return "the model raises %s, the implementation returns" % ERRNAME.get(mo[1], mo[1])
        if ERRCODE.get(r.err, 10) != mo[1]:
            return "the model raises %s, the implementation raises %s" % (ERRNAME.get(mo[1], mo[1]), r.err)
        # both raised: the input objects as the exception left them against the heap the model reached (an in-place
        # function) / against the input heap (the others: nothing that existed is ever written)
        heap2, Lout = (mo[2] if len(mo) > 2 else r.heap), None
    elif mo[0] != 0:
        return "unreadable model answer %s" % (mo,)
    elif r.err is not None:
        return "the implementation raises %s, the model returns" % r.err
    elif r.which in SCALAR_RESULT:
        if not isinstance(mo[1], int):
            return "the model returned %s where a number was expected" % (mo[1],)
        if not isinstance(r.out, timedelta):
            return "the implementation returned a %s" % type(r.out).__name__
        if abs(us_of_td(r.out) - mo[1]) > 1:
            return "the model's sum is %d us, the implementation's %d us" % (mo[1], us_of_td(r.out))
        heap2, Lout = r.heap, None           # the model reads only: the input objects must still be the input heap
    else:
        heap2, Lout = mo[1]
        if not isinstance(r.out, list):
            return "the implementation returned a %s" % type(r.out).__name__
        roots.append((r.out, Lout, "result"))
    if len(heap2) < r.n_in:
        return "the model's heap shrank"
    for i in range(r.n_in):
        # the frame: old cells are as they were, except (annotating functions) the data dicts of the listed events, whose
        # after-state is compared with the implementation's by the walk below
        if heap2[i] != r.heap[i] and not (r.fn.owned and i in r.listed_data):
            return "the model changed the input cell %d (%s): %s -> %s (its frame theorem says it cannot)" % (
                i, tb.names[i], _cellstr(r.heap[i], lab), _cellstr(heap2[i], lab))
    o2l, l2o, keep, queue = {}, {}, [], []

    def oname(o):
        i = tb.loc(o)
        return tb.names[i] if i is not None else "a new %s" % type(o).__name__

    def pair(obj, loc, path):
        i = o2l.get(id(obj))
        if i is not None:
            if i != loc:
                return ("%s: the implementation has here the object (%s) that corresponds to model location %d, the model "
                        "has location %d (the sharing graphs differ)" % (path, oname(obj), i, loc))
            return None
        if loc in l2o:
            return ("%s: the model has here location %d, which corresponds to %s; the implementation has a different "
                    "object (%s) (the model shares, the implementation does not)" % (path, loc, oname(l2o[loc]), oname(obj)))
        o2l[id(obj)] = loc
        l2o[loc] = obj
        keep.append(obj)
        queue.append((obj, loc, path))
        return None

    for i, o in enumerate(tb.objs):
        pair(o, i, tb.names[i])
    for obj, loc, path in roots:
        bad = pair(obj, loc, path)
        if bad:
            return bad
    while queue:
        obj, loc, path = queue.pop(0)
        if loc >= len(heap2):
            return "%s: dangling model location %d" % (path, loc)
        cell = heap2[loc]
        ks_p = wk.kids(obj)
        if obj is None:
            if cell != lab.none_cell():
                return "%s: model cell %s, the implementation has None" % (path, cell)
        elif isinstance(obj, Event):
            lab.note_event(obj)
            mine = [0, common.opt(dict.get(obj, "id")), us_of_dt(obj["timestamp"]), us_of_td(obj.duration)]
            if cell[0] != 0 or cell[1:4] != mine[1:]:
                return "%s: model cell %s, implementation Event (id, ts, dur) = %s" % (path, relcell(cell), relcell(mine))
        else:
            bad = lab.differs(cell, obj, path)
            if bad:
                return bad
        ks_m = cell[-1]
        if len(ks_m) != len(ks_p):
            return "%s: the model has %d mutable members here, the implementation %d" % (path, len(ks_m), len(ks_p))
        for j, (ko, kl) in enumerate(zip(ks_p, ks_m)):
            bad = pair(ko, kl, "%s[%d]" % (path, j) if not isinstance(obj, Event) else path + ".data")
            if bad:
                return bad
    for obj in keep:
        l = o2l[id(obj)]
        i = tb.loc(obj)
        if (i is None) != (l >= r.n_in) or (i is not None and i != l):
            return "%s corresponds to model location %d (input cells: 0..%d)" % (oname(obj), l, r.n_in - 1)
    if Lout is not None:
        # redundant cross-check through an independent route: the unfolded, renamed shapes of the two results
        sm, si = shape_model(heap2, Lout, r.n_in), shape_impl(r)
        if sm != si:
            return "sharing description of the result differs: model %s implementation %s" % (sm, si)
    return None


# ---------------------------------------------------------------------------
# description, shrinking, replay

def describe(case):
    """human-readable, self-contained: the call, the lists, which positions/objects alias which"""
    which, fn = case["which"], FUNCS[case["which"]]
    p = case.get("params") or {}
    names = ["events"] if fn.nargs == 1 else (["events1", "events1"] if case.get("same_list") else ["events1", "events2"])
    lists = case["lists"] if not case.get("same_list") else [case["lists"][0], case["lists"][0]]
    out = {"call": "%s(%s)" % (which, ", ".join(names + ["%s=%r" % kv for kv in p.items()]))}
    used_e, used_d = [], []
    for n, l in zip(names, lists):
        row = []
        for i in l:
            spec = case["events"][i]
            di = None
            if spec[0] == "none":
                row.append("None (not an Event)")
            elif spec[0] == "dict":
                row.append("D%d (a plain dict, not an Event)" % spec[1])
                di = spec[1]
            else:
                eid, ts, dur, di, raw = spec
                row.append("E%d = Event(id=%r, ts_rel_us=%d%s, dur_us=%d, data=D%d)" % (i, eid, ts, " (stored unfloored)" if raw else "", dur, di))
            if i not in used_e:
                used_e.append(i)
            if di is not None and di not in used_d:
                used_d.append(di)
        out[n] = row
    out["data"] = {"D%d" % d: tstr(case["data"][d]) for d in used_d}
    holders = {}
    for d in used_d:
        for rf in refs_in(case["data"][d], []):
            holders.setdefault(rf, []).append("D%d" % d)
    if holders:
        out["shared_list_values"] = {"N%d" % k: tstr(case["nested"][k]) for k in sorted(holders)}
    al = []
    if case.get("same_list"):
        al.append("the same list object is passed as both arguments")
    for n, l in zip(names[:1] if case.get("same_list") else names, lists):
        for i in sorted(set(l)):
            pos = [k for k, x in enumerate(l) if x == i]
            if len(pos) > 1 and case["events"][i][0] != "none":
                al.append("%s[%s] are the same object E%d" % (n, "], [".join(map(str, pos)), i))
    if len(lists) == 2 and not case.get("same_list"):
        for i in sorted(set(lists[0]) & set(lists[1])):
            al.append("E%d is an element of both lists" % i)
    for d in used_d:
        es = [i for i in used_e if case["events"][i][0] not in ("dict", "none") and case["events"][i][3] == d]
        if len(es) > 1:
            al.append("D%d is the data dict of %s" % (d, ", ".join("E%d" % i for i in es)))
    for k, hs in sorted(holders.items()):
        if len(hs) > 1:
            al.append("N%d is one list object, a value of %s" % (k, ", ".join(hs)))
    out["aliasing"] = al or ["none"]
    return out


def shrink2(case, fails, max_steps=150):
    """theap.shrink_case (drop list positions), then drop data keys / merge keys / vals while `fails` stays true"""
    cur = shrink_case(case, fails, max_steps)
    steps, progress = 0, True

    def cands(c):
        for di, t in enumerate(c["data"]):
            for k in list(t):
                x = copy.deepcopy(c)
                del x["data"][di][k]
                yield x
        for name in ("keys", "vals", "classes"):
            for j in range(len((c.get("params") or {}).get(name, []))):
                x = copy.deepcopy(c)
                del x["params"][name][j]
                yield x
    while progress and steps < max_steps:
        progress = False
        for cand in cands(cur):
            steps += 1
            try:
                if fails(cand):
                    cur, progress = cand, True
                    break
            except Exception:  # noqa: BLE001
                pass
            if steps >= max_steps:
                break
    return cur


def model_of(r):
    return common.run_driver(DRIVER, [r.wire])[0]


def rerun_cmd(case):
    return "cd %s && VERIF_REPO=%s /venv/bin/python -m harness.theap2 replay '%s'" % (
        common.VERIF, common.REPO, json.dumps(case, separators=(",", ":")))


def impl_view(r):
    if r.err is not None:
        return {"raised": r.err}
    env = Env.get()
    try:
        if not isinstance(r.out, list):
            return {"returned": repr(r.out)}
        return {"returned (id, ts_rel_us, dur_us, data)": [
            [e.id, us_of_dt(e.timestamp) - BASE, us_of_td(e.duration), repr(e.data)[:300]] if isinstance(e, env.Event) else repr(e)
            for e in r.out], "sharing (in<k> = input object at location k)": shape_impl(r),
            "input objects (location: name)": {str(i): n for i, n in enumerate(r.tb.names)}}
    except Exception as ex:  # noqa: BLE001
        return {"returned": repr(r.out)[:300], "note": "could not be rendered: %s" % ex}


def _model_view(mo, r):
    if not mo or not isinstance(mo, list):
        return {"raw": mo}
    if mo[0] == 1:
        return {"raised": ERRNAME.get(mo[1], mo[1])}
    if mo[0] != 0:
        return {"raw": mo}
    if r.which in SCALAR_RESULT:
        return {"returned": mo[1]}
    heap, L = mo[1]
    new = {str(l): _cellstr(heap[l], r.lab) for l in sorted(_model_reach(heap, L)) if l >= r.n_in}
    return {"returned list at": L, "sharing (in<k> = input object at location k)": shape_model(heap, L, r.n_in),
            "new cells reachable from the result": new}


def replay_obj(r, extra=None):
    d = {"case": r.case, "described": describe(r.case), "implementation": impl_view(r), "rerun": rerun_cmd(r.case)}
    d.update(extra or {})
    return d


def replay(case, use_driver=True):
    """run one case spec on the implementation (oracle) and, when the driver exists, on the model"""
    env = Env.get()
    r = run_case(case, env)
    out = {"described": describe(case), "implementation": impl_view(r),
           "oracle": [{"signature": s, "description": d, "details": x} for s, d, x in r.findings]
           or "inputs not modified; the result shares with them exactly what the statement says",
           "input_objects_reachable_from_result": r.shared_out}
    global DRIVER
    for cand in (DRIVER, "THEAP_THEAP2", "THEAP_" + r.fn.prop):
        if use_driver and os.path.exists(os.path.join(common.BUILD, cand, "driver")):
            DRIVER = cand
            mo = model_of(r)
            out["wire"] = r.wire
            out["model"] = _model_view(mo, r)
            out["correspondence"] = correspond(r, mo, env) or "model and implementation agree"
            break
    return out


# ---------------------------------------------------------------------------
# the check

def prepare(ck, prop="C16"):
    """build build/THEAP_<prop>/driver from coq/Extract/ExTHeap.v (the models' .vo first when one is stale);
    one driver directory per calling property, so that C16, C19, C10, ... may run at the same time"""
    global DRIVER
    DRIVER = "THEAP_" + prop
    try:
        stale = False
        for m in MODEL_FILES:
            v = os.path.join(common.COQ, m + ".v")
            if not os.path.exists(v + "o") or os.path.getmtime(v + "o") < os.path.getmtime(v):
                stale = True
        if stale:
            ok, out = common.coq_make(MODEL_TARGETS, ck.log)
            if not ok:
                ck.broken.append("heap model of the transforms no longer compiles (Model/GroupHeap.v, Model/DictHeap.v): " + out[-300:])
                return False
        ok, out = common.build_driver(DRIVER, ck.log, "ExTHeap")
    except Exception as ex:  # noqa: BLE001
        ok, out = False, "%s: %s" % (type(ex).__name__, ex)
    if not ok:
        ck.broken.append("heap model of the transforms no longer extracts/compiles (ExTHeap): " + out[-300:])
    return ok


MAX_REPORTS = 3        # per function and signature / per function (disagreements); the rest is only counted


def _report_findings(ck, r, env, done):
    for sig, desc, extra in r.findings:
        rr, fx = r, (sig, desc, extra)
        ck.count("%s:FAILING:%s" % (r.which, sig))
        done[sig] = done.get(sig, 0) + 1
        if done[sig] > MAX_REPORTS:
            continue
        if done[sig] == 1:
            small = shrink2(r.case, lambda c, sig=sig: any(s == sig for s, _, _ in run_case(c, env).findings))
            r2 = run_case(small, env)
            hit = [f for f in r2.findings if f[0] == sig]
            if hit:
                rr, fx = r2, hit[0]
        ck.failing_input(fx[0], "%s on %s" % (fx[1], json.dumps(describe(rr.case), default=str)[:600]),
                         replay_obj(rr, {"what_deviates": fx[2], "signature": fx[0]}))


def _with_model(case, env):
    r = run_case(case, env)
    return r, model_of(r), env


N_RANDOM = {"quick": 190, "thorough": 24000}       # per function
N_RANDOM_GROUP = {"C19": {"quick": 380, "thorough": 36000}}


ASSUME_C16 = [
    "heap model of the C16 transforms (Model/GroupHeap.v, Model/DictHeap.v): one cell per mutable Python object (list, "
    "Event, data dict with its keys and scalar values in insertion order, list value); keys and immutable scalars are "
    "labels assigned by the harness (values: one per Python ==/hash class of the hashable-ised value); data is acyclic "
    "and JSON-like; values are str/int/float/bool/None and flat lists of those (a nested list / a dict holding a list "
    "is generated rarely: unhashable in merge on both sides; a dict WITHOUT mutable members as a merge value is outside "
    "the model: it would hash it)",
    "chunk_events_by_key: key != 'subevents'; sum_durations: exact integer sum vs the code's float route within 1 us",
]
ASSUME_C19 = [
    "heap model of the C19 transforms (Model/ClassifyHeap.v): values, keys, rulespecs and the engine tables (re, urlparse, "
    "www slicing, the three substitutions of simplify_string) are harness/c19.py's (labels; tabulated per case from the "
    "real libraries); a flat list of strings is a cell of its own, any other nested list / dict an opaque cell; a category "
    "is a flat list of strings and never the dict it is stored into; a url value is not a member-less container other "
    "than a list of strings (the tables could not name it)",
    "the annotating functions may write the keys they own into the data dicts of the listed events and nothing else: "
    "decided on the implementation by the oracle (also when the call raised midway)",
]
ASSUME_C12 = [
    "filter_keyvals_regex (Model/FilterRegexHeap.v): the regex engine is a parameter of the model - whether "
    "re.compile(regex) returned and, per value label, what bool(r.findall(v)) gives or raises - tabulated per case from "
    "the real `re` on a representative of every value class of the case; a value class the table does not name (a dict "
    "value) is not a str: TypeError",
]
ASSUME_BOTH = [
    "'the inputs are not modified' and 'what the result shares with them' are decided on the implementation by the "
    "oracle (content + member identities of every reachable input object before/after; the result's objects by identity)",
    "allocation order is not observable: model locations and Python objects are matched by a bijection found by a "
    "simultaneous walk, not by address; objects the model allocates but the result does not reach (merge's "
    "intermediate Events, an unused ['Uncategorized']) are not compared",
]


def heap_check(ck, group, have_driver=True, n_random=None):
    """the whole check for a group ("C16"), one function or a list of them; `ck` is the caller's Check, the driver
    is build/THEAP_<prop>/driver (prepare)"""
    env = Env.get()
    which = GROUPS[group] if isinstance(group, str) and group in GROUPS else ([group] if isinstance(group, str) else list(group))
    quick = ck.tier == "quick"
    for w in which:
        fn = FUNCS[w]
        n = n_random if n_random is not None else N_RANDOM_GROUP.get(fn.prop, N_RANDOM)["quick" if quick else "thorough"]
        cases = list(fn.gen(w, ck.rng, n))
        done_sigs, disagreed, samples = {}, 0, 0
        for lo in range(0, len(cases), 5000):
            recs = [run_case(c, env) for c in cases[lo:lo + 5000]]
            model = None
            if have_driver:
                try:
                    model = common.run_driver(DRIVER, [r.wire for r in recs])
                except Exception as ex:  # noqa: BLE001
                    ck.disagreement("theap-" + w, "the model driver failed: %s" % str(ex)[:300], {"function": w})
            for k, r in enumerate(recs):
                feats = r.features
                ck.count(w + ":cases")
                ck.count("%s:stream:%s" % (w, r.case["stream"]))
                for f in feats or ["plain"]:
                    ck.count("%s:alias:%s" % (w, f))
                if r.err is not None:
                    ck.count("%s:raised:%s" % (w, r.err))
                if r.out:
                    ck.count(w + ":nonempty-result")
                if r.shared_out:
                    ck.count(w + ":result-refers-to-input-objects")
                if w == "merge_events_by_keys" and r.err is None:
                    ck.count("merge_events_by_keys:keys=%d" % len(r.case["params"]["keys"]))
                    if any(isinstance(o, list) and o is not r.built.args[0] for o in r.leaves):
                        ck.count("merge_events_by_keys:result dict holds THE list object of the first member's data")
                if w == "chunk_events_by_key" and r.out:
                    ck.count("chunk_events_by_key:chunks", len(r.out))
                    if len(r.out) < len(r.built.args[0]):
                        ck.count("chunk_events_by_key:some run of >= 2 events or a break")
                if r.findings:
                    _report_findings(ck, r, env, done_sigs)
                if r.written:
                    ck.count(w + ":data-dicts-written", r.written)
                    ck.count(w + ":cases-with-a-write")
                    if r.err is not None:
                        ck.count(w + ":raised-after-writing")
                nontrivial = bool(feats) and (bool(r.out) if w not in SCALAR_RESULT else len(r.built.args[0]) >= 2)
                ck.note_case([w, r.case["params"], r.case["nested"], r.case["data"], r.case["events"], r.case["lists"],
                              r.case["same_list"]], nontrivial=nontrivial)
                if model is None:
                    continue
                mo = model[k]
                bad = correspond(r, mo, env)
                if bad:
                    disagreed += 1
                    if disagreed > MAX_REPORTS:
                        continue
                    rr = r
                    if disagreed == 1:
                        try:
                            small = shrink2(r.case, lambda c: correspond(*_with_model(c, env)) is not None)
                            r2 = run_case(small, env)
                            mo2 = model_of(r2)
                            b2 = correspond(r2, mo2, env)
                            if b2:
                                rr, mo, bad = r2, mo2, b2
                        except Exception:  # noqa: BLE001
                            pass
                    ck.disagreement("theap-" + w, "%s on %s" % (bad, json.dumps(describe(rr.case), default=str)[:600]),
                                    replay_obj(rr, {"difference": bad, "wire": rr.wire, "model": _model_view(mo, rr)}))
                elif samples < 1 and feats and r.out and r.case["stream"] == "corpus" and len(r.case["lists"][0]) >= 3 and \
                        w in ("merge_events_by_keys", "chunk_events_by_key", "concat", "filter_keyvals", "sort_by_timestamp",
                              "filter_keyvals_regex",
                              "categorize", "tag", "split_url_events", "simplify_string") and \
                        (w != "merge_events_by_keys" or any(isinstance(o, list) and o is not r.built.args[0] for o in r.leaves)):
                    samples += 1
                    ck.sample({"function": w, "case": describe(r.case), "aliasing": feats, "implementation": impl_view(r),
                               "model": _model_view(mo, r), "input_objects_unchanged_and_sharing_as_stated": not r.findings},
                              limit=10 ** 9)
        if disagreed:
            ck.count(w + ":disagreements", disagreed)
    props = {FUNCS[w].prop for w in which}
    for x in ((ASSUME_C16 if props & {"C16", "C12"} else []) + (ASSUME_C12 if "C12" in props else []) +
              (ASSUME_C19 if "C19" in props else []) + ASSUME_BOTH):
        if x not in ck.assumptions:
            ck.assumptions.append(x)


PROPS = ["Props/C16own.v", "Props/C19own.v", "Props/C12transforms.v"]


def main(argv=None):
    argv = argv if argv is not None else sys.argv[1:]
    if argv and argv[0] == "replay":
        common.setup_impl_env()
        src = argv[1]
        case = json.load(open(src)) if os.path.exists(src) else json.loads(src)
        if "which" not in case:            # a replay file written by Check.finish
            case = case.get("replay", case).get("case") or case["disagreements"][0]["case"]
        print(json.dumps(replay(case), indent=1, default=str))
        return 0
    ck = Check("THEAP2", argv)
    common.setup_impl_env()
    props = [p for p in PROPS if os.path.exists(os.path.join(common.COQ, p))]
    if props:
        ck.prove(props_file=props[0], extra_targets=props[1:])
    ok = prepare(ck, prop="THEAP2")
    for g in GROUPS:
        heap_check(ck, g, have_driver=ok)
    return ck.finish(RULE)


if __name__ == "__main__":
    sys.exit(main())
