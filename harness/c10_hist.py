"""C10 (round 3): flood under HISTORY, through the QUERY LAYER, and on LARGE inputs.

Streams added to harness/c10.py (hook: `c10_hist.run(...)` in main)

  q2        well-formed chains (the exhaustive / sampled grid of c10.gen_grid rescaled so that its pulsetime is the
            5 s the registered query function uses) through aw_query.functions.functions["flood"] and through a
            query2 statement `RETURN = flood(arg_a)`, the argument still referenced afterwards: oracle, "input not
            modified", correspondence with the model at P = 5 s.
  session   call sequences in one process on live objects (harness/txhist.py Session): the same objects again, new
            objects that are == but not identical (other ids, look-alike data True / 1 / 1.0), the same list edited
            in between, the earlier result overwritten before the next call, other pulsetimes on the same objects;
            routes direct / registry / program mixed inside one sequence.  Every call: oracle + not-modified +
            "an output event carries exactly the data of the input event it comes from (typed)" + model of that
            call alone.
  big       chains of >= 10 001 events (nearly sorted hand-over with local shuffles and a few far moves), every gap
            short (and a mixed one), direct and through the registry; judged by a sweep-line version of the
            oracle (same clauses and messages as c10.oracle, O(n log n)); the two oracles are compared with each
            other on every session / q2 call.
usage: python -m harness.c10_hist replay <replay.json>     (re-runs a `big` failing input)
"""
import bisect
import copy
import json
import sys
import time

from . import common
from . import txhist as TX
from .evutil import BASE, ev_unwire, pulse_us

POOL = [{"app": "a", "n": 1}, {"app": "b", "n": 1}, {"app": "a", "n": 0}, {"n": True}, {"app": "a"}, {"n": 1.0, "m": [1, 0]}, {}]


# --------------------------------------------------------------------------- the oracle as a sweep


def oracle_fast(P, inp, out, c10):
    """c10.oracle with the same clauses, order and message heads, in O(n log n): in the property's domain the
    sorted input and (once adjacent outputs are known not to overlap) the output are disjoint ordered interval
    sequences, so at most one of each covers an elementary segment."""
    S = sorted(inp, key=lambda v: v[1])
    if not c10.in_domain(S):
        return "skip"
    for (_, t, d, _) in out:
        if d <= 0:
            return f"non-positive output: output event with duration {d}"
    for a, b in zip(out, out[1:]):
        if a[1] + a[2] > b[1]:
            return f"overlap: outputs {c10.rel([a])[0]} and {c10.rel([b])[0]} overlap"
    gaps = [(a[1] + a[2], b[1]) for a, b in zip(S, S[1:]) if a[1] + a[2] < b[1]]
    g_starts = [g[0] for g in gaps]
    Sp = [v for v in S if v[2] > 0]
    s_starts = [v[1] for v in Sp]
    o_starts = [v[1] for v in out]
    pts = sorted({x for (_, t, d, _) in S + out for x in (t, t + d)})

    def cover(seq, starts, x):
        k = bisect.bisect_right(starts, x) - 1
        return {seq[k][3]} if k >= 0 and x < seq[k][1] + seq[k][2] else set()
    for x, y in zip(pts, pts[1:]):
        lin, lout = cover(Sp, s_starts, x), cover(out, o_starts, x)
        k = bisect.bisect_right(g_starts, x) - 1
        gap = [gaps[k]] if k >= 0 and y <= gaps[k][1] else []
        if not lin <= lout:
            return f"label cover lost: label(s) {sorted(lin - lout)} no longer cover [{x - BASE},{y - BASE})"
        if gap:
            short = gap[0][1] - gap[0][0] <= P
            if short and not lout:
                return f"short gap open: [{x - BASE},{y - BASE}) lies in a gap of {gap[0][1] - gap[0][0]} <= {P} and is not covered"
            if not short and lout:
                return f"long gap touched: [{x - BASE},{y - BASE}) lies in a gap of {gap[0][1] - gap[0][0]} > {P} and is covered"
        if (lout - lin) and not (gap and gap[0][1] - gap[0][0] <= P):
            return f"new cover outside short gaps: [{x - BASE},{y - BASE}) newly covered by label(s) {sorted(lout - lin)}"
    return None


def head(msg):
    return None if msg is None else msg.split(":")[0]


# --------------------------------------------------------------------------- generators


def rescale_to_5s(case):
    """a grid case of c10.gen_grid with its pulsetime mapped onto 5 s (all offsets from BASE scaled alike)"""
    _, p, evs = case
    num, den = {2: (5, 2), 0.002: (2500, 1), 1: (5, 1)}[p]
    return ("q2", 5, [(BASE + (t - BASE) * num // den, d * num // den, x) for t, d, x in evs])


def gen_q2(rng, c10, n_exh, n_samp):
    for case in c10.gen_grid(rng, n_exh, n_samp):
        yield rescale_to_5s(case)


def session_base(rng):
    """a small well-formed chain: gaps around the pulsetime, ids unique"""
    p = rng.choice([5, 5, 5, 2, 0.002, 0])
    P = pulse_us(p) or 1000
    unit = max(1000, P // 2 // 1000 * 1000)
    n = rng.choice([1, 2, 2, 3, 3, 4, 5])
    pool = rng.sample(POOL, rng.choice([1, 2, 2, 3]))
    t = BASE + rng.randrange(0, 3) * 1000
    specs = []
    for j in range(n):
        t += rng.choice([0, unit, unit, 2 * unit, 2 * unit, 3 * unit])
        d = rng.choice([0, unit, unit, 3 * unit])
        specs.append((t, d, copy.deepcopy(rng.choice(pool)), j))
        t += d
    if rng.random() < 0.5:
        specs = rng.sample(specs, len(specs))
    return p, specs, pool


def scramble_cheap(rng, items):
    """a hand-over order with few inversions (the extracted model sorts by insertion): windows of up to 40
    neighbours shuffled here and there, and a few blocks of 25 moved far ahead"""
    items = list(items)
    n = len(items)
    k = rng.randrange(0, 60)
    while k < n:
        w = rng.choice([2, 3, 5, 40])
        seg = items[k:k + w]
        rng.shuffle(seg)
        items[k:k + w] = seg
        k += w + rng.randrange(0, 150)
    for _ in range(3):
        a = rng.randrange(n // 2, n - 25)
        blk = items[a:a + 25]
        del items[a:a + 25]
        b = rng.randrange(max(0, a - 4000), a)
        items[b:b] = blk
    return items


def gen_big(rng, n, p, mixed):
    """>= n events; every gap is short (0 < gap <= P) unless `mixed` (then also 0 and long gaps); durations zero /
    short / long; three labels in runs, so that same-data merges, forward and backward fills all occur everywhere"""
    P = pulse_us(p)
    unit = max(1000, P // 2 // 1000 * 1000)
    labs = [{"app": "a"}, {"app": "b"}, {"app": "a", "n": 1}]
    t = BASE
    evs = []
    d = 1
    for i in range(n):
        if i:
            t += rng.choice([unit, unit, 2 * unit, 1000] + ([0 if d else 1000, 3 * unit, 9 * unit] if mixed else []))
        d = rng.choice([unit, unit, 3 * unit, 5 * unit, 1000] + ([0] if mixed or rng.random() < 0.05 else []))
        evs.append((t, d, labs[(i // rng.choice([1, 1, 2, 3])) % 3]))
        t += d
    return ("big", p, scramble_cheap(rng, evs))


# --------------------------------------------------------------------------- running one call


class Runner:
    def __init__(self, ck, c10, Event, flood, labels, have_driver):
        self.ck, self.c10, self.Event, self.flood, self.labels, self.have_driver = ck, c10, Event, flood, labels, have_driver
        self.ql = TX.QueryLayer()
        self.pending = []           # (stream, p, inp views, impl views, wire, replay) for the model comparison
        self.last = None
        self.minimised = False

    def fn(self, route):
        """the callable of a route; it remembers the result objects of the last call (typed provenance clause,
        vandalising)"""
        def g(objs, p):
            self.last = None
            if route == "direct":
                r = self.flood(objs, p)
            else:
                r = self.ql.call(route, "flood", objs)      # the wrapper's pulsetime is flood's default
            self.last = r
            return r
        return g

    def verdict(self, route, p, objs, fast=False):
        """-> (input views, output views, first failed clause | "skip" (out of domain) | None)"""
        c10 = self.c10
        P = pulse_us(p)
        before = {o.id: copy.deepcopy(o.data) for o in objs}
        unique = len(before) == len(objs) and None not in before
        inp, out, modified = c10.run_impl(("hist", p, None), self.Event, self.fn(route), self.labels, objs=objs)
        if modified and modified.startswith("flood raised"):
            return inp, out, ("raised: " + modified if c10.in_domain(sorted(inp, key=lambda v: v[1])) else "skip-raised: " + modified)
        if modified:
            return inp, out, "input-modified: input modified: " + modified
        bad = oracle_fast(P, inp, out, c10) if fast else c10.oracle(P, inp, out)
        if not fast and head(oracle_fast(P, inp, out, c10)) != head(bad):
            self.ck.count("oracle-sweep-differs-from-oracle(harness defect)")
        if bad is None and unique:
            # typed provenance: flood returns (re-timed copies of) its input events, ids are unique in these streams
            for e in self.last:
                src = before.get(e.id, self)
                if src is self or not TX.strict_eq(e.data, src):
                    return inp, out, (f"output data: output event id={e.id} carries data {TX.typed_repr(e.data)}, its input event has "
                                      f"{'no such id' if src is self else TX.typed_repr(src)}")
        return inp, out, bad

    def call(self, stream, route, p, objs, replay=None, fast=False, shrink=None):
        """-> the first failed clause (or None)"""
        ck, c10 = self.ck, self.c10
        P = pulse_us(p)
        ck.count("stream:" + stream)
        ck.count(f"route:{route}")
        inp, out, bad = self.verdict(route, p, objs, fast)
        rep = replay or (lambda: {"route": route, "pulsetime_s": p, "events_us_rel": c10.rel(inp)})
        ck.count("oracle:not-applicable(out of domain)" if bad == "skip" else "oracle:applied")
        if bad and bad.startswith("skip-raised"):
            ck.disagreement(f"flood[{stream}]", bad + " (the model returns a list)", rep())
            return bad
        if bad not in (None, "skip"):
            d = dict(rep(), impl_output_us_rel=c10.rel(out))
            if stream != "session" and head(bad) != "input-modified" and \
                    head(self.verdict(route, p, TX.build(self.Event, [TX.spec_of(o) for o in objs]), fast)[2]) != head(bad):
                bad += TX.HISTORY_NOTE
            elif shrink and (not ck.violations or (stream == "session" and not self.minimised)):
                self.minimised = self.minimised or stream == "session"
                bad, d = shrink(bad, d)
            ck.failing_input("C10:" + head(bad), f"[{stream}/{route}] " + bad, d)
            if head(bad) in ("raised", "input-modified"):
                return bad
        self.pending.append((stream, p, inp, out, c10.wire_case(P, inp), rep))
        ck.note_case([stream, route, P, c10.rel(inp)] if len(inp) < 50 else [stream, route, P, len(inp), c10.rel(inp[:20])],
                     nontrivial=len(out) < len(inp) or any(a != b for a, b in zip(inp, out)))
        return None if bad == "skip" else bad

    def compare_with_model(self):
        if not (self.have_driver and self.pending):
            return
        model = common.run_driver("C10", [w for (_, _, _, _, w, _) in self.pending])
        for (stream, p, inp, io, w, rep), mo in zip(self.pending, model):
            if mo == [-999] or len(mo) != 2:
                self.ck.disagreement("flood", f"driver could not decode a {stream} case", {"case": w[:2000]})
                continue
            mo_c = [ev_unwire(e) for e in mo[0]]
            io_c = [tuple(e) for e in io]
            for b in set(mo[1]):
                self.ck.count("branch:" + self.c10.BRANCH[b], mo[1].count(b))
            if mo_c != io_c:
                k = next((i for i, (a, b) in enumerate(zip(mo_c, io_c)) if a != b), min(len(mo_c), len(io_c)))
                self.ck.disagreement(f"flood[{stream}]",
                                     f"model and implementation differ from output {k} on: model {self.c10.rel(mo_c[k:k + 2])} "
                                     f"impl {self.c10.rel(io_c[k:k + 2])} ({len(inp)} input events, p={p})",
                                     dict(rep(), first_difference_at_output=k))


# --------------------------------------------------------------------------- the streams


def run(ck, c10, Event, flood, labels, have_driver):
    t0 = time.time()
    rng = ck.rng
    quick = ck.tier == "quick"
    R = Runner(ck, c10, Event, flood, labels, have_driver)
    TX.make_room(ck)

    # -- q2: the grid through the registered function and through a query2 statement
    n_exh, n_samp = (2, 500) if quick else (3, 20_000)
    for k, case in enumerate(gen_q2(rng, c10, n_exh, n_samp)):
        _, p, evs = case
        R.call("q2", ("registry", "program")[k % 2], p, TX.build(Event, [(t, d, x, i) for i, (t, d, x) in enumerate(evs)]))

    # -- sessions
    n_sessions = 150 if quick else 6000
    for _ in range(n_sessions):
        p, specs, pool = session_base(rng)
        S = TX.Session(Event, {"events": specs}, pool=pool)
        ps = [p]
        for name in S.plan(rng, rng.choice([6, 8, 10])):
            what = S.step(name, rng)
            if what is None:
                continue
            if name == "again" and rng.random() < 0.5:      # the same objects under another pulsetime
                ps.append(rng.choice([0, 2, 5, 5.0, 0.002, 60]))
                what += f"; pulsetime {ps[-1]!r}"
            pp = ps[-1]
            route = rng.choice(TX.ROUTES) if pp == 5 else "direct"
            objs = S.lists["events"]
            ids = [o.id for o in objs]
            if len(set(ids)) != len(ids) or None in ids:      # keep ids unique: provenance of the outputs
                for j, o in enumerate(objs):
                    o.id = 3000 + 17 * len(S.log) + j
            S.record(name, what, {"route": route, "module": "aw_transform.flood", "name": "flood"},
                     {"pulsetime": pp} if route == "direct" else {})
            k = len(S.log)

            def shrink(bad, d, S=S, k=k):
                steps, ok = TX.minimise_session(S.log[:k], "harness.c10_hist", head(bad))
                return bad, TX.session_replay(steps, ok)
            bad = R.call("session", route, pp, objs, replay=lambda S=S, k=k: S.replay(k), shrink=shrink)
            S.results.append(R.last)
            ck.count("session-step:" + name)
            if bad:
                break

    # -- big
    bigs = [("direct", 2, False), ("registry", 5, False)] if quick else \
        [("direct", 2, False), ("registry", 5, False), ("program", 5, True), ("direct", 0.5, True), ("direct", 5, True)]
    for route, p, mixed in bigs:
        n = TX.BIG_N + rng.randrange(0, 400) if quick else rng.choice([TX.BIG_N, 20_011, 30_029])
        _, p, evs = gen_big(rng, n, p, mixed)
        specs = [(t, d, x, i) for i, (t, d, x) in enumerate(evs)]
        ck.count("len>=%d" % TX.BIG_N)

        def shrink(bad, d, specs=specs, p=p, route=route):
            """drop events while the same clause still fails (fresh objects every time)"""
            sig = head(bad)

            def attempt(cand):
                _, o2, b2 = R.verdict(route, p, TX.build(Event, cand), fast=True)
                return o2, b2
            small = common.shrink_list(specs, lambda cand: head(attempt(cand)[1]) == sig, max_steps=70)
            o2, b2 = attempt(small)
            if head(b2) != sig:
                return bad, d
            return b2, dict(big_replay(small, route, p), impl_output_us_rel=c10.rel(o2))
        R.call("big", route, p, TX.build(Event, specs), replay=lambda specs=specs, route=route, p=p: big_replay(specs, route, p),
               fast=True, shrink=shrink)
    from . import c10_edge          # round 5: containers, data dict types, numeric extremes, faults
    try:
        c10_edge.run(R)
    except Exception as ex:  # noqa: BLE001    a tree on which the edge streams cannot even run: the tie is not established
        import traceback
        ck.disagreement("edge streams", f"harness/c10_edge.py could not complete against this tree: {type(ex).__name__}: {str(ex)[:200]}",
                        {"traceback": traceback.format_exc()[-1500:]})
    R.compare_with_model()
    TX.prefer_session_failure(ck)
    ck.coverage["round3"] = {
        "q2": "grid chains rescaled to the 5 s of the registered query function, through functions['flood'] and a query2 statement",
        "session": f"{n_sessions} call sequences on live objects (same / ==-equal / edited-in-between / vandalised results / other pulsetime), routes mixed",
        "big": [f"{r}: >= {TX.BIG_N} events, p={p}, {'mixed' if m else 'every gap short'}" for r, p, m in bigs],
        "wall_s": round(time.time() - t0, 1)}


def big_replay(specs, route, p):
    return {"route": route, "pulsetime_s": p, "n_events": len(specs),
            "events_us_rel(id,ts,dur,data)": [(i, t - BASE, d, x) for (t, d, x, i) in specs],
            "rerun_hint": "PYTHONPATH=<repo>:/verif /venv/bin/python -m harness.c10_hist replay <this file>"}


def replay_main(path):
    from . import c10
    common.setup_impl_env()
    from aw_core.models import Event
    from aw_transform.flood import flood
    obj = json.load(open(path))
    r = obj.get("replay", obj)
    if "session" in r:
        return TX.replay_main(path)
    key = "events_us_rel(id,ts,dur,data)"
    if key not in r:
        print("nothing to replay in", path)
        return 2
    specs = [(BASE + t, d, x, i) for (i, t, d, x) in r[key]]
    ql = TX.QueryLayer()
    route, p = r["route"], r["pulsetime_s"]
    f = flood if route == "direct" else (lambda objs, p: ql.call(route, "flood", objs))
    labels = common.Labels()
    inp, out, modified = c10.run_impl(("replay", p, specs), Event, f, labels, objs=TX.build(Event, specs))
    bad = modified or oracle_fast(pulse_us(p), inp, out, c10)
    print(f"{len(specs)} events, route {route}, pulsetime {p}: {len(out)} output events")
    print("property oracle:", bad or "holds")
    return 1 if bad not in (None, "skip") else 0


def session_judge(Event):
    from . import c10
    from aw_transform.flood import flood
    R = Runner(common.Check("C10", ["quick"]), c10, Event, flood, common.Labels(), False)

    def judge(st, args):
        return R.verdict(st["call"]["route"], st["scalars"].get("pulsetime", 5), args[0])[2]
    return judge


if __name__ == "__main__":
    if len(sys.argv) >= 3 and sys.argv[1] == "replay":
        sys.exit(replay_main(sys.argv[2]))
    if len(sys.argv) >= 3 and sys.argv[1] == "judge":
        sys.exit(TX.judge_main(sys.argv[2], session_judge))
    print(__doc__)
