"""C07, bucket LIFECYCLES: the heartbeat loop of harness/c07.py run as several phases on storage objects that live
on between the phases.

The streams of c07.py always start on a fresh bucket of a fresh storage object.  Here a case is a list of phases on
ONE storage object (or on two that are alive at the same time), each phase = some store operations (bucket deleted /
created again under the same id, other buckets created / deleted / written to, through the storage or through the
public Datastore layer) followed by a heartbeat stream fed into a bucket with the standard loop.  Whatever a storage
object remembers about a bucket across its deletion, about another bucket, or about another Datastore shows up as a
phase whose outcome is not heartbeat_reduce of what was fed since the bucket was (re)created.

case = {"kind": "lifecycle", "stores": ["X"] | ["X", "X"] | ["X", "Y"],      X = the back end under test, Y = another one
        "univ": [bucket labels], "phases": [phase, ...]}
phase = {"st": index into stores, "via": "storage" | "datastore" (how the phase's operations are issued),
         "ops": [wire op, ...] (harness/store_hist.py wire ops), "b": bucket label, "p": pulsetime s, "stream": [[[], ts, dur, label], ...],
         "dense": bool (dump every bucket after every heartbeat; False for the 10^4-event streams: before / after only)}

Per phase and store: the property oracle of c07.py on the implementation's own observations (every heartbeat leaves
all but the newest event alone, other buckets AND the other storage object untouched; the fed bucket afterwards ==
the real heartbeat_reduce of everything fed into it since it was created, as long as that is one in-domain stream with
one pulsetime) and the extracted model of that back end run on the SAME history: the model's setup = every operation
performed on that store so far (earlier loops as the concrete insert / replace_last calls they made), its stream =
this phase's stream."""
import os

from . import store_hist as sh
from .evutil import BASE, pulse_us

T, O, H3, N4 = 1, 2, 3, 4
UNIV4 = [T, O, H3, N4]
UNIT = 500_000
META = {T: [2, 1, 1, 1, [], 0], O: [1, 1, 1, 0, [], 0], H3: [1, 2, 1, 2, [4], 1], N4: [3, 1, 2, 3, [], 0]}


def partner(backend, same):
    """the second storage object of a two-store case (peewee keeps its database in a module global: one per process)"""
    if same and backend != "peewee":
        return backend
    return {"memory": "sqlite", "sqlite": "memory", "peewee": "sqlite"}[backend]


def create(b):
    return [0, b, META[b]]


def delete(b):
    return [2, b]


def run_lifecycle(backend, case, tmpdir, n):
    """-> {"stores": [backend names], "phases": [record per phase]}; record = {"st", "backend", "steps" (dense) |
    "first_last" (sparse), "branches", "before", "final", "performed": concrete ops of the loop, "other_store_changed"}"""
    from aw_datastore import Datastore
    from aw_transform.heartbeats import heartbeat_merge
    names = [backend if s == "X" else partner(backend, s == "X2") for s in case["stores"]]
    univ = case["univ"]
    opened = []
    try:
        for i, be in enumerate(names):
            st = sh.open_storage(be, tmpdir, 10 * n + i)
            ds = Datastore(lambda testing, _st=st: _st, testing=True)
            opened.append((be, st, ds, sh.ViaDatastore(ds)))
        out = []
        for ph in case["phases"]:
            be, st, ds, facade = opened[ph["st"]]
            others = [(j, o[1]) for j, o in enumerate(opened) if j != ph["st"]]
            other_before = [sh.dump(o, univ) for _, o in others]
            target = facade if ph["via"] == "datastore" else st
            op_results = [sh.apply_op(target, op) for op in ph["ops"]]
            try:
                bucket = ds[sh.s_of(ph["b"])]
            except KeyError:        # only in a shrinking candidate that dropped the bucket's creation: not a lifecycle
                return {"stores": names, "phases": out, "malformed": "phase feeds a bucket that does not exist"}
            steps, branches, befores, performed = [], [], [], []
            views = sh.dump(st, univ)
            first = views
            for w in ph["stream"]:
                hb = sh.mk_ev(w)
                branch = "raised"
                try:
                    last = bucket.get(limit=1)
                    merged = heartbeat_merge(last[0], hb, ph["p"]) if len(last) > 0 else None
                    if merged is not None:
                        branch, code, ev = "merge", sh.OPCODE["replace_last"], merged
                        wire_ev = sh.ev_w(merged)
                        r = bucket.replace_last(merged)
                    else:
                        branch, code, ev = ("refused" if len(last) > 0 else "first"), sh.OPCODE["insert"], hb
                        wire_ev = sh.ev_w(hb)
                        r = bucket.insert(hb)
                    performed.append([code, ph["b"], wire_ev])
                    res = [0, sh.canon_out(code, r)]
                except Exception as ex:  # noqa: BLE001 -- the error class is the observation
                    res = [1, sh.ERR.get(type(ex).__name__, 10)]
                branches.append(branch)
                if ph["dense"]:
                    befores.append(views)
                    views = sh.dump(st, univ)
                    steps.append([res] + views)
                else:
                    steps.append([res])
                if res[0] != 0:
                    break
            last_views = sh.dump(st, univ)
            try:
                final = [sh.ev_w(e) for e in bucket.get(-1)]
            except Exception as ex:  # noqa: BLE001
                final = {"raised": type(ex).__name__}
            rec = {"st": ph["st"], "backend": be, "steps": steps, "branches": branches, "before": befores, "final": final,
                   "performed": performed, "op_results": op_results, "first": first, "last": last_views,
                   "other_store_changed": [j for (j, o), vb in zip(others, other_before) if sh.dump(o, univ) != vb]}
            out.append(rec)
        return {"stores": names, "phases": out}
    finally:
        for i, (be, st, _, _) in enumerate(opened):
            sh.close_storage(be, st, tmpdir, 10 * n + i)


# ---------------------------------------------------------------------------
# generators


def hb_stream(t0, pattern, gap=2, dur=0, unit=UNIT):
    """one heartbeat every `gap` units from t0 (units after BASE), data labels from `pattern`"""
    return [[[], BASE + (t0 + gap * i) * unit, dur * unit, lab] for i, lab in enumerate(pattern)]


def phase(st, ops, b, p, stream, via="storage", dense=True):
    return {"st": st, "via": via, "ops": ops, "b": b, "p": p, "stream": stream, "dense": dense}


def start_ops():
    """buckets O (populated), T (the fed one, empty), H3 (one event) - as setup_for of c07.py"""
    return [create(O), create(T), create(H3), [5, O, [[], BASE, 3 * UNIT, 7]], [5, O, [[], BASE + 400 * UNIT, 0, 8]],
            [5, H3, [[], BASE, 50 * UNIT, 1]]]


def start_ops_alt():
    """the same buckets (and one more) created in ANOTHER order, so that a second storage object numbers its bucket rows /
    keys differently from the first"""
    return [create(T), create(N4), create(H3), create(O), [5, O, [[], BASE, 3 * UNIT, 7]], [5, N4, [[], BASE + 400 * UNIT, 0, 8]],
            [5, H3, [[], BASE, 50 * UNIT, 1]]]


def boundary_cases():
    out = []

    def case(stores, phases):
        out.append({"kind": "lifecycle", "stores": stores, "univ": UNIV4, "phases": phases, "domain": True})
    for p in (1, 5):
        for via in ("storage", "datastore"):
            s1 = hb_stream(0, [1, 1, 1, 2, 2, 1])
            s2 = hb_stream(100, [3, 3, 3, 4, 4, 4, 3])
            s3 = hb_stream(200, [3, 3, 5, 5])
            # the fed bucket is deleted and created again under the same id, then fed a merging stream
            case(["X"], [phase(0, start_ops(), T, p, s1, via), phase(0, [delete(T), create(T)], T, p, s2, via)])
            # ... its first life saw no merge at all / was empty
            case(["X"], [phase(0, start_ops(), T, p, hb_stream(0, [1, 2, 1, 2]), via), phase(0, [delete(T), create(T)], T, p, s2, via),
                         phase(0, [delete(T), create(T)], T, p, [], via), phase(0, [delete(T), create(T)], T, p, s3, via)])
            # several streams one after another on the same bucket; other buckets written, deleted, created in between
            case(["X"], [phase(0, start_ops(), T, p, s1, via),
                         phase(0, [delete(O), [8, H3, [[], BASE + 60 * UNIT, UNIT, 5]], create(N4), [5, N4, [[], BASE + 500 * UNIT, 0, 2]]], T, p, s2, via),
                         phase(0, [create(O), [5, O, [[], BASE + 204 * UNIT, 0, 5]], delete(H3)], T, p, s3, via)])
            # two buckets fed alternately; the other one is deleted / re-created while the first keeps growing
            case(["X"], [phase(0, start_ops() + [create(N4)], T, p, s1, via), phase(0, [], N4, p, hb_stream(1, [1, 1, 2, 2, 2]), via),
                         phase(0, [delete(N4), create(N4)], T, p, s2, via), phase(0, [], N4, p, hb_stream(101, [3, 3, 3, 4]), via),
                         phase(0, [delete(T)], N4, p, hb_stream(201, [4, 4, 3]), via), phase(0, [create(T)], T, p, s3, via)])
            # a bucket created AFTER the fed one was deleted takes its place; then the id comes back
            case(["X"], [phase(0, start_ops(), T, p, s1, via), phase(0, [delete(T), create(N4)], N4, p, s2, via),
                         phase(0, [create(T)], T, p, s3, via), phase(0, [], N4, p, hb_stream(300, [3, 3]), via)])
            # two storage objects alive at once, the same bucket ids in both
            for second in ("X2", "Y"):
                case(["X", second], [phase(0, start_ops(), T, p, s1, via), phase(1, start_ops_alt(), T, p, s2, via),
                                     phase(0, [], T, p, hb_stream(20, [1, 1, 2]), via), phase(1, [], T, p, s3, via),
                                     phase(0, [delete(T), create(T)], T, p, s3, via), phase(1, [], T, p, hb_stream(300, [5, 5, 5]), via),
                                     phase(1, [delete(T), create(T)], T, p, s2, via)])
    return out


def random_stream(rng, t0, n=None):
    """in-domain: strictly increasing starts, non-decreasing ends, 1-3 data values; t0 in units after BASE"""
    n = rng.choice([0, 1, 2, 3, 4, 6, 9]) if n is None else n
    pool = rng.sample(range(1, 6), rng.choice([1, 2, 2, 3]))
    t, end, out = t0, 0, []
    for _ in range(n):
        t += rng.choice([1, 1, 2, 3, 7])
        d = rng.choice([0, 0, 1, 2, 4])
        d = max(d, end - t)                      # ends do not decrease
        out.append([[], BASE + t * UNIT, d * UNIT, rng.choice(pool)])
        end = t + d
    return out, max(end, t) + 1


def random_case(rng):
    two = rng.random() < 0.3
    stores = ["X", rng.choice(["X2", "Y"])] if two else ["X"]
    p = rng.choice([0.5, 1, 2.5, 5])
    via = rng.choice(["storage", "datastore"])
    phases = []
    clock = [0] * len(stores)
    alive = [set() for _ in stores]
    for k in range(rng.randrange(2, 7)):
        st = rng.randrange(len(stores))
        ops = []
        if not alive[st]:
            if st == 1 and rng.random() < 0.7:
                ops += start_ops_alt()
                alive[st] = {T, O, H3, N4}
            else:
                ops += start_ops()
                alive[st] = {T, O, H3}
        for _ in range(rng.choice([0, 1, 1, 2, 3])):
            r = rng.random()
            b = rng.choice(UNIV4)
            if r < 0.45:
                ops += [delete(b), create(b)] if b in alive[st] else [create(b)]       # (re)created: empty
                alive[st].add(b)
            elif r < 0.6 and b in alive[st] and b not in (T, N4):
                ops.append(delete(b))
                alive[st].discard(b)
            elif r < 0.8 and b in (O, H3) and b in alive[st]:
                ops.append([5, b, [[], BASE + rng.randrange(0, 600) * UNIT, rng.choice([0, UNIT]), rng.randrange(1, 9)]])
            elif b in (O, H3) and b in alive[st]:
                ops.append([8, b, [[], BASE + rng.randrange(600, 900) * UNIT, 0, rng.randrange(1, 9)]])
        b = rng.choice([T, T, T, N4])
        if b not in alive[st]:
            ops.append(create(b))
            alive[st].add(b)
        stream, clock[st] = random_stream(rng, clock[st] + rng.choice([0, 3, 30]))
        phases.append(phase(st, ops, b, p, stream, via if rng.random() < 0.8 else rng.choice(["storage", "datastore"])))
    return {"kind": "lifecycle", "stores": stores, "univ": UNIV4, "phases": phases, "domain": True}


def large_cases(rng, tier):
    """streams / buckets beyond any plausible chunk, page or cache constant (>= 10 001 heartbeats; measured: the memory
    back end deep-copies the whole bucket on every read and peewee needs ~2.5 ms per call, so in the quick tier the
    stream whose heartbeats never merge - the bucket itself grows to the stream's length, next to a bucket filled by one
    insert_many of as many events - has 10^4 heartbeats on sqlite and 500 (next to 1000) on the other two; one case per back end so that they run side by side)"""
    n = rng.randrange(10_001, 10_200)
    # (1) 10^4 heartbeats of which all but a handful merge, then the bucket deleted / created again and fed once more
    labs = [1 + (i // 2500) % 2 for i in range(n)]
    s = [[[], BASE + i * UNIT, rng.choice([0, 0, UNIT // 2]), labs[i]] for i in range(n)]
    for i in range(1, n):          # non-decreasing ends
        s[i][2] = max(s[i][2], s[i - 1][1] + s[i - 1][2] - s[i][1])
    for be in sh.BACKENDS:
        dense = be != "peewee" or tier != "quick"
        yield {"kind": "lifecycle-large", "only": [be], "stores": ["X"], "univ": [T], "domain": True, "phases": [
            phase(0, [create(T)], T, 1, s, dense=dense), phase(0, [delete(T), create(T)], T, 1, s[:40])]}
    # (2) no heartbeat merges: the bucket grows to the stream's length next to another bucket of 10^4 events
    for be in sh.BACKENDS:
        m, mo = (n, n) if (be == "sqlite" or tier != "quick") else (500, 1000)
        alt = [[[], BASE + i * UNIT, 0, 1 + i % 2] for i in range(m)]
        big_other = [[[], BASE + i * 1000, 1000, 1 + i % 5] for i in range(mo)]
        yield {"kind": "lifecycle-large", "only": [be], "stores": ["X"], "univ": [T, O], "domain": True, "phases": [
            phase(0, [create(O), create(T), [6, O, big_other]], T, 1, alt, dense=False),
            phase(0, [delete(T), create(T)], T, 1, alt[:30])]}


# ---------------------------------------------------------------------------
# what was fed into a bucket since it was created (for the reduce clause) and the model's history


def well_formed(case):
    """buckets are created only when they do not exist, deleted / written / fed only when they do (what the generators
    produce; shrinking must stay inside, or a candidate fails for a reason of its own, e.g. create on a live bucket)"""
    alive = {}
    for ph in case["phases"]:
        a = alive.setdefault(ph["st"], set())
        for op in ph["ops"]:
            if op[0] == 0:
                if op[1] in a:
                    return False
                a.add(op[1])
            elif op[0] == 2:
                if op[1] not in a:
                    return False
                a.discard(op[1])
            elif op[1] not in a:
                return False
        if ph["b"] not in a:
            return False
    return True


def fed_and_history(case):
    """per phase: (expected stream or None, in-domain?, pulsetime) of the fed bucket since its creation"""
    fed = {}            # (store, bucket) -> {"p": p or "mixed", "stream": [...], "dirty": bool}
    out = []
    for ph in case["phases"]:
        st = ph["st"]
        for op in ph["ops"]:
            if op[0] in (0, 2):
                fed.pop((st, op[1]), None)
            elif op[0] in (5, 6, 7, 8, 9) and (st, op[1]) in fed:
                fed[(st, op[1])]["dirty"] = True
            elif op[0] in (5, 6, 7, 8, 9):
                fed[(st, op[1])] = {"p": None, "stream": [], "dirty": True}
        f = fed.setdefault((st, ph["b"]), {"p": ph["p"], "stream": [], "dirty": False})
        if f["p"] != ph["p"]:
            f["dirty"] = True
        f["stream"] = f["stream"] + ph["stream"]
        out.append(None if f["dirty"] else list(f["stream"]))
    return out
