"""C07, bucket LIFECYCLES: the heartbeat loop of harness/c07.py run as several phases on storage objects that live
on between the phases.

The streams of c07.py always start on a fresh bucket of a fresh storage object.  Here a case is a list of phases on
ONE storage object (or on two that are alive at the same time), each phase = some store operations (bucket deleted /
created again under the same id, other buckets created / deleted / written to, through the storage or through the
public Datastore layer) followed by a heartbeat stream fed into a bucket with the standard loop.  Whatever a storage
object remembers about a bucket across its deletion, about another bucket, or about another Datastore shows up as a
phase whose outcome is not heartbeat_reduce of what was fed since the bucket was (re)created.

case = {"kind": "lifecycle", "stores": ["X"] | ["X", "X"] | ["X", "Y"],      X = the back end under test, Y = another one
        "univ": [bucket labels], "phases": [phase, ...]}
phase = {"st": index into stores, "via": "storage" | "datastore" (how the phase's operations are issued),
         "ops": [wire op, ...] (harness/store_hist.py wire ops), "b": bucket label, "p": pulsetime s, "stream": [[[], ts, dur, label], ...],
         "dense": bool (dump every bucket after every heartbeat; False for the 10^4-event streams: before / after only)}

Per phase and store: the property oracle of c07.py on the implementation's own observations (every heartbeat leaves
all but the newest event alone, other buckets AND the other storage object untouched; the fed bucket afterwards ==
the real heartbeat_reduce of everything fed into it since it was created, as long as that is one in-domain stream with
one pulsetime) and the extracted model of that back end run on the SAME history: the model's setup = every operation
performed on that store so far (earlier loops as the concrete insert / replace_last calls they made), its stream =
this phase's stream."""
import os
import shutil

from . import c07_fault
from . import store_hist as sh
from .evutil import BASE, pulse_us

T, O, H3, N4 = 1, 2, 3, 4
UNIV4 = [T, O, H3, N4]
UNIT = 500_000
META = {T: [2, 1, 1, 1, [], 0], O: [1, 1, 1, 0, [], 0], H3: [1, 2, 1, 2, [4], 1], N4: [3, 1, 2, 3, [], 0]}


def partner(backend, same):
    """the second storage object of a two-store case (peewee keeps its database in a module global: one per process)"""
    if same and backend != "peewee":
        return backend
    return {"memory": "sqlite", "sqlite": "memory", "peewee": "sqlite"}[backend]


def create(b):
    return [0, b, META[b]]


def delete(b):
    return [2, b]


STORE_KIND = {"L": "legacy {} store at its default path in a data directory of the case's own (XDG_DATA_HOME)",
              "M": "{} store constructed with its default path in that directory (the library's migration imports the legacy file)"}
ATTEMPTS = 4           # a round of the loop is repeated at most this often (the generators' faults last 1-2 engine calls)


def store_backend(backend, s):
    """back end of a storage object of a case: X = the one under test, X2 / Y = the partner, L = a LEGACY peewee store at
    its default path in a data directory of the case's own, M = the sqlite store at ITS default path in that directory,
    constructed at its first phase: the library's own migration imports L"""
    if s == "X":
        return backend
    if s == "L":
        return "peewee"
    if s == "M":
        return "sqlite"
    return partner(backend, s == "X2")


def _open_store(be, tmpdir, idx, kind, opts):
    if kind == "L":
        from aw_datastore.storages import PeeweeStorage
        return PeeweeStorage(testing=True)
    if kind == "M":
        from aw_datastore.storages import SqliteStorage
        return SqliteStorage(testing=True)
    if be == "sqlite" and opts.get("lazy") is False:        # every write commits
        from aw_datastore.storages import SqliteStorage
        return SqliteStorage(testing=True, filepath=os.path.join(tmpdir, f"s{idx}.db"), enable_lazy_commit=False)
    return sh.open_storage(be, tmpdir, idx)


def migration_ops(legacy):
    """the calls aw_datastore.migration makes on the new store for this legacy store, as wire ops: per bucket, in the
    order the legacy store lists them, create_bucket and ONE insert_many of its events as it returns them (newest
    first), ids dropped"""
    ops = []
    for bid, m in legacy.buckets().items():
        b = sh.n_of(bid)
        ops.append([0, b, sh.meta_w(m)])
        ops.append([6, b, [[[]] + sh.ev_w(e)[1:] for e in legacy.get_events(bid, -1)]])
    return ops


def quiet_tail(ph):
    """index of the first operation of the phase's trailing run of single inserts when the phase asks for "quiet_ops" (no
    dump, hence no COMMIT, between them and the stream: they are pending when the first round starts), else None"""
    if not ph.get("quiet_ops"):
        return None
    q = len(ph["ops"])
    while q > 0 and ph["ops"][q - 1][0] == 5:
        q -= 1
    return q if q < len(ph["ops"]) else None


def _effect(f, r_raised, eng, wrote):
    """what a step whose engine call failed left behind, by the engine's rules (a failed COMMIT keeps the transaction
    open; a failed statement writes nothing): "full" (every statement of the step ran: the failed call was its closing
    COMMIT), "none" (the failed call was its first statement, or a COMMIT before it), "partial" otherwise"""
    kind, index, _ = eng.position
    if kind == "commit":
        return "full" if wrote else "none"
    return "none" if wrote <= 1 else "partial"


def run_lifecycle(backend, case, tmpdir, n):
    """-> {"stores": [backend names], "phases": [record per phase]}; record = {"st", "backend", "steps" (dense) |
    "first_last" (sparse), "branches", "before", "final", "performed": concrete ops of the loop, "other_store_changed"}"""
    from aw_datastore import Datastore
    from aw_transform.heartbeats import heartbeat_merge
    names = [store_backend(backend, s) for s in case["stores"]]
    univ = case["univ"]
    opts = case.get("store_opts", {})
    faulty = any(ph.get("faults") for ph in case["phases"])
    opened = {}
    closed = set()
    xdg_saved, xdg_dir = None, None
    if any(s in ("L", "M") for s in case["stores"]):
        xdg_saved = os.environ.get("XDG_DATA_HOME")
        xdg_dir = os.path.join(tmpdir, f"xdg{n}")
        os.makedirs(xdg_dir, exist_ok=True)
        os.environ["XDG_DATA_HOME"] = xdg_dir

    def open_(i):
        be = names[i]
        st = _open_store(be, tmpdir, 10 * n + i, case["stores"][i], opts)
        ds = Datastore(lambda testing, _st=st: _st, testing=True)
        if be == "sqlite" and opts.get("journal") == "delete":
            # the mode a store has where WAL is not available: a reader's shared lock makes its COMMIT fail (mechanism "lock")
            st.conn.execute("PRAGMA journal_mode=DELETE").fetchall()
            st.conn.execute("PRAGMA busy_timeout = 20")
        eng, undo = c07_fault.install(be, st) if faulty else (None, lambda: None)
        opened[i] = (be, st, ds, sh.ViaDatastore(ds), eng, undo)

    def close_(i):
        be, st, _, _, _, undo = opened[i]
        undo()
        closed.add(i)
        sh.close_storage(be, st, tmpdir, 10 * n + i)
    try:
        for i, s in enumerate(case["stores"]):
            if s != "M":
                open_(i)
        out = []
        for ph in case["phases"]:
            extra = {}
            if ph["st"] not in opened:
                # the sqlite store of the data directory is constructed now: the legacy store is closed, what the
                # migration will do is read off it first (for the model: the new store's history starts with these calls)
                li = case["stores"].index("L")
                extra["migration_ops"] = migration_ops(opened[li][1])
                close_(li)
                open_(ph["st"])
                import aw_datastore.storages.peewee as pw_mod
                if not pw_mod._db.is_closed():
                    pw_mod._db.close()              # the PeeweeStorage the migration constructed
                extra["migrated_views"] = sh.dump(opened[ph["st"]][1], univ)
            be, st, ds, facade, eng, _ = opened[ph["st"]]
            others = [(j, o[1]) for j, o in opened.items() if j != ph["st"] and j not in closed]
            other_before = [sh.dump(o, univ) for _, o in others]
            target = facade if ph["via"] == "datastore" else st
            faults = ph.get("faults") or []
            hb_faults = {f["ts"]: f for f in faults if f["on"] == "hb"} if eng else {}
            quiet_from = quiet_tail(ph)
            before_ops = None
            op_results, ops_effective, model_void = [], [], False
            for j, op in enumerate(ph["ops"]):
                if j == quiet_from:
                    before_ops = sh.dump(st, univ)      # the last dump (= COMMIT) before the stream ends
                f = next((f for f in faults if f["on"] == "op" and f["op"] == op), None) if eng else None
                if f is None:
                    r = sh.apply_op(target, op)
                    ops_effective.append(op)
                    op_results.append(r)
                    continue
                eng.arm(f["kind"], f["nth"], f.get("mech", "wrap"), f.get("times", 1))
                r = sh.apply_op(target, op)
                wrote = eng.n["execute"]
                fired = eng.disarm()
                if r[0] == 0 or not fired:
                    ops_effective.append(op)
                else:
                    # the caller survives the exception and goes on (or issues the call once more)
                    eff = _effect(f, True, eng, wrote)
                    if eff == "full":
                        ops_effective.append(op)
                    elif eff == "partial":
                        model_void = True           # the store models have no step for a half-applied call
                    if f.get("then") == "repeat":
                        r2 = sh.apply_op(target, op)
                        if r2[0] == 0:
                            ops_effective.append(op)
                        r = [r, r2]
                op_results.append(r)
            try:
                bucket = ds[sh.s_of(ph["b"])]
            except KeyError:
                if not faulty:  # only in a shrinking candidate that dropped the bucket's creation: not a lifecycle
                    return {"stores": names, "phases": out, "malformed": "phase feeds a bucket that does not exist"}
                bucket = None
            steps, branches, befores, performed, reads = [], [], [], [], []
            accepted, maybe, outcomes, tries_all, recreated = [], [], [], [], False
            views = before_ops if before_ops is not None else sh.dump(st, univ)
            first = views
            for w in (ph["stream"] if bucket is not None else []):
                f = hb_faults.get(w[1])
                if f:
                    eng.arm(f["kind"], f["nth"], f.get("mech", "wrap"), f.get("times", 1))
                hb = sh.mk_ev(w)
                branch, res, outcome, tries, read = "raised", None, None, [], None
                for _attempt in range(ATTEMPTS):
                    if not (f and f.get("same_object")):
                        hb = sh.mk_ev(w)            # (else: the caller hands the very same Event object in again)
                    stage = None
                    fired0 = eng.fired if eng else 0
                    wrote0 = eng.n["execute"] if eng else 0
                    try:
                        last = bucket.get(limit=1)
                        read = sh.ev_w(last[0]) if len(last) > 0 else None
                        merged = heartbeat_merge(last[0], hb, ph["p"]) if len(last) > 0 else None
                        if merged is not None:
                            branch, code = "merge", sh.OPCODE["replace_last"]
                            stage = [code, ph["b"], sh.ev_w(merged)]
                            r = bucket.replace_last(merged)
                        else:
                            branch, code = ("refused" if len(last) > 0 else "first"), sh.OPCODE["insert"]
                            stage = [code, ph["b"], sh.ev_w(hb)]
                            r = bucket.insert(hb)
                        performed.append(stage)
                        res, outcome = [0, sh.canon_out(code, r)], "ok"
                        break
                    except Exception as ex:  # noqa: BLE001 -- the error class is the observation
                        tries.append(type(ex).__name__)
                        res = [1, sh.ERR.get(type(ex).__name__, 10)]
                        if not (f and eng.fired > fired0):
                            branch, outcome = "raised", "raised"         # nothing was injected here: the loop ends
                            break
                        eff = "none"
                        if stage is not None:
                            eff = _effect(f, True, eng, eng.n["execute"] - wrote0)
                        if eff != "none":
                            performed.append(stage)       # the write is in the open transaction: the next COMMIT keeps it
                        if f["then"] == "skip":
                            outcome, res = ("skipped-effect" if eff != "none" else "skipped"), [2, res[1]]
                            break
                        if f["then"] == "recreate":
                            eng.disarm()                    # (the engine is available again before the caller cleans up)
                            redo = [delete(ph["b"]), create(ph["b"])]
                            for op in redo:
                                sh.apply_op(target, op)
                            performed += redo
                            accepted, maybe, recreated = [], [], True
                            try:
                                bucket = ds[sh.s_of(ph["b"])]
                            except KeyError:
                                branch, outcome, res = "raised", "raised", [1, sh.ERR["KeyError"]]
                                break
                        outcome = "raised"              # (when every attempt fails)
                if f:
                    eng.disarm()
                    if outcome == "raised" and len(tries) == ATTEMPTS:
                        branch = "raised"
                if outcome == "ok":
                    accepted.append(w)
                elif outcome == "skipped-effect":
                    maybe.append(w)
                outcomes.append(outcome)
                tries_all.append(tries)
                branches.append(branch)
                reads.append(read if outcome == "ok" else None)
                if ph["dense"]:
                    befores.append(views)
                    views = sh.dump(st, univ)
                    steps.append([res] + views)
                else:
                    steps.append([res])
                if res[0] == 1:
                    break
            last_views = sh.dump(st, univ)
            try:
                final = [sh.ev_w(e) for e in bucket.get(-1)]
            except Exception as ex:  # noqa: BLE001
                final = {"raised": type(ex).__name__}
            rec = {"st": ph["st"], "backend": be, "steps": steps, "branches": branches, "before": befores, "final": final,
                   "performed": performed, "op_results": op_results, "first": first, "last": last_views, "reads": reads,
                   "other_store_changed": [j for (j, o), vb in zip(others, other_before) if sh.dump(o, univ) != vb]}
            if faults:
                rec.update(accepted=accepted, maybe=maybe, outcomes=outcomes, tries=tries_all, recreated=recreated,
                           ops_effective=ops_effective, model_void=model_void)
            rec.update(extra)
            out.append(rec)
        return {"stores": names, "phases": out}
    finally:
        for i in list(opened):
            if i not in closed:
                close_(i)
        if xdg_dir is not None:
            try:
                import aw_datastore.storages.peewee as pw_mod
                if not pw_mod._db.is_closed():
                    pw_mod._db.close()
            except Exception:  # noqa: BLE001
                pass
            if xdg_saved is None:
                os.environ.pop("XDG_DATA_HOME", None)
            else:
                os.environ["XDG_DATA_HOME"] = xdg_saved
            shutil.rmtree(xdg_dir, ignore_errors=True)


# ---------------------------------------------------------------------------
# generators


def hb_stream(t0, pattern, gap=2, dur=0, unit=UNIT):
    """one heartbeat every `gap` units from t0 (units after BASE), data labels from `pattern`"""
    return [[[], BASE + (t0 + gap * i) * unit, dur * unit, lab] for i, lab in enumerate(pattern)]


def phase(st, ops, b, p, stream, via="storage", dense=True):
    return {"st": st, "via": via, "ops": ops, "b": b, "p": p, "stream": stream, "dense": dense}


def start_ops():
    """buckets O (populated), T (the fed one, empty), H3 (one event) - as setup_for of c07.py"""
    return [create(O), create(T), create(H3), [5, O, [[], BASE, 3 * UNIT, 7]], [5, O, [[], BASE + 400 * UNIT, 0, 8]],
            [5, H3, [[], BASE, 50 * UNIT, 1]]]


def start_ops_alt():
    """the same buckets (and one more) created in ANOTHER order, so that a second storage object numbers its bucket rows /
    keys differently from the first"""
    return [create(T), create(N4), create(H3), create(O), [5, O, [[], BASE, 3 * UNIT, 7]], [5, N4, [[], BASE + 400 * UNIT, 0, 8]],
            [5, H3, [[], BASE, 50 * UNIT, 1]]]


def boundary_cases():
    out = []

    def case(stores, phases):
        out.append({"kind": "lifecycle", "stores": stores, "univ": UNIV4, "phases": phases, "domain": True})
    for p in (1, 5):
        for via in ("storage", "datastore"):
            s1 = hb_stream(0, [1, 1, 1, 2, 2, 1])
            s2 = hb_stream(100, [3, 3, 3, 4, 4, 4, 3])
            s3 = hb_stream(200, [3, 3, 5, 5])
            # the fed bucket is deleted and created again under the same id, then fed a merging stream
            case(["X"], [phase(0, start_ops(), T, p, s1, via), phase(0, [delete(T), create(T)], T, p, s2, via)])
            # ... its first life saw no merge at all / was empty
            case(["X"], [phase(0, start_ops(), T, p, hb_stream(0, [1, 2, 1, 2]), via), phase(0, [delete(T), create(T)], T, p, s2, via),
                         phase(0, [delete(T), create(T)], T, p, [], via), phase(0, [delete(T), create(T)], T, p, s3, via)])
            # several streams one after another on the same bucket; other buckets written, deleted, created in between
            case(["X"], [phase(0, start_ops(), T, p, s1, via),
                         phase(0, [delete(O), [8, H3, [[], BASE + 60 * UNIT, UNIT, 5]], create(N4), [5, N4, [[], BASE + 500 * UNIT, 0, 2]]], T, p, s2, via),
                         phase(0, [create(O), [5, O, [[], BASE + 204 * UNIT, 0, 5]], delete(H3)], T, p, s3, via)])
            # two buckets fed alternately; the other one is deleted / re-created while the first keeps growing
            case(["X"], [phase(0, start_ops() + [create(N4)], T, p, s1, via), phase(0, [], N4, p, hb_stream(1, [1, 1, 2, 2, 2]), via),
                         phase(0, [delete(N4), create(N4)], T, p, s2, via), phase(0, [], N4, p, hb_stream(101, [3, 3, 3, 4]), via),
                         phase(0, [delete(T)], N4, p, hb_stream(201, [4, 4, 3]), via), phase(0, [create(T)], T, p, s3, via)])
            # a bucket created AFTER the fed one was deleted takes its place; then the id comes back
            case(["X"], [phase(0, start_ops(), T, p, s1, via), phase(0, [delete(T), create(N4)], N4, p, s2, via),
                         phase(0, [create(T)], T, p, s3, via), phase(0, [], N4, p, hb_stream(300, [3, 3]), via)])
            # two storage objects alive at once, the same bucket ids in both
            for second in ("X2", "Y"):
                case(["X", second], [phase(0, start_ops(), T, p, s1, via), phase(1, start_ops_alt(), T, p, s2, via),
                                     phase(0, [], T, p, hb_stream(20, [1, 1, 2]), via), phase(1, [], T, p, s3, via),
                                     phase(0, [delete(T), create(T)], T, p, s3, via), phase(1, [], T, p, hb_stream(300, [5, 5, 5]), via),
                                     phase(1, [delete(T), create(T)], T, p, s2, via)])
    return out


def random_stream(rng, t0, n=None):
    """in-domain: strictly increasing starts, non-decreasing ends, 1-3 data values; t0 in units after BASE"""
    n = rng.choice([0, 1, 2, 3, 4, 6, 9]) if n is None else n
    pool = rng.sample(range(1, 6), rng.choice([1, 2, 2, 3]))
    t, end, out = t0, 0, []
    for _ in range(n):
        t += rng.choice([1, 1, 2, 3, 7])
        d = rng.choice([0, 0, 1, 2, 4])
        d = max(d, end - t)                      # ends do not decrease
        out.append([[], BASE + t * UNIT, d * UNIT, rng.choice(pool)])
        end = t + d
    return out, max(end, t) + 1


def random_case(rng):
    two = rng.random() < 0.3
    stores = ["X", rng.choice(["X2", "Y"])] if two else ["X"]
    p = rng.choice([0.5, 1, 2.5, 5])
    via = rng.choice(["storage", "datastore"])
    phases = []
    clock = [0] * len(stores)
    alive = [set() for _ in stores]
    for k in range(rng.randrange(2, 7)):
        st = rng.randrange(len(stores))
        ops = []
        if not alive[st]:
            if st == 1 and rng.random() < 0.7:
                ops += start_ops_alt()
                alive[st] = {T, O, H3, N4}
            else:
                ops += start_ops()
                alive[st] = {T, O, H3}
        for _ in range(rng.choice([0, 1, 1, 2, 3])):
            r = rng.random()
            b = rng.choice(UNIV4)
            if r < 0.45:
                ops += [delete(b), create(b)] if b in alive[st] else [create(b)]       # (re)created: empty
                alive[st].add(b)
            elif r < 0.6 and b in alive[st] and b not in (T, N4):
                ops.append(delete(b))
                alive[st].discard(b)
            elif r < 0.8 and b in (O, H3) and b in alive[st]:
                ops.append([5, b, [[], BASE + rng.randrange(0, 600) * UNIT, rng.choice([0, UNIT]), rng.randrange(1, 9)]])
            elif b in (O, H3) and b in alive[st]:
                ops.append([8, b, [[], BASE + rng.randrange(600, 900) * UNIT, 0, rng.randrange(1, 9)]])
        b = rng.choice([T, T, T, N4])
        if b not in alive[st]:
            ops.append(create(b))
            alive[st].add(b)
        stream, clock[st] = random_stream(rng, clock[st] + rng.choice([0, 3, 30]))
        phases.append(phase(st, ops, b, p, stream, via if rng.random() < 0.8 else rng.choice(["storage", "datastore"])))
    return {"kind": "lifecycle", "stores": stores, "univ": UNIV4, "phases": phases, "domain": True}


def large_cases(rng, tier):
    """streams / buckets beyond any plausible chunk, page or cache constant (>= 10 001 heartbeats; measured: the memory
    back end deep-copies the whole bucket on every read and peewee needs ~2.5 ms per call, so in the quick tier the
    stream whose heartbeats never merge - the bucket itself grows to the stream's length, next to a bucket filled by one
    insert_many of as many events - has 10^4 heartbeats on sqlite and 500 (next to 1000) on the other two; one case per back end so that they run side by side)"""
    n = rng.randrange(10_001, 10_200)
    # (1) 10^4 heartbeats of which all but a handful merge, then the bucket deleted / created again and fed once more
    labs = [1 + (i // 2500) % 2 for i in range(n)]
    s = [[[], BASE + i * UNIT, rng.choice([0, 0, UNIT // 2]), labs[i]] for i in range(n)]
    for i in range(1, n):          # non-decreasing ends
        s[i][2] = max(s[i][2], s[i - 1][1] + s[i - 1][2] - s[i][1])
    for be in sh.BACKENDS:
        dense = be != "peewee" or tier != "quick"
        # peewee needs ~5 ms per round (measured 54-136 s for 10^4 rounds under load): the quick tier feeds it
        # 2 600 heartbeats (labels change at 2 500), the thorough tier the whole stream
        s_be = s[:2600] if (be == "peewee" and tier == "quick") else s
        yield {"kind": "lifecycle-large", "only": [be], "stores": ["X"], "univ": [T], "domain": True, "phases": [
            phase(0, [create(T)], T, 1, s_be, dense=dense), phase(0, [delete(T), create(T)], T, 1, s[:40])]}
    # (2) no heartbeat merges: the bucket grows to the stream's length next to another bucket of 10^4 events
    for be in sh.BACKENDS:
        m, mo = (n, n) if (be == "sqlite" or tier != "quick") else (500, 1000)
        alt = [[[], BASE + i * UNIT, 0, 1 + i % 2] for i in range(m)]
        big_other = [[[], BASE + i * 1000, 1000, 1 + i % 5] for i in range(mo)]
        yield {"kind": "lifecycle-large", "only": [be], "stores": ["X"], "univ": [T, O], "domain": True, "phases": [
            phase(0, [create(O), create(T), [6, O, big_other]], T, 1, alt, dense=False),
            phase(0, [delete(T), create(T)], T, 1, alt[:30])]}


# ---------------------------------------------------------------------------
# what was fed into a bucket since it was created (for the reduce clause) and the model's history


def logical(case, st):
    """the legacy store and the store that imports it hold the same buckets: one history"""
    return "LM" if case["stores"][st] in ("L", "M") else st


def well_formed(case):
    """buckets are created only when they do not exist, deleted / written / fed only when they do (what the generators
    produce; shrinking must stay inside, or a candidate fails for a reason of its own, e.g. create on a live bucket)"""
    alive = {}
    seen_m = False
    for ph in case["phases"]:
        kind = case["stores"][ph["st"]]
        if kind == "M":
            seen_m = True
        elif kind == "L" and seen_m:
            return False                      # the legacy store is closed once it has been imported
        a = alive.setdefault(logical(case, ph["st"]), set())
        for op in ph["ops"]:
            if op[0] == 0:
                if op[1] in a:
                    return False
                a.add(op[1])
            elif op[0] == 2:
                if op[1] not in a:
                    return False
                a.discard(op[1])
            elif op[1] not in a:
                return False
        if ph["b"] not in a:
            return False
    return True


def fed_and_history(case, res=None):
    """per phase: None, or what the fed bucket must hold after the phase, as {"prefill": events written into the bucket
    by insert / insert_many BEFORE anything was fed (distinct start instants, any id order), "stream": the heartbeats fed
    since the bucket was created whose round returned normally (one pulsetime; with `res`, the run's records: a round
    that raised and was skipped is not in it, a bucket the caller re-created after a fault starts anew), "maybe": the
    skipped heartbeats whose write statement had already run when the closing COMMIT raised}"""
    fed = {}            # (store, bucket) -> {"p", "prefill", "stream", "maybe", "dirty"}
    out = []

    def fresh(p):
        return {"p": p, "prefill": [], "stream": [], "maybe": [], "dirty": False}
    for k, ph in enumerate(case["phases"]):
        rec = res["phases"][k] if res is not None and k < len(res.get("phases", [])) else None
        st = logical(case, ph["st"])
        for op in ph["ops"]:
            key = (st, op[1]) if len(op) > 1 else None
            if op[0] in (0, 2):
                fed.pop(key, None)
            elif op[0] in (5, 6):
                f = fed.setdefault(key, fresh(None))
                evs = [op[2]] if op[0] == 5 else op[2]
                if f["stream"] or f["maybe"] or any(w[0] != [] for w in evs):
                    f["dirty"] = True
                f["prefill"] = f["prefill"] + [list(w) for w in evs]
                if len({w[1] for w in f["prefill"]}) != len(f["prefill"]):
                    f["dirty"] = True
            elif op[0] in (7, 8, 9):
                fed.setdefault(key, fresh(None))["dirty"] = True
        f = fed.setdefault((st, ph["b"]), fresh(ph["p"]))
        if f["p"] is None:
            f["p"] = ph["p"]
        if f["p"] != ph["p"]:
            f["dirty"] = True
        if rec is not None and "accepted" in rec:
            if rec["recreated"]:
                f = fed[(st, ph["b"])] = fresh(ph["p"])
            f["stream"] = f["stream"] + rec["accepted"]
            f["maybe"] = f["maybe"] + rec["maybe"]
        else:
            f["stream"] = f["stream"] + ph["stream"]
        if f["prefill"] and f["stream"] and max(w[1] for w in f["prefill"]) >= f["stream"][0][1]:
            f["dirty"] = True
        out.append(None if f["dirty"] else {"prefill": list(f["prefill"]), "stream": list(f["stream"]), "maybe": list(f["maybe"])})
    return out


# ---------------------------------------------------------------------------
# round 5 (a): ENGINE FAULTS the caller survives (harness/c07_fault.py).  Fault phases run WITHOUT a dump between the
# rounds (a dump reads through get_events, which commits on sqlite: the write of the previous round would never be
# pending when the next round's COMMIT fails), and with an event written to ANOTHER bucket pending when the stream starts.

FAULT_BACKENDS = ["sqlite", "peewee"]


def hb_fault(w, kind, nth, mech, then, times=1, same_object=False):
    f = {"on": "hb", "ts": w[1], "kind": kind, "nth": nth, "mech": mech, "then": then}
    if times != 1:
        f["times"] = times
    if same_object:
        f["same_object"] = True
    return f


def op_fault(op, kind, nth, mech, then):
    return {"on": "op", "op": op, "kind": kind, "nth": nth, "mech": mech, "then": then}


def fault_phase(st, ops, b, p, stream, faults, via="storage", quiet_ops=False):
    ph = phase(st, ops, b, p, stream, via, dense=False)
    ph["faults"] = faults
    if quiet_ops:
        ph["quiet_ops"] = True
    return ph


def fault_case(only, phases, lazy=True, univ=None, journal=None):
    c = {"kind": "lifecycle-fault", "only": list(only), "stores": ["X"], "univ": univ or UNIV4, "phases": phases, "domain": True}
    if not lazy:
        c["store_opts"] = {"lazy": False}
    if journal:
        c.setdefault("store_opts", {})["journal"] = journal
    return c


def positions(be, lazy):
    """the engine calls of one round of the loop: sqlite - the COMMIT of the limit-1 read, the INSERT / UPDATE, and (every
    write commits) the COMMIT after it; peewee (autocommit) - the INSERT / UPDATE"""
    if be == "peewee":
        return [("execute", 0), ("execute", 1)]          # (a second write statement: none in the code as it is)
    return [("commit", 0), ("execute", 0)] + ([("execute", 1)] if lazy else [("commit", 1)])


def fault_boundary_cases():
    out = []
    pending_other = [5, O, [[], BASE + 300 * UNIT, UNIT, 4]]        # acknowledged, not yet committed when the stream starts
    k = 0
    for p, s in ((1, hb_stream(0, [1, 1, 2, 2, 1, 1, 3], gap=2, dur=1)),       # insert, merge, insert, merge, ...
                 (5, hb_stream(0, [1, 1, 1, 2, 1, 2, 2], gap=3, dur=0))):
        for be in FAULT_BACKENDS:
            for lazy in ((True, False) if be == "sqlite" else (True,)):
                for kind, nth in positions(be, lazy):
                    for i, w in enumerate(s):
                        for then in ("repeat", "skip", "recreate"):
                            if (kind, nth) == ("execute", 1) and (then != "repeat" or i % 2):
                                continue
                            k += 1
                            if then != "repeat" and (k + i) % 2:
                                continue                      # (repeat: every position; the two variants: every other one)
                            mech = ("wrap", "auth")[(k // 3) % 2] if then != "repeat" else ("wrap", "auth")[i % 2]
                            times = 2 if (then == "repeat" and i == 3) else 1
                            via = ("storage", "datastore")[k % 2]
                            f = hb_fault(w, kind, nth, mech, then, times, same_object=(i == 4))
                            out.append(fault_case([be], [fault_phase(0, start_ops() + [pending_other], T, p, s, [f], via,
                                                                     quiet_ops=True)], lazy))
    # a REAL lock: the file in rollback-journal mode, a reader's shared lock while the round's first COMMIT runs
    s = hb_stream(0, [1, 1, 2, 2, 1, 1, 3], gap=2, dur=1)
    for i, w in enumerate(s):
        then = ("repeat", "repeat", "skip", "recreate")[i % 4]
        out.append(fault_case(["sqlite"], [fault_phase(0, start_ops() + [pending_other], T, 1, s, [hb_fault(w, "commit", 0, "lock", then)],
                                                       quiet_ops=True)], journal="delete"))
    # two faults in one stream; the stream continues in a second phase
    s = hb_stream(0, [1, 1, 2, 2, 1, 1, 3, 3], gap=2, dur=1)
    for be in FAULT_BACKENDS:
        pos = positions(be, True)
        fs = [hb_fault(s[2], *pos[0], "wrap", "repeat"), hb_fault(s[5], *pos[-1], "auth", "repeat")]
        out.append(fault_case([be], [fault_phase(0, start_ops(), T, 1, s[:6], fs),
                                     fault_phase(0, [], T, 1, s[6:], [hb_fault(s[7], *pos[0], "auth", "repeat")])]))
    # a bucket operation fails half-way or at its COMMIT, the caller goes on: another bucket is created and fed (the bucket
    # whose deletion failed held the highest row number); the fed bucket's own deletion fails, is repeated, the bucket
    # created again and fed; the creation fails and is repeated
    s1 = hb_stream(0, [1, 1, 2, 2, 1])
    s2 = hb_stream(100, [1, 1, 1, 2, 2], dur=1)
    for be in FAULT_BACKENDS:
        for kind, nth in [("execute", 0), ("execute", 1)] + ([("commit", 0)] if be == "sqlite" else []):
            for mech in ("wrap", "auth"):
                for via in ("storage", "datastore"):
                    first = phase(0, start_ops(), T, 1, s1, via)
                    d = delete(H3)
                    out.append(fault_case([be], [first, fault_phase(0, [d, create(N4)], N4, 1, s2, [op_fault(d, kind, nth, mech, "next")], via)]))
                    d = delete(T)
                    out.append(fault_case([be], [first, fault_phase(0, [d, create(T)], T, 1, s2, [op_fault(d, kind, nth, mech, "repeat")], via)]))
                    c = create(N4)
                    out.append(fault_case([be], [first, fault_phase(0, [c], N4, 1, s2, [op_fault(c, kind, nth, mech, "repeat")], via)]))
    return out


def random_fault_case(rng):
    """a random single-store lifecycle whose phases run without dumps between the rounds, the engine failing in about one
    round of five and in some of the bucket operations"""
    be = rng.choice(FAULT_BACKENDS)
    lazy = be != "sqlite" or rng.random() < 0.7
    base = random_case(rng)
    while len(base["stores"]) != 1:
        base = random_case(rng)
    pos = positions(be, lazy)
    phases = []
    for ph in base["phases"]:
        faults = []
        for w in ph["stream"]:
            if rng.random() < 0.22:
                kind, nth = rng.choice(pos)
                faults.append(hb_fault(w, kind, nth, rng.choice(["wrap", "auth"]), rng.choice(["repeat", "repeat", "skip", "recreate"]),
                                       times=rng.choice([1, 1, 1, 2]), same_object=rng.random() < 0.3))
        ops = list(ph["ops"])
        for j, op in enumerate(ops):
            # a deletion that is followed by the bucket's creation, or a creation: the call is repeated
            if ((op[0] == 2 and j + 1 < len(ops) and ops[j + 1] == create(op[1]) and rng.random() < 0.3) or (op[0] == 0 and rng.random() < 0.1)) \
                    and not any(f["on"] == "op" and f["op"] == op for f in faults):
                kind, nth = rng.choice([("execute", 0), ("execute", 1)] + ([("commit", 0)] if be == "sqlite" else []))
                faults.append(op_fault(op, kind, nth, rng.choice(["wrap", "auth"]), "repeat"))
        quiet = False
        if rng.random() < 0.5 and O in _alive_after(base, ph):
            ops.append([5, O, [[], BASE + rng.randrange(0, 900) * UNIT, rng.choice([0, UNIT]), rng.randrange(1, 9)]])
            quiet = all(op[0] == 5 for op in ops)
        phases.append(fault_phase(0, ops, ph["b"], ph["p"], ph["stream"], faults, ph["via"], quiet_ops=quiet))
    if be == "sqlite" and rng.random() < 0.15:
        for ph in phases:
            for f in ph["faults"]:
                if f["kind"] == "commit":
                    f["mech"] = "lock"
        return fault_case([be], phases, lazy, journal="delete")
    return fault_case([be], phases, lazy)


def _alive_after(case, upto):
    a = set()
    for ph in case["phases"]:
        for op in ph["ops"]:
            if op[0] == 0:
                a.add(op[1])
            elif op[0] == 2:
                a.discard(op[1])
        if ph is upto:
            break
    return a


# ---------------------------------------------------------------------------
# round 5 (b): buckets whose history did NOT come through the loop from an empty bucket of this storage object - filled by
# bulk inserts newest first / in shuffled order (ids run against time), or imported by the library's own migration from a
# legacy peewee database (stores "L" -> "M") - and then continued by the loop.  The statement checked per heartbeat: the
# event replace_last rewrites is the one the limit-1 read returned (the newest by start), every other event untouched;
# after the stream: the bucket (by start) == prefill without its newest event ++ heartbeat_reduce([newest] ++ stream); for
# a legacy bucket that was itself fed by the loop that is heartbeat_reduce of the whole stream.


def prefill_events(rng_or_none, t0, labels, order, dur=1):
    """one event every 4 units from t0 with the labels given, listed in `order`: "desc" (newest first, as the migration
    inserts them), "asc", or a permutation of the indices"""
    evs = [[[], BASE + (t0 + 4 * i) * UNIT, dur * UNIT, lab] for i, lab in enumerate(labels)]
    if order == "desc":
        return evs[::-1]
    if order == "asc":
        return evs
    return [evs[i] for i in order]


def prefilled_boundary_cases():
    out = []

    def case(phases, only=None):
        c = {"kind": "lifecycle-prefilled", "stores": ["X"], "univ": UNIV4, "phases": phases, "domain": True}
        if only:
            c["only"] = only
        out.append(c)
    for p in (1, 5):
        for via in ("storage", "datastore"):
            labs = [1, 2, 1, 3, 3]
            for order in ("desc", [2, 4, 0, 3, 1], [4, 0, 1, 2, 3], "asc"):
                pre = prefill_events(None, 0, labs, order)
                pre_o = prefill_events(None, 0, [7, 7, 8], "desc")
                base = [create(O), create(T), create(H3), [6, O, pre_o], [6, T, pre]]
                # the first heartbeat merges into the newest prefilled event (same data, inside the pulsetime) ...
                s = hb_stream(18, [3, 3, 3, 4, 4, 3], gap=2, dur=0)
                case([phase(0, base, T, p, s, via)])
                # ... or does not (other data / beyond the pulsetime); the stream goes on in a second phase
                s = hb_stream(40, [2, 2, 3, 3, 3], gap=2, dur=1)
                case([phase(0, base, T, p, s[:3], via), phase(0, [[5, O, [[], BASE + 2 * UNIT, 0, 5]]], T, p, s[3:], via)])
            # filled by single inserts in shuffled order, and the other bucket fed too
            pre = prefill_events(None, 0, [1, 1, 2, 2], [3, 1, 0, 2])
            case([phase(0, [create(O), create(T)] + [[5, T, w] for w in pre] + [[6, O, prefill_events(None, 1, [1, 2, 2], "desc")]],
                        T, p, hb_stream(13, [2, 2, 2, 1, 1], gap=1, dur=1), via),
                  phase(0, [], O, p, hb_stream(10, [2, 2, 3], gap=1, dur=1), via)])
    return out


def random_prefilled_case(rng):
    p = rng.choice([0.5, 1, 2.5, 5])
    via = rng.choice(["storage", "datastore"])
    n = rng.choice([1, 2, 3, 5, 8])
    labs = [rng.randrange(1, 4) for _ in range(n)]
    order = rng.choice(["desc", "desc", "asc", rng.sample(range(n), n)])
    pre = prefill_events(None, 0, labs, order, dur=rng.choice([0, 1, 2]))
    ops = [create(O), create(T), create(H3), [5, H3, [[], BASE, 50 * UNIT, 1]]]
    if rng.random() < 0.5:
        ops += [[5, T, w] for w in pre]
    else:
        cut = rng.randrange(0, n + 1)
        ops += [[6, T, pre[:cut]], [6, T, pre[cut:]]] if cut not in (0, n) else [[6, T, pre]]
    ops.append([6, O, prefill_events(None, 0, [rng.randrange(1, 4) for _ in range(rng.randrange(1, 5))], "desc")])
    t_last = 4 * (n - 1)
    s1, clock = random_stream(rng, t_last + rng.choice([0, 0, 1, 3, 30]))
    if s1 and rng.random() < 0.6:
        s1[0][3] = labs[-1]                       # same data as the newest prefilled event
    phases = [phase(0, ops, T, p, s1, via)]
    if rng.random() < 0.5:
        s2, clock = random_stream(rng, clock + rng.choice([0, 3]))
        phases.append(phase(0, [[5, H3, [[], BASE + rng.randrange(100, 900) * UNIT, 0, 3]]] if rng.random() < 0.5 else [], T, p, s2, via))
    return {"kind": "lifecycle-prefilled", "stores": ["X"], "univ": UNIV4, "phases": phases, "domain": True}


def migrated_case(p, via, s0, s1, other0=None, more=None):
    """the stream s0 is fed into bucket T of a legacy peewee store (its default file in a data directory of the case's own),
    the store is closed; SqliteStorage(testing=True) is constructed in that directory - the library's migration imports
    the legacy file - and the stream goes on (s1) in the sqlite store"""
    leg = [phase(0, start_ops(), T, p, s0, via)]
    if other0:
        leg.append(phase(0, [], O, p, other0, via))
    ph = [phase(1, [], T, p, s1, via)] + (more or [])
    return {"kind": "lifecycle-migrated", "only": ["sqlite"], "stores": ["L", "M"], "univ": UNIV4, "phases": leg + ph, "domain": True}


def migrated_boundary_cases():
    out = []
    for p in (1, 5):
        for via in ("storage", "datastore"):
            s = hb_stream(0, [1, 1, 2, 2, 1, 3, 3, 3, 3, 2, 2], gap=2, dur=1)
            for cut in (5, 7, 8):           # the first heartbeat after the switch starts a new event / merges into the newest one
                out.append(migrated_case(p, via, s[:cut], s[cut:]))
            out.append(migrated_case(p, via, s[:7], s[7:], other0=hb_stream(1, [5, 5, 6], gap=3),
                                     more=[phase(1, [], O, p, hb_stream(8, [6, 6, 5], gap=3), via),
                                           phase(1, [delete(T), create(T)], T, p, s[:4], via)]))
    return out


def random_migrated_case(rng):
    p = rng.choice([0.5, 1, 2.5, 5])
    via = rng.choice(["storage", "datastore"])
    s0, clock = random_stream(rng, 0, n=rng.choice([1, 2, 3, 5, 8]))
    s1, clock = random_stream(rng, clock - 1 + rng.choice([0, 0, 1, 4]))
    if s0 and s1 and rng.random() < 0.6:
        s1[0][3] = s0[-1][3]
    s1 = [w for w in s1 if not s0 or w[1] > s0[-1][1]]
    # durations on the legacy side: whole half seconds (the peewee store keeps a decimal number of seconds)
    other0 = random_stream(rng, 0, n=rng.choice([0, 2, 4]))[0] or None
    more = []
    if rng.random() < 0.4:
        s2, clock = random_stream(rng, clock + 2)
        more.append(phase(1, [[5, H3, [[], BASE + 700 * UNIT, 0, 2]]], T, p, s2, via))
    return migrated_case(p, via, s0, s1, other0, more)


def main(argv):
    """python -m harness.c07_life <replay.json>: re-run the lifecycle of a C07 replay file ("case_wire", "backend") on the
    tree VERIF_REPO / PYTHONPATH points at and print what every phase left in the buckets"""
    import json
    import tempfile
    from . import common
    r = json.load(open(argv[0]))
    r = r.get("replay", r)
    common.setup_impl_env()
    case = r["case_wire"]
    tmp = tempfile.mkdtemp(prefix="awc07-replay-")
    try:
        res = run_lifecycle(r["backend"], case, tmp, 0)
    finally:
        shutil.rmtree(tmp, ignore_errors=True)
    for k, (ph, rec) in enumerate(zip(case["phases"], res["phases"])):
        print(f"phase {k} on storage object {ph['st']} ({rec['backend']}): {len(ph['ops'])} operations {rec['op_results']}, then "
              f"{len(ph['stream'])} heartbeats into bucket {ph['b']} (pulsetime {ph['p']})")
        if "outcomes" in rec:
            print(f"    rounds: {rec['outcomes']}  exceptions the caller survived: {rec['tries']}")
        print(f"    branches: {rec['branches']}")
        print(f"    bucket afterwards (newest first): {rec['final']}")
        for b, v in zip(case["univ"], rec["last"]):
            print(f"    bucket {b}: {v}")
    return 0


if __name__ == "__main__":
    import sys
    sys.exit(main(sys.argv[1:]))
