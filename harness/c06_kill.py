"""Real crashes for C06 (thorough tier): a child process drives a file-backed store with the
real clock and logs every write statement (before it runs) and every returned call to an
append-only file; the parent SIGKILLs it at a random instant, reopens the database with a
fresh connection and checks the property statement on what is there.
A negative delay means "exit without shutdown": the child leaves through sys.exit() after
|delay| seconds, between two calls, without committing or closing anything.
usage (replay): python -m harness.c06_kill <sqlite|peewee> <seed> <kill_after_s>
internal:       python -m harness.c06_kill child <backend> <dir> <seed>"""
import json
import os
import random
import shutil
import signal
import sqlite3
import subprocess
import sys
import time
from datetime import timedelta

from . import common
from .c06_lib import BUCKET_CALLS, Shadow, T0, THRESHOLD, WRITE_KW, dump, schema_of, scratch_dir


def child(backend, d, seed):
    common.setup_impl_env()
    from aw_core.models import Event
    path = os.path.join(d, "k.db")
    log = os.open(os.path.join(d, "log"), os.O_WRONLY | os.O_CREAT | os.O_APPEND)

    def out(*rec):
        os.write(log, (json.dumps(rec) + "\n").encode())

    def cb(sql):
        head = sql.lstrip().split(None, 1)[0].upper()
        if head in WRITE_KW:
            out("S", sql)
    if backend == "sqlite":
        from aw_datastore.storages import SqliteStorage
        st = SqliteStorage(testing=True, filepath=path)
        st.conn.set_trace_callback(cb)
    else:
        from aw_datastore.storages import PeeweeStorage
        st = PeeweeStorage(testing=True, filepath=path)
        st.db.connection().set_trace_callback(cb)
    rng = random.Random(seed)
    n = 0

    def ev(eid=None):
        nonlocal n
        n += 1
        return Event(id=eid, timestamp=T0 + timedelta(seconds=n), duration=timedelta(seconds=1), data={"n": n})
    st.create_bucket("a", "t", "c", "h", T0.isoformat(), None, None)
    out("R", "create_bucket", True)
    out("READY")
    ids = []
    extra = 0
    stop = os.path.join(d, "stop")
    while True:
        if os.path.exists(stop):
            sys.exit(0)                 # exit without shutdown
        x = rng.random()
        name, ok = None, True
        try:
            if x < 0.55:
                name = "insert_one"
                ids.append(st.insert_one("a", ev()).id)
            elif x < 0.70 and ids:
                name = "delete"
                st.delete("a", ids.pop(rng.randrange(len(ids))))
            elif x < 0.80 and ids:
                name = "replace"
                st.replace("a", rng.choice(ids), ev())
            elif x < 0.88 and ids:
                name = "replace_last"
                st.replace_last("a", ev())
            elif x < 0.93:
                name = "insert_many"
                ups = rng.sample(ids, min(len(ids), rng.choice([0, 1, 2])))
                st.insert_many("a", [ev(i) for i in ups] + [ev() for _ in range(rng.choice([1, 5, 60, 120, 230]))])
            elif x < 0.95:
                name = "update_bucket"
                st.update_bucket("a", data={"v": n})
            elif x < 0.97:
                name = "create_bucket"
                extra += 1
                st.create_bucket(f"x{extra}", "t", "c", "h", T0.isoformat(), None, None)
                out("R", name, True)
                name = "insert_many"
                st.insert_many(f"x{extra}", [ev() for _ in range(3)])
            elif x < 0.985 and extra:
                name = "delete_bucket"
                st.delete_bucket(f"x{extra}")
                extra -= 1
            elif x < 0.99:
                name = "get_eventcount"
                st.get_eventcount("a")
            else:
                time.sleep(0.002)
                continue
        except Exception:
            ok = False
        out("R", name, ok)
        if rng.random() < 0.3:
            time.sleep(0.001)          # keeps the log (and the parent's replay) short


def kill_run(backend, seed, delay):
    d = scratch_dir()
    res = {"violations": [], "delay": delay, "logged": 0}
    try:
        env = dict(os.environ)
        p = subprocess.Popen([sys.executable, "-m", "harness.c06_kill", "child", backend, d, str(seed)],
                             cwd=common.VERIF, env=env, stdout=subprocess.DEVNULL, stderr=subprocess.PIPE)
        logp = os.path.join(d, "log")
        t0 = time.time()
        while time.time() - t0 < 60:
            if os.path.exists(logp) and b'"READY"' in open(logp, "rb").read():
                break
            if p.poll() is not None:
                break
            time.sleep(0.01)
        if p.poll() is not None:
            res["violations"].append(("C06:sigkill-child-failed", "child exited early: " + p.stderr.read().decode()[-300:]))
            return res
        time.sleep(abs(delay))
        if delay < 0:
            open(os.path.join(d, "stop"), "w").close()
            try:
                p.wait(timeout=60)
            except subprocess.TimeoutExpired:
                os.kill(p.pid, signal.SIGKILL)
                p.wait()
        else:
            os.kill(p.pid, signal.SIGKILL)
            p.wait()
        lines = open(logp, "rb").read().split(b"\n")
        recs = []
        for ln in lines:
            try:
                recs.append(json.loads(ln))
            except ValueError:
                pass                      # the line being written when the child died
        # reopen
        c = sqlite3.connect(os.path.join(d, "k.db"), isolation_level=None)
        if backend == "sqlite":
            dumper = dump
        else:
            from .c06_peewee import pw_dump as dumper
        got = dumper(c)
        sh = Shadow(schema_of(c), dumper=dumper)
        c.close()
        n_stmts = sum(1 for r in recs if r[0] == "S")
        seen_stmts = 0
        applied = 0
        done = 0            # statements of completed calls
        durable = 0         # statements up to the last returned bucket operation (sqlite) / call (peewee)
        call_start = 0
        split_ranges = []
        for r in recs:
            if r[0] == "S":
                seen_stmts += 1
                # table dumps only near the end: the committed prefix cannot be further back
                # than 50 + one call (if it is, no dump matches and that is reported)
                if sh.apply(r[1], digest=seen_stmts > n_stmts - 600) is not None:
                    applied += 1
            elif r[0] == "R":
                done = applied
                if backend == "peewee" or (r[1] in BUCKET_CALLS and r[2]):
                    durable = applied
                if backend == "sqlite" and r[1] == "delete_bucket" and applied - call_start >= 2:
                    split_ranges.append((call_start, applied))
                call_start = applied
        res["logged"] = applied
        J = sh.matches(got, applied)
        if not J:
            res["violations"].append(("C06:not-a-prefix", f"{backend}: after SIGKILL the reopened database is not the effect of "
                                      f"any prefix of the {applied} logged write statements"))
            return res
        res["lost"] = done - max(J) if done > max(J) else 0
        if backend == "sqlite" and done - max(J) > THRESHOLD:
            res["violations"].append(("C06:unbounded-loss", f"sqlite: after SIGKILL {done - max(J)} writes of completed calls are missing"))
        if max(J) < durable:
            res["violations"].append(("C06:bucket-op-not-durable" if backend == "sqlite" else "C06:peewee-completed-op-not-durable",
                                      f"{backend}: after SIGKILL only {max(J)} of the {durable} statements that had to be durable are there"))
        for a, b in split_ranges:
            if not any(j <= a or j >= b for j in J):
                res["violations"].append(("C06:operation-split", f"sqlite: delete_bucket writes {a}..{b - 1} split by the crash ({J})"))
        if backend == "sqlite":
            # the store itself must open the file again
            rc, out = common.sh([sys.executable, "-c",
                                 "import sys; sys.path.insert(0, %r)\n"
                                 "import logging; logging.disable(logging.CRITICAL)\n"
                                 "from aw_datastore.storages import SqliteStorage\n"
                                 "s = SqliteStorage(testing=True, filepath=%r); print('N', s.get_eventcount('a'))"
                                 % (common.REPO, os.path.join(d, "k.db"))], timeout=120)
            if rc != 0 or "N " not in out:
                res["violations"].append(("C06:reopen-failed", "SqliteStorage could not reopen the file after SIGKILL: " + out[-200:]))
        return res
    finally:
        shutil.rmtree(d, ignore_errors=True)


if __name__ == "__main__":
    if sys.argv[1] == "child":
        child(sys.argv[2], sys.argv[3], int(sys.argv[4]))
    else:
        r = kill_run(sys.argv[1], int(sys.argv[2]), float(sys.argv[3]))
        print(json.dumps(r, indent=1))
        sys.exit(1 if r["violations"] else 0)
